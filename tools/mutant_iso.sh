#!/bin/bash
# usage: tools/mutant_iso.sh <patch.diff> <ID> [tier] [extra check args]
# Runs a check against an isolated copy: a scratch git worktree of /repo HEAD with the patch
# applied, and a scratch copy of /verif whose go.mod replace directives point at that worktree.
# /repo's working tree is not touched, so several of these can run beside other work.
set -u
patch=$(realpath "$1"); id=$2; tier=${3:-quick}; shift; shift; shift || true
w=$(mktemp -d /tmp/mw-XXXXXX); v=$(mktemp -d /tmp/mv-XXXXXX)
cleanup() { git -C /repo worktree remove --force "$w" >/dev/null 2>&1; rm -rf "$w" "$v"; git -C /repo worktree prune; }
trap cleanup EXIT
rmdir "$w"; git -C /repo worktree add --detach "$w" HEAD >/dev/null 2>&1 || { echo "worktree failed"; exit 2; }
git -C "$w" apply "$patch" || { echo "mutant=$(basename $patch) check=$id rc=2 (patch does not apply)"; exit 2; }
rsync -a --exclude .git --exclude .work --exclude replays --exclude evidence /verif/ "$v"/
sed -i "s#=> /repo/#=> $w/#" "$v/harness/go.mod"
(cd "$v" && VERIF_JOBS=${VERIF_JOBS:-8} ./check "$id" --tier "$tier" "$@" > "$v/out.log" 2>&1)
rc=$?
grep -E "^(VIOLATION|INCONCLUSIVE|property=)|INCONCLUSIVE:" "$v/out.log" | head -4
echo "mutant=$(basename $patch) check=$id rc=$rc"
exit $rc
