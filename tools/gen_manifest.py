#!/usr/bin/env python3
"""Regenerates MANIFEST.json from checks_table.py (single source of truth)."""
import json, os, sys
ROOT = os.path.dirname(os.path.dirname(os.path.abspath(__file__)))
sys.path.insert(0, ROOT)
from checks_table import PROPS, HOOK_COMMITS, NOT_APPLICABLE
ids = [json.loads(l)["id"] for l in open(os.path.join(ROOT, "properties.jsonl"))]
checks = []
for pid in ids:
    if pid not in PROPS:
        continue
    s = PROPS[pid]
    checks.append({
        "property_id": pid,
        "quick_cmd": "./check %s --tier quick" % pid,
        "thorough_cmd": "./check %s --tier thorough" % pid,
        "evidence_file": "/verif/evidence/%s.json" % pid,
        "replay_cmd_template": "./check %s --replay {path}" % pid,
        "engine": s.get("engine", "rapid"),
        "level_claimed": {"category": s["level"], "text": s["level_text"], "design_ref": s.get("design_ref", "DESIGN.md §3 " + pid)},
        "level_note": s["level_note"],
        "technique": s["technique"],
    })
na = [{"property_id": p, "reason": NOT_APPLICABLE.get(p, "check not built yet in this tree (DESIGN.md §8 build order); not claimed")} for p in ids if p not in PROPS]
m = {
    "version": 1,
    "setup_cmd": "./tools/setup.sh",
    "hooks": {
        "guard": "verif (Go build tag)",
        "enable": "checks build with `go test -c -tags verif` from a harness module whose replace directives point at /repo",
        "baseline_off_cmd": "for m in $(cat /w/out/gomods.txt); do MF=$(cd /repo/$m && . /w/out/goenv.sh && gomodflag); (cd /repo/$m && go test $MF -json -vet=off -count=1 -timeout 25m ./...); done",
        "source_commits": HOOK_COMMITS,
        "add_only": True,
    },
    "engines": [
        {"name": "rapid", "path": "harness/", "serves_properties": [c["property_id"] for c in checks],
         "kind_free_text": "pgregory.net/rapid v1.3.0 property tests sharded over processes by ./check; native go fuzzing for byte-level targets in the thorough tier"},
    ],
    "checks": checks,
    "not_applicable": na,
    "notes": "All checks: ./check <ID> --tier quick|thorough, cwd /verif. Exit 0 held / 1 VIOLATION / 2 inconclusive (build or infrastructure). VERIF_SEED selects the rapid seeds.",
}
json.dump(m, open(os.path.join(ROOT, "MANIFEST.json"), "w"), indent=1)
print("MANIFEST.json: %d checks, %d not claimed" % (len(checks), len(na)))
