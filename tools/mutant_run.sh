#!/bin/bash
# usage: tools/mutant_run.sh <patch.diff> <ID> [tier] [extra check args]
# applies the patch to /repo, runs the check, reverts /repo (git checkout), prints the verdict.
set -u
patch=$(realpath "$1"); id=$2; tier=${3:-quick}; shift; shift; shift || true
cd /repo || exit 2
if ! git diff --quiet; then echo "/repo dirty; refusing"; exit 2; fi
git apply "$patch" || { echo "patch does not apply"; exit 2; }
cd /verif && ./check "$id" --tier "$tier" "$@" > /tmp/mutant_run.$$.log 2>&1
rc=$?
git -C /repo checkout -- . 
grep -E "^(VIOLATION|INCONCLUSIVE|KNOWN-FINDING|property=)|INCONCLUSIVE:" /tmp/mutant_run.$$.log | head -8
echo "mutant=$(basename $patch) check=$id rc=$rc"
# evidence was rewritten by the mutant run; caller should re-run the check on the clean tree before committing
rm -f /tmp/mutant_run.$$.log
exit $rc
