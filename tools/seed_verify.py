#!/usr/bin/env python3
"""Confirm a seeded change delivered by a seeding sub-agent, in a scratch worktree of /repo, and file it under /verif/seeded/.

usage: tools/seed_verify.py <PROP> <n> [--out /tmp/seed-<PROP>-out] [--name slug]

For /tmp/seed-<PROP>-out/<n>/{patch.diff,demo/*.go,notes.md}:
  1. scratch worktree /tmp/sv-<PROP>-<n> of /repo HEAD; patch applies; the touched modules build;
  2. the existing tests of every touched module pass with the patch (private network namespace);
  3. the demonstration FAILS with the patch and PASSES without it;
  4. files go to /verif/seeded/<PROP>-<n>-<slug>/ with meta.json; the worktree is removed.
The demo's header must say "Place this file at: <path>" and "Run with: cd <dir> && go test ...".
"""
import json, os, re, shutil, subprocess, sys, time

ENV = dict(os.environ)
for k in ("GOFLAGS", "GOTOOLCHAIN", "GOSUMDB", "GOWORK"):
    ENV.pop(k, None)
ENV["GOPROXY"] = "off"


def sh(cmd, cwd, timeout=1800, netns=True):
    if netns:
        # private network namespace (fixed ports) and a private /tmp (the suites use fixed paths such as /tmp/badger)
        cmd = "unshare -n -m bash -c " + shq("mount -t tmpfs tmpfs /tmp; ip link set lo up; " + cmd)
    t0 = time.time()
    try:
        p = subprocess.run(cmd, shell=True, cwd=cwd, env=ENV, stdout=subprocess.PIPE, stderr=subprocess.STDOUT, timeout=timeout, text=True)
        return p.returncode, p.stdout, time.time() - t0
    except subprocess.TimeoutExpired as e:
        return 124, (e.stdout or "") + "\nTIMEOUT", time.time() - t0


def shq(s):
    return "'" + s.replace("'", "'\\''") + "'"


def main():
    prop, n = sys.argv[1], sys.argv[2]
    out = f"/tmp/seed-{prop}-out"
    name = None
    a = sys.argv[3:]
    while a:
        if a[0] == "--out":
            out = a[1]; a = a[2:]
        elif a[0] == "--name":
            name = a[1]; a = a[2:]
        else:
            sys.exit("bad arg " + a[0])
    src = f"{out}/{n}"
    patch = f"{src}/patch.diff"
    demos = sorted(f for f in os.listdir(f"{src}/demo") if f.endswith(".go"))
    wt = f"/var/tmp/sv-{prop}-{n}"
    log = []

    def say(*x):
        line = " ".join(str(y) for y in x)
        print(line, flush=True)
        log.append(line)

    subprocess.run(["git", "-C", "/repo", "worktree", "remove", "--force", wt], stdout=subprocess.DEVNULL, stderr=subprocess.DEVNULL)
    subprocess.check_call(["git", "-C", "/repo", "worktree", "add", "--detach", "-q", wt, "HEAD"])
    ok = True
    meta = dict(property=prop, n=int(n), repo_head=subprocess.check_output(["git", "-C", "/repo", "rev-parse", "--short", "HEAD"], text=True).strip())
    try:
        rc, o, _ = sh(f"git apply --check {patch} && git apply {patch}", wt, netns=False)
        if rc != 0:
            say("patch does not apply:", o); return 1
        touched = subprocess.check_output(["git", "-C", wt, "diff", "--name-only"], text=True).split()
        say("touched:", touched)
        mods = set()
        for f in touched:
            d = os.path.dirname(f)
            while d and not os.path.exists(f"{wt}/{d}/go.mod"):
                d = os.path.dirname(d)
            mods.add(d)
        meta["touched"] = touched
        meta["modules_tested"] = sorted(mods)
        # placement + commands of the demos
        plan = []
        for d in demos:
            txt = open(f"{src}/demo/{d}").read()
            m1 = re.search(r"Place this file at:\s*(\S+)", txt)
            head = txt.split("package ")[0]
            mcd = re.search(r"cd (\S+) &&", head)
            mgo = re.search(r"(go test [^\n]*)", head)
            if not (m1 and mcd and mgo):
                say(f"demo {d}: header lacks placement/run lines"); return 1
            gocmd = mgo.group(1).strip().rstrip("\\").strip()
            if gocmd.count("'") % 2 == 1:
                gocmd = gocmd.rstrip("'")
            plan.append((d, m1.group(1), f"cd {mcd.group(1)} && {gocmd}"))
        # 1. build + existing tests with the patch
        for m in sorted(mods):
            rc, o, dt = sh("go build ./... && go test -vet=off -count=1 -timeout 25m ./... 2>&1 | tail -25", f"{wt}/{m}", timeout=2400)
            bad = rc != 0 or re.search(r"^(FAIL|---\s*FAIL|panic:)", o, re.M)
            say(f"existing tests of {m} with the patch: {'FAIL' if bad else 'pass'} ({dt:.0f}s)")
            if bad:
                say(o[-3000:]); ok = False
        if touched and all(t.startswith("distsys/") for t in touched):
            # a runtime change: also the generated systems' suites that are quick
            for m in ["pgo/test/files/general/hello.tla.gotests", "pgo/test/files/general/ExprTests.tla.gotests", "pgo/test/files/general/NonDetExploration.tla.gotests",
                      "pgo/test/files/general/ProcedureSpaghetti.tla.gotests", "systems/locksvc", "systems/dqueue", "systems/pbkvs", "systems/proxy", "systems/gcounter",
                      "systems/nestedcrdtimpl", "systems/shopcart", "systems/loadbalancer", "systems/raftkvs"]:
                for attempt in range(3):
                    rc, o, dt = sh("go test -vet=off -count=1 -timeout 25m ./... 2>&1 | tail -15", f"{wt}/{m}", timeout=2400)
                    bad = rc != 0 or re.search(r"^(FAIL|---\s*FAIL|panic:)", o, re.M)
                    if not bad:
                        break
                    say(f"   (attempt {attempt+1} of the suite of {m} failed; the machine is shared, trying again)")
                say(f"existing tests of {m} with the patch: {'FAIL' if bad else 'pass'} ({dt:.0f}s)")
                meta["modules_tested"].append(m)
                if bad:
                    say(o[-3000:]); ok = False
        # 2. demo with the patch: must fail
        for d, place, cmd in plan:
            os.makedirs(os.path.dirname(f"{wt}/{place}"), exist_ok=True)
            shutil.copy(f"{src}/demo/{d}", f"{wt}/{place}")
        res = {}
        for d, place, cmd in plan:
            fails = 0
            for i in range(3):
                rc, o, dt = sh(cmd + " 2>&1 | tail -30", wt, timeout=900)
                failed = bool(re.search(r"^(FAIL|---\s*FAIL|panic:)", o, re.M)) or rc != 0
                fails += failed
            say(f"demo {d} WITH the patch: failed {fails}/3 runs")
            res[d] = dict(with_patch_failed=fails)
            if fails < 3:
                ok = False
                say(o[-1500:])
        rc, o, _ = sh(f"git apply -R {patch}", wt, netns=False)
        if rc != 0:
            say("cannot revert:", o); return 1
        for d, place, cmd in plan:
            passes = 0
            for i in range(3):
                rc, o, dt = sh(cmd + " 2>&1 | tail -30", wt, timeout=900)
                failed = bool(re.search(r"^(FAIL|---\s*FAIL|panic:)", o, re.M)) or rc != 0
                passes += (not failed) and ("ok" in o or "PASS" in o)
            say(f"demo {d} WITHOUT the patch: passed {passes}/3 runs")
            res[d]["without_patch_passed"] = passes
            if passes < 3:
                ok = False
                say(o[-1500:])
        meta["demo"] = {d: dict(place=p, cmd=c, **res[d]) for d, p, c in plan}
    finally:
        subprocess.run(["git", "-C", "/repo", "worktree", "remove", "--force", wt])
        shutil.rmtree(wt, ignore_errors=True)
    meta["confirmed"] = ok
    say("CONFIRMED" if ok else "NOT CONFIRMED")
    if ok:
        slug = name or os.path.splitext(demos[0])[0].replace("_test", "").replace("_demo", "")
        dst = f"/verif/seeded/{prop}-{n}-{slug}"
        shutil.rmtree(dst, ignore_errors=True)
        os.makedirs(dst)
        shutil.copy(patch, dst + "/patch.diff")
        shutil.copytree(f"{src}/demo", dst + "/demo")
        if os.path.exists(f"{src}/notes.md"):
            shutil.copy(f"{src}/notes.md", dst + "/notes.md")
        meta["what_i_ran"] = log
        json.dump(meta, open(dst + "/meta.json", "w"), indent=1)
        say("filed under", dst)
    return 0 if ok else 1


if __name__ == "__main__":
    sys.exit(main())
