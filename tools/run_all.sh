#!/bin/bash
# usage: tools/run_all.sh [tier] [seed]  — runs every claimed check in turn; one summary line each
tier=${1:-quick}; seed=${2:-}
cd /verif
for id in C01 C02 C03 C04 C05 C06 C07 C08 C09 C10 C11 C12 C13 C14 C15 C16 C17 C18 C19; do
  t0=$(date +%s)
  if [ -n "$seed" ]; then export VERIF_SEED=$seed; fi
  ./check $id --tier $tier > /tmp/runall.$id.log 2>&1; rc=$?
  echo "$id rc=$rc $(( $(date +%s)-t0 ))s $(grep -E '^(VIOLATION|INCONCLUSIVE)' /tmp/runall.$id.log | head -2 | tr '\n' ' ') $(grep -c '^KNOWN-FINDING' /tmp/runall.$id.log) known"
done
