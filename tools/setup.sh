#!/bin/bash
# Offline setup: compile every harness package once (warms the Go build cache); nothing is fetched.
set -e
export GOFLAGS=-mod=mod GOPROXY=off GOSUMDB=off GOTOOLCHAIN=local GOWORK=off
cd "$(dirname "$0")/../harness"
mkdir -p ../.work/setup
for d in $(ls -d c[0-9][0-9] 2>/dev/null); do
  go test -c -tags verif -vet=off -o ../.work/setup/$d.test ./$d
done
rm -rf ../.work/setup
echo setup ok
