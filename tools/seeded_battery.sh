#!/bin/bash
# usage: tools/seeded_battery.sh "<seeded-dir> <CHECK>" ...   — runs each check against each seeded change in isolation
cd /verif
for x in "$@"; do set -- $x; echo "== $1 vs $2"; VERIF_JOBS=${VERIF_JOBS:-8} tools/mutant_iso.sh seeded/$1/patch.diff $2 quick 2>&1 | grep -v conda | tail -2; done
