#!/usr/bin/env python3
import json, sys
props = {json.loads(l)['id']: json.loads(l) for l in open('/verif/properties.jsonl')}
pid = sys.argv[1]
p = props[pid]
print(f"""You are a careful Go engineer doing mutation seeding for a research study on verification. Work ONLY inside the git worktree /tmp/seed-{pid} (a checkout of the repository DistCompiler/pgo: a compiler from Modular PlusCal to Go plus its Go runtime `distsys` and generated systems under `systems/`). Do not read or write anything under /verif or /repo, and do not look for existing verification harnesses: your work must be independent.

## The property (a guarantee users of this code rely on)
Title: {p['title']}
Statement: {p['statement']}
It is meant to hold: {p['quantifier']['text']}
Code that is meant to make it hold (starting points for reading): {', '.join(p['anchors']['files'][:14])}

## Your task
Produce TWO different, realistic changes to the Go code under /tmp/seed-{pid} (two separate patches, different mechanisms, each a small edit of the kind a maintainer could make by mistake or as a plausible "optimisation"/refactoring), each of which BREAKS the property above while
  (a) everything still compiles (`go build ./...` and `go vet` in every Go module you touch and in the modules that import it), and
  (b) the EXISTING test suite still passes: at least the tests of every package you touched and of the generated systems that use it (run them: each Go module is its own directory with a go.mod — e.g. `cd distsys && go test ./...`, `cd systems/raftkvs && go test ./...` (slow, ~80 s), `cd pgo/test/files/general/hello.tla.gotests && go test ./...`), and
  (c) the breakage needs something SPECIFIC to manifest — a particular interleaving, a crash or fault at a particular point, a multi-step sequence of operations, an unusual input, or two cooperating sites that each look fine alone — NOT something ordinary use would expose at once (if the shipped tests or a trivial smoke run would notice, it is too shallow; if nothing can ever observe it, it is not a break).
For each change also write a DEMONSTRATION: a Go test (a new _test.go file in the relevant package, or a small new package inside the worktree) that exercises exactly the situation needed, FAILS with your change applied and PASSES on the unmodified code. Verify both directions yourself (save the change with `git diff > /tmp/seed-{pid}-out/N/patch.diff`, toggle it with `git apply -R` / `git apply`; NEVER use `git stash`: the stash is shared with other worktrees of this repository that other people are using). The demonstration may drive resources directly, use goroutines, inject failures through the public interfaces, etc.; it must be deterministic enough to fail reliably (say ≥ 9 of 10 runs) with the change.

Environment: no network. For every shell command: `unset GOFLAGS GOTOOLCHAIN GOSUMDB; export GOPROXY=off` (the repository has a go.work at its root requiring go 1.24, which is in the local toolchain cache and is selected automatically; with these settings `go build ./...`, `go vet ./...` and `go test ./...` work inside every module directory, e.g. `cd distsys && go test ./...`). Scala/mill cannot run; only change Go code (the runtime under distsys/, or the checked-in generated Go of a system such as systems/raftkvs/raftkvs.go when the property is about that system). Do not edit existing tests. Do not commit. Other people run tests on this machine at the same time and several test suites listen on fixed TCP ports: run tests inside a private network namespace — `unshare -n bash -c 'ip link set lo up; go test ./...'` — so that an 'address already in use' failure never confuses you (likewise 'Cannot acquire directory lock on "/tmp/badger"' means somebody else's run holds that fixed path: just re-run).

## Deliver (write these files, then summarise them in your final message)
/tmp/seed-{pid}-out/1/patch.diff   — `git diff` of change 1 only (paths relative to the repo root, must apply with `git apply` on a clean checkout)
/tmp/seed-{pid}-out/1/demo/...     — the demonstration test file(s), whose header comment contains the two lines `// Place this file at:   <path relative to the repo root>` and `// Run with:   cd <module dir> && go test <args>` (one line, no shell continuation)
/tmp/seed-{pid}-out/1/notes.md     — 5-15 lines: what the change is, why it breaks the property, what exactly is needed for it to manifest, which existing tests you ran (with their result), and the demo's result with and without the change
…and the same under /tmp/seed-{pid}-out/2/ for change 2.
Leave the worktree clean at the end (`git checkout -- . && git clean -fd` inside /tmp/seed-{pid}) — the patches and demos live in the -out directory.
""")
