package prog

// Further resource kinds named by C01's quantifier: the Raft persistent log and the
// default-on-timeout input channel of systems/raftkvs, a CRDT resource, and a 2PC-replicated
// variable. Their values are not plain string tokens, so they carry a Codec.

import (
	"bytes"
	"encoding/gob"
	"fmt"
	"regexp"
	"strconv"
	"strings"
	"time"

	"github.com/DistCompiler/pgo/distsys"
	"github.com/DistCompiler/pgo/distsys/resources"
	"github.com/DistCompiler/pgo/distsys/tla"
	"github.com/DistCompiler/pgo/systems/raftkvs"
	"github.com/dgraph-io/badger/v3"

	"verif/harness/hx"
)

// Codec is implemented by instances that do not store the interpreter's string tokens as they are.
type Codec interface {
	Enc(tok string) tla.Value // the value to write for this token (called before the write, on the model's current state)
	Dec(v tla.Value) string   // the rendering of a value read, comparable with MPeek
}

// EmptyReadOK is implemented by consuming instances on which a read of an empty queue is a defined, successful operation.
type EmptyReadOK interface {
	EmptyReadOK() bool
	EmptyDefault() string // the rendering (Codec.Dec) of what such a read yields
}

func tokNum(tok string) int {
	n := 0
	for _, c := range tok {
		if c >= '0' && c <= '9' {
			n = n*10 + int(c-'0')
		} else if n > 0 {
			break
		}
	}
	return n
}

// ---- raftkvs.PersistentLog -------------------------------------------------------------------------

type PLog struct {
	base
	db             *badger.DB
	name           string
	res            distsys.ArchetypeResource
	cur, committed []string
}

func NewPLog() Instance { return &PLog{db: hx.MemBadger()} }

func (l *PLog) Kind() string { return "raft-persistent-log" }
func (l *PLog) Configs(name string, wrap func(distsys.ArchetypeResource) distsys.ArchetypeResource) []distsys.MPCalContextConfigFn {
	l.name = name
	l.res = raftkvs.NewPersistentLog(name, l.db)
	return []distsys.MPCalContextConfigFn{distsys.EnsureArchetypeRefParam(name, wrap(l.res))}
}

// what a token does to the log: every fourth pops the last entry (when there is one), every fourth appends two, the rest one
func (l *PLog) effect(tok string) (pop int, push []string) {
	n := tokNum(tok)
	switch {
	case n%4 == 0 && len(l.cur) > 0:
		return 1, nil
	case n%4 == 1:
		return 0, []string{tok, tok + "b"}
	}
	return 0, []string{tok}
}

func (l *PLog) Enc(tok string) tla.Value {
	pop, push := l.effect(tok)
	if pop > 0 {
		return tla.MakeRecord([]tla.RecordField{
			{Key: tla.MakeString("cmd"), Value: tla.MakeString("log_pop")},
			{Key: tla.MakeString("cnt"), Value: tla.MakeNumber(int32(pop))},
		})
	}
	vs := make([]tla.Value, len(push))
	for i, p := range push {
		vs[i] = tla.MakeString(p)
	}
	return tla.MakeRecord([]tla.RecordField{
		{Key: tla.MakeString("cmd"), Value: tla.MakeString("log_concat")},
		{Key: tla.MakeString("entries"), Value: tla.MakeTuple(vs...)},
	})
}

func decTuple(v tla.Value) string {
	v = v.StripVClock()
	if !v.IsTuple() {
		return "<not a sequence: " + v.String() + ">"
	}
	var out []string
	it := v.AsTuple().Iterator()
	for !it.Done() {
		_, e := it.Next()
		if e.IsString() {
			out = append(out, e.AsString())
		} else {
			out = append(out, "<"+e.String()+">")
		}
	}
	return "[" + strings.Join(out, ",") + "]"
}

func (l *PLog) Dec(v tla.Value) string   { return decTuple(v) }
func (l *PLog) MPeek(int) (string, bool) { return "[" + strings.Join(l.cur, ",") + "]", true }
func (l *PLog) MWrite(_ int, tok string) {
	pop, push := l.effect(tok)
	l.cur = append(append([]string{}, l.cur[:len(l.cur)-pop]...), push...)
}
func (l *PLog) MCommit() { l.committed = append([]string{}, l.cur...) }
func (l *PLog) MAbort()  { l.cur = append([]string{}, l.committed...) }
func (l *PLog) MObserve() string {
	return "[" + strings.Join(l.cur, ",") + "] stored=[" + strings.Join(l.committed, ",") + "]"
}
func (l *PLog) Observe(iface distsys.ArchetypeInterface, _ string) (string, error) {
	v, err := l.res.ReadValue(iface)
	if err != nil {
		return "", err
	}
	var stored []string
	err = l.db.View(func(txn *badger.Txn) error {
		for i := 0; ; i++ {
			item, err := txn.Get([]byte(fmt.Sprintf("raftkvs.plog.%v.%d", l.name, i)))
			if err == badger.ErrKeyNotFound {
				// nothing may be stored beyond the end either
				for j := i + 1; j < i+4; j++ {
					if _, err := txn.Get([]byte(fmt.Sprintf("raftkvs.plog.%v.%d", l.name, j))); err == nil {
						stored = append(stored, fmt.Sprintf("<hole at %d, entry at %d>", i, j))
					}
				}
				return nil
			}
			if err != nil {
				return err
			}
			err = item.Value(func(val []byte) error {
				var e tla.Value
				if err := gob.NewDecoder(bytes.NewReader(val)).Decode(&e); err != nil {
					return err
				}
				if e.IsString() {
					stored = append(stored, e.AsString())
				} else {
					stored = append(stored, "<"+e.String()+">")
				}
				return nil
			})
			if err != nil {
				return err
			}
		}
	})
	if err != nil {
		return "", err
	}
	return decTuple(v) + " stored=[" + strings.Join(stored, ",") + "]", nil
}
func (l *PLog) Teardown() { l.db.Close() }

// ---- raftkvs.CustomInChan: an input channel whose read of an empty channel yields TRUE after a time-out ----

type CustomIn struct {
	base
	q  *queue
	ch chan tla.Value
}

func NewCustomIn(prefill int) Instance {
	in := &CustomIn{q: &queue{}, ch: make(chan tla.Value, 64)}
	for i := 0; i < prefill; i++ {
		tok := fmt.Sprintf("cin%d", i)
		in.ch <- tla.MakeString(tok)
		in.q.committed = append(in.q.committed, tok)
	}
	return in
}

const customInDefault = "<default: TRUE>"

func (c *CustomIn) Kind() string         { return "raft-custom-input-channel" }
func (c *CustomIn) CanWrite() bool       { return false }
func (c *CustomIn) Consuming() bool      { return true }
func (c *CustomIn) EmptyReadOK() bool    { return true }
func (c *CustomIn) EmptyDefault() string { return customInDefault }
func (c *CustomIn) Configs(name string, wrap func(distsys.ArchetypeResource) distsys.ArchetypeResource) []distsys.MPCalContextConfigFn {
	return []distsys.MPCalContextConfigFn{distsys.EnsureArchetypeRefParam(name, wrap(raftkvs.NewCustomInChan(c.ch, 8*time.Millisecond)))}
}
func (c *CustomIn) Enc(tok string) tla.Value { return tla.MakeString(tok) }
func (c *CustomIn) Dec(v tla.Value) string {
	v = v.StripVClock()
	switch {
	case v.IsString():
		return v.AsString()
	case v.IsBool() && v.AsBool():
		return customInDefault
	}
	return "<" + v.String() + ">"
}
func (c *CustomIn) MPeek(int) (string, bool) {
	if t, ok := c.q.peek(); ok {
		return t, true
	}
	return customInDefault, true
}
func (c *CustomIn) MConsume(int) {
	if c.Pending() > 0 {
		c.q.taken++
	}
}
func (c *CustomIn) MWrite(int, string) {}
func (c *CustomIn) MCommit()           { c.q.commit() }
func (c *CustomIn) MAbort()            { c.q.abort() }
func (c *CustomIn) MObserve() string   { return "" }
func (c *CustomIn) Pending() int       { return len(c.q.committed) - c.q.taken }
func (c *CustomIn) Observe(distsys.ArchetypeInterface, string) (string, error) {
	return "", nil // what is left is observed by reading it (drain and probe labels)
}

// ---- CRDT resource (grow-only counter, no peers) ------------------------------------------------------

type CRDTCounter struct {
	base
	res            distsys.ArchetypeResource
	cur, committed int
}

func NewCRDTCounter() Instance { return &CRDTCounter{} }

func (c *CRDTCounter) Kind() string { return "crdt-gcounter" }
func (c *CRDTCounter) Configs(name string, wrap func(distsys.ArchetypeResource) distsys.ArchetypeResource) []distsys.MPCalContextConfigFn {
	addr := freeAddr()
	c.res = resources.NewCRDT(tla.MakeString("node-"+name), nil, func(tla.Value) string { return addr }, resources.GCounter{},
		resources.WithCRDTBroadcastInterval(5*time.Millisecond))
	return []distsys.MPCalContextConfigFn{distsys.EnsureArchetypeRefParam(name, wrap(c.res))}
}
func (c *CRDTCounter) inc(tok string) int       { return tokNum(tok)%5 + 1 }
func (c *CRDTCounter) Enc(tok string) tla.Value { return tla.MakeNumber(int32(c.inc(tok))) }
func (c *CRDTCounter) Dec(v tla.Value) string {
	v = v.StripVClock()
	if v.IsNumber() {
		return strconv.Itoa(int(v.AsNumber()))
	}
	return "<" + v.String() + ">"
}
func (c *CRDTCounter) MPeek(int) (string, bool) { return strconv.Itoa(c.cur), true }
func (c *CRDTCounter) MWrite(_ int, tok string) { c.cur += c.inc(tok) }
func (c *CRDTCounter) MCommit()                 { c.committed = c.cur }
func (c *CRDTCounter) MAbort()                  { c.cur = c.committed }
func (c *CRDTCounter) MObserve() string         { return strconv.Itoa(c.cur) }
func (c *CRDTCounter) Observe(iface distsys.ArchetypeInterface, _ string) (string, error) {
	v, err := c.res.ReadValue(iface)
	if err != nil {
		return "", err
	}
	return c.Dec(v), nil
}

// ---- 2PC-replicated variable: the bound resource plus one passive in-process replica -------------------

type TwoPCCell struct {
	base
	a, b *resources.TwoPCArchetypeResource
	c    *cell
}

func NewTwoPCCell() Instance { return &TwoPCCell{c: newCell("2pc-init")} }

func (c *TwoPCCell) Kind() string { return "twopc-variable" }
func (c *TwoPCCell) Configs(name string, wrap func(distsys.ArchetypeResource) distsys.ArchetypeResource) []distsys.MPCalContextConfigFn {
	mk := func(id string) *resources.TwoPCArchetypeResource {
		return resources.NewTwoPC(tla.MakeString("2pc-init"), freeAddr(), nil, tla.MakeString(id+"-"+name), nil).(*resources.TwoPCArchetypeResource)
	}
	c.a, c.b = mk("A"), mk("B")
	c.a.SetReplicas([]resources.ReplicaHandle{resources.VerifMakeLocalReplicaHandle(c.b)})
	c.b.SetReplicas([]resources.ReplicaHandle{resources.VerifMakeLocalReplicaHandle(c.a)})
	return []distsys.MPCalContextConfigFn{distsys.EnsureArchetypeRefParam(name, wrap(c.a))}
}
func (c *TwoPCCell) MPeek(int) (string, bool) { return c.c.cur, true }
func (c *TwoPCCell) MWrite(_ int, t string)   { c.c.cur = t }
func (c *TwoPCCell) MCommit()                 { c.c.commit() }
func (c *TwoPCCell) MAbort()                  { c.c.abort() }
func (c *TwoPCCell) MObserve() string         { return "here=" + str(c.c.cur) + " replica=" + str(c.c.cur) }

var twoPCValue = regexp.MustCompile(`value=(.*?) cs=`)

func (c *TwoPCCell) Observe(distsys.ArchetypeInterface, string) (string, error) {
	// the Commit message reaches the replica on a goroutine of the resource: wait (bounded) for the value to settle
	want := c.MObserve()
	deadline := time.Now().Add(8 * time.Second)
	for {
		got := ""
		for i, r := range []*resources.TwoPCArchetypeResource{c.a, c.b} {
			m := twoPCValue.FindStringSubmatch(resources.VerifTwoPCState(r))
			v := "<unreadable>"
			if m != nil {
				v = m[1]
			}
			got += []string{"here=", " replica="}[i] + v
		}
		if got == want || time.Now().After(deadline) {
			return got, nil
		}
		time.Sleep(2 * time.Millisecond)
	}
}
func (c *TwoPCCell) Teardown() {
	if c.b != nil {
		c.b.Close()
	}
}
