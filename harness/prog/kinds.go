package prog

import (
	"bytes"
	"encoding/gob"
	"fmt"
	"net"
	"os"
	"path/filepath"
	"sort"
	"strings"
	"time"

	"github.com/DistCompiler/pgo/distsys"
	"github.com/DistCompiler/pgo/distsys/hashmap"
	"github.com/DistCompiler/pgo/distsys/resources"
	"github.com/DistCompiler/pgo/distsys/tla"
	"github.com/dgraph-io/badger/v3"

	"verif/harness/hx"
)

func decodeState(b []byte) (string, error) {
	var v tla.Value
	if err := gob.NewDecoder(bytes.NewReader(b)).Decode(&v); err != nil {
		return "", err
	}
	return v.String(), nil
}

func str(tok string) string { return tla.MakeString(tok).String() }

// ---- cell model: committed value + value in flight ---------------------------------------

type cell struct{ committed, cur string }

func newCell(init string) *cell { return &cell{init, init} }
func (c *cell) commit()         { c.committed = c.cur }
func (c *cell) abort()          { c.cur = c.committed }

type cellMap struct {
	cells map[int]*cell
	init  func(int) string
}

func (m *cellMap) get(i int) *cell {
	if c, ok := m.cells[i]; ok {
		return c
	}
	c := newCell(m.init(i))
	m.cells[i] = c
	return c
}
func (m *cellMap) commit() {
	for _, c := range m.cells {
		c.commit()
	}
}
func (m *cellMap) abort() {
	for _, c := range m.cells {
		c.abort()
	}
}
func (m *cellMap) render(n int) string {
	p := make([]string, n)
	for i := 0; i < n; i++ {
		p[i] = m.get(i).cur
	}
	return strings.Join(p, ",")
}

type base struct{}

func (base) Consuming() bool                             { return false }
func (base) MConsume(int)                                {}
func (base) Pending() int                                { return 0 }
func (base) Teardown()                                   {}
func (base) PreAmble(distsys.ArchetypeInterface, string) {}
func (base) IdxVal(i int) tla.Value                      { return tla.MakeNumber(int32(i)) }
func (base) CanRead() bool                               { return true }
func (base) CanWrite() bool                              { return true }
func (base) Wrappable() bool                             { return true }
func (base) NumIdx() int                                 { return 0 }

// ---- archetype-local variable ---------------------------------------------------------------

type Local struct {
	base
	c *cell
}

func NewLocal() Instance         { return &Local{c: newCell("init")} }
func (l *Local) Kind() string    { return "local" }
func (l *Local) Wrappable() bool { return false }
func (l *Local) Configs(string, func(distsys.ArchetypeResource) distsys.ArchetypeResource) []distsys.MPCalContextConfigFn {
	return nil
}
func (l *Local) PreAmble(iface distsys.ArchetypeInterface, full string) {
	iface.EnsureArchetypeResourceLocal(full, tla.MakeString("init"))
}
func (l *Local) MPeek(int) (string, bool) { return l.c.cur, true }
func (l *Local) MWrite(_ int, t string)   { l.c.cur = t }
func (l *Local) MCommit()                 { l.c.commit() }
func (l *Local) MAbort()                  { l.c.abort() }
func (l *Local) MObserve() string         { return str(l.c.cur) }
func (l *Local) Observe(iface distsys.ArchetypeInterface, full string) (string, error) {
	return iface.ReadArchetypeResourceLocal(full).String(), nil
}

// ---- function-valued local with indexed access ------------------------------------------------

type LocalFn struct {
	base
	m *cellMap
}

const nKeys = 3

func NewLocalFn() Instance {
	return &LocalFn{m: &cellMap{cells: map[int]*cell{}, init: func(i int) string { return fmt.Sprintf("init%d", i) }}}
}
func (l *LocalFn) Kind() string    { return "local-function" }
func (l *LocalFn) Wrappable() bool { return false }
func (l *LocalFn) NumIdx() int     { return nKeys }
func (l *LocalFn) Configs(string, func(distsys.ArchetypeResource) distsys.ArchetypeResource) []distsys.MPCalContextConfigFn {
	return nil
}
func (l *LocalFn) PreAmble(iface distsys.ArchetypeInterface, full string) {
	var fs []tla.RecordField
	for i := 0; i < nKeys; i++ {
		fs = append(fs, tla.RecordField{Key: tla.MakeNumber(int32(i)), Value: tla.MakeString(fmt.Sprintf("init%d", i))})
	}
	iface.EnsureArchetypeResourceLocal(full, tla.MakeRecord(fs))
}
func (l *LocalFn) MPeek(i int) (string, bool) { return l.m.get(i).cur, true }
func (l *LocalFn) MWrite(i int, t string)     { l.m.get(i).cur = t }
func (l *LocalFn) MCommit()                   { l.m.commit() }
func (l *LocalFn) MAbort()                    { l.m.abort() }
func (l *LocalFn) MObserve() string           { return l.m.render(nKeys) }
func (l *LocalFn) Observe(iface distsys.ArchetypeInterface, full string) (string, error) {
	v := iface.ReadArchetypeResourceLocal(full)
	p := make([]string, nKeys)
	for i := range p {
		p[i] = v.ApplyFunction(tla.MakeNumber(int32(i))).AsString()
	}
	return strings.Join(p, ","), nil
}

// ---- IncMap / HashMap of local resources ------------------------------------------------------------

type MapOfLocals struct {
	base
	hash  bool
	m     *cellMap
	elems map[int]*distsys.LocalArchetypeResource
}

func NewIncMapOfLocals() Instance  { return newMapOfLocals(false) }
func NewHashMapOfLocals() Instance { return newMapOfLocals(true) }
func newMapOfLocals(hash bool) Instance {
	return &MapOfLocals{hash: hash, elems: map[int]*distsys.LocalArchetypeResource{},
		m: &cellMap{cells: map[int]*cell{}, init: func(i int) string { return fmt.Sprintf("e%d", i) }}}
}
func (l *MapOfLocals) Kind() string {
	if l.hash {
		return "hashmap-of-locals"
	}
	return "incmap-of-locals"
}
func (l *MapOfLocals) NumIdx() int { return nKeys }
func (l *MapOfLocals) Configs(name string, wrap func(distsys.ArchetypeResource) distsys.ArchetypeResource) []distsys.MPCalContextConfigFn {
	mk := func(i int) *distsys.LocalArchetypeResource {
		r := distsys.NewLocalArchetypeResource(tla.MakeString(fmt.Sprintf("e%d", i)))
		l.elems[i] = r
		return r
	}
	var res distsys.ArchetypeResource
	if l.hash {
		hm := hashmap.New[distsys.ArchetypeResource]()
		for i := 0; i < nKeys; i++ {
			hm.Set(tla.MakeNumber(int32(i)), mk(i))
		}
		res = resources.NewHashMap(hm)
	} else {
		res = resources.NewIncMap(func(index tla.Value) distsys.ArchetypeResource { return mk(int(index.AsNumber())) })
	}
	return []distsys.MPCalContextConfigFn{distsys.EnsureArchetypeRefParam(name, wrap(res))}
}
func (l *MapOfLocals) MPeek(i int) (string, bool) { return l.m.get(i).cur, true }
func (l *MapOfLocals) MWrite(i int, t string)     { l.m.get(i).cur = t }
func (l *MapOfLocals) MCommit()                   { l.m.commit() }
func (l *MapOfLocals) MAbort()                    { l.m.abort() }
func (l *MapOfLocals) MObserve() string {
	p := make([]string, nKeys)
	for i := range p {
		p[i] = str(l.m.get(i).cur)
	}
	return strings.Join(p, ",")
}
func (l *MapOfLocals) Observe(distsys.ArchetypeInterface, string) (string, error) {
	p := make([]string, nKeys)
	for i := range p {
		e, ok := l.elems[i]
		if !ok {
			p[i] = str(fmt.Sprintf("e%d", i)) // never realised: still its initial value
			continue
		}
		b, err := e.GetState()
		if err != nil {
			return "", err
		}
		s, err := decodeState(b)
		if err != nil {
			return "", err
		}
		p[i] = s
	}
	return strings.Join(p, ","), nil
}

// ---- queue model ----------------------------------------------------------------------------------

type queue struct {
	committed []string // available to read (oldest first)
	taken     int      // consumed by the section in flight
	sent      []string // sent by the section in flight
}

func (q *queue) peek() (string, bool) {
	if q.taken < len(q.committed) {
		return q.committed[q.taken], true
	}
	return "", false
}
func (q *queue) commit() {
	q.committed = append(q.committed[q.taken:], q.sent...)
	q.taken, q.sent = 0, nil
}
func (q *queue) abort() { q.taken, q.sent = 0, nil }

// ---- input channel ---------------------------------------------------------------------------------

type InChan struct {
	base
	q  *queue
	ch chan tla.Value
}

func NewInChan(prefill int) Instance {
	in := &InChan{q: &queue{}, ch: make(chan tla.Value, 64)}
	for i := 0; i < prefill; i++ {
		tok := fmt.Sprintf("in%d", i)
		in.ch <- tla.MakeString(tok)
		in.q.committed = append(in.q.committed, tok)
	}
	return in
}
func (c *InChan) Kind() string    { return "input-channel" }
func (c *InChan) CanWrite() bool  { return false }
func (c *InChan) Consuming() bool { return true }
func (c *InChan) Configs(name string, wrap func(distsys.ArchetypeResource) distsys.ArchetypeResource) []distsys.MPCalContextConfigFn {
	return []distsys.MPCalContextConfigFn{distsys.EnsureArchetypeRefParam(name,
		wrap(resources.NewInputChan(c.ch, resources.WithInputChanReadTimeout(3*time.Millisecond))))}
}
func (c *InChan) MPeek(int) (string, bool) { return c.q.peek() }
func (c *InChan) MConsume(int)             { c.q.taken++ }
func (c *InChan) MWrite(int, string)       {}
func (c *InChan) MCommit()                 { c.q.commit() }
func (c *InChan) MAbort()                  { c.q.abort() }
func (c *InChan) MObserve() string         { return "" }
func (c *InChan) Pending() int             { return len(c.q.committed) - c.q.taken }
func (c *InChan) Observe(distsys.ArchetypeInterface, string) (string, error) {
	return "", nil // what is left is observed by reading it (drain and probe labels)
}

// ---- output channel --------------------------------------------------------------------------------

type OutChan struct {
	base
	q         *queue
	ch        chan tla.Value
	published []string
}

func NewOutChan() Instance       { return &OutChan{q: &queue{}, ch: make(chan tla.Value, 512)} }
func (c *OutChan) Kind() string  { return "output-channel" }
func (c *OutChan) CanRead() bool { return false }
func (c *OutChan) Configs(name string, wrap func(distsys.ArchetypeResource) distsys.ArchetypeResource) []distsys.MPCalContextConfigFn {
	return []distsys.MPCalContextConfigFn{distsys.EnsureArchetypeRefParam(name, wrap(resources.NewOutputChan(c.ch)))}
}
func (c *OutChan) MPeek(int) (string, bool) { return "", false }
func (c *OutChan) MWrite(_ int, t string)   { c.q.sent = append(c.q.sent, t) }
func (c *OutChan) MCommit()                 { c.q.committed = append(c.q.committed, c.q.sent...); c.q.sent = nil }
func (c *OutChan) MAbort()                  { c.q.sent = nil }
func (c *OutChan) MObserve() string         { return strings.Join(c.q.committed, ",") }
func (c *OutChan) Observe(distsys.ArchetypeInterface, string) (string, error) {
	for {
		select {
		case v := <-c.ch:
			c.published = append(c.published, v.StripVClock().AsString())
		default:
			return strings.Join(c.published, ","), nil
		}
	}
}

// ---- shared variable (single sharer here; C07 covers contention), optionally persisted ---------------

type Shared struct {
	base
	c          *cell
	mgr        *resources.LocalSharedManager
	persistent bool
	db         *badger.DB
	persisted  string // model: last value stored by a committed section that wrote
	key        string
	dirty      bool
}

func NewShared(persistent bool) Instance {
	s := &Shared{c: newCell("sh-init"), persistent: persistent, persisted: "<none>"}
	s.mgr = resources.NewLocalSharedManager(tla.MakeString("sh-init"), resources.WithLocalSharedResourceTimeout(20*time.Millisecond))
	if persistent {
		s.db = hx.MemBadger()
	}
	return s
}
func (s *Shared) Kind() string {
	if s.persistent {
		return "persistent-shared-variable"
	}
	return "shared-variable"
}
func (s *Shared) Configs(name string, wrap func(distsys.ArchetypeResource) distsys.ArchetypeResource) []distsys.MPCalContextConfigFn {
	var res distsys.ArchetypeResource = s.mgr.MakeLocalShared()
	if s.persistent {
		s.key = "pres-" + name
		res = resources.MakePersistent(name, s.db, s.mgr.MakeLocalShared())
	}
	return []distsys.MPCalContextConfigFn{distsys.EnsureArchetypeRefParam(name, wrap(res))}
}
func (s *Shared) MPeek(int) (string, bool) { return s.c.cur, true }
func (s *Shared) MWrite(_ int, t string)   { s.c.cur = t; s.dirty = true }
func (s *Shared) MCommit() {
	if s.dirty {
		s.persisted = s.c.cur
	}
	s.dirty = false
	s.c.commit()
}
func (s *Shared) MAbort() { s.dirty = false; s.c.abort() }
func (s *Shared) MObserve() string {
	if s.persistent {
		return str(s.c.cur) + " stored=" + s.persisted
	}
	return str(s.c.cur)
}
func (s *Shared) Observe(distsys.ArchetypeInterface, string) (string, error) {
	b, err := s.mgr.MakeLocalShared().GetState() // takes the lock: blocks if the section did not release it
	if err != nil {
		return "", err
	}
	out, err := decodeState(b)
	if err != nil {
		return "", err
	}
	if s.persistent {
		stored := "<none>"
		err := s.db.View(func(txn *badger.Txn) error {
			item, err := txn.Get([]byte(s.key))
			if err == badger.ErrKeyNotFound {
				return nil
			}
			if err != nil {
				return err
			}
			return item.Value(func(val []byte) error {
				d, err := decodeState(val)
				if err == nil {
					stored = strings.Trim(d, `"`)
				}
				return err
			})
		})
		if err != nil {
			return "", err
		}
		out += " stored=" + stored
	}
	return out, nil
}
func (s *Shared) Teardown() {
	if s.db != nil {
		s.db.Close()
	}
}

// ---- file system --------------------------------------------------------------------------------------

type Files struct {
	base
	m   *cellMap
	dir string
}

func NewFiles() Instance {
	dir, err := os.MkdirTemp("", "verif-fs-")
	if err != nil {
		panic(err)
	}
	f := &Files{dir: dir, m: &cellMap{cells: map[int]*cell{}, init: func(i int) string { return fmt.Sprintf("file%d", i) }}}
	for i := 0; i < nKeys; i++ {
		if err := os.WriteFile(filepath.Join(dir, fmt.Sprintf("f%d", i)), []byte(fmt.Sprintf("file%d", i)), 0644); err != nil {
			panic(err)
		}
	}
	return f
}
func (f *Files) Kind() string           { return "file-system" }
func (f *Files) NumIdx() int            { return nKeys }
func (f *Files) IdxVal(i int) tla.Value { return tla.MakeString(fmt.Sprintf("f%d", i)) }
func (f *Files) Configs(name string, wrap func(distsys.ArchetypeResource) distsys.ArchetypeResource) []distsys.MPCalContextConfigFn {
	return []distsys.MPCalContextConfigFn{distsys.EnsureArchetypeRefParam(name, wrap(resources.NewFileSystem(f.dir)))}
}
func (f *Files) MPeek(i int) (string, bool) { return f.m.get(i).cur, true }
func (f *Files) MWrite(i int, t string)     { f.m.get(i).cur = t }
func (f *Files) MCommit()                   { f.m.commit() }
func (f *Files) MAbort()                    { f.m.abort() }
func (f *Files) MObserve() string           { return f.m.render(nKeys) }
func (f *Files) Observe(distsys.ArchetypeInterface, string) (string, error) {
	p := make([]string, nKeys)
	for i := range p {
		b, err := os.ReadFile(filepath.Join(f.dir, fmt.Sprintf("f%d", i)))
		if err != nil {
			return "", err
		}
		p[i] = string(b)
	}
	return strings.Join(p, ","), nil
}
func (f *Files) Teardown() { os.RemoveAll(f.dir) }

// ---- TCP mailboxes: a sender-side resource and a receiver-side resource over loopback -------------

type tcpLink struct {
	q       *queue
	addr    string
	relaxed bool
	recvRes *resources.Mailboxes
}

type TCPSend struct {
	base
	l *tcpLink
}
type TCPRecv struct {
	base
	l *tcpLink
}

func freeAddr() string {
	l, err := net.Listen("tcp", "127.0.0.1:0")
	if err != nil {
		panic(err)
	}
	defer l.Close()
	return l.Addr().String()
}

// NewTCPPair returns the two ends of one mailbox (index 0): messages committed by the
// sending end become readable at the receiving end.
func NewTCPPair(relaxed bool) (send, recv Instance) {
	l := &tcpLink{q: &queue{}, addr: freeAddr(), relaxed: relaxed}
	return &TCPSend{l: l}, &TCPRecv{l: l}
}

var mboxOpts = []resources.MailboxesOption{
	resources.WithMailboxesReadTimeout(30 * time.Millisecond),
	resources.WithMailboxesWriteTimeout(2 * time.Second),
	resources.WithMailboxesDialTimeout(2 * time.Second),
	resources.WithMailboxesReceiveChanSize(64),
}

func (s *TCPSend) Kind() string {
	if s.l.relaxed {
		return "relaxed-mailbox-send"
	}
	return "tcp-mailbox-send"
}
func (s *TCPSend) CanRead() bool { return false }
func (s *TCPSend) NumIdx() int   { return 1 }
func (s *TCPSend) Configs(name string, wrap func(distsys.ArchetypeResource) distsys.ArchetypeResource) []distsys.MPCalContextConfigFn {
	fn := func(tla.Value) (resources.MailboxKind, string) { return resources.MailboxesRemote, s.l.addr }
	var res distsys.ArchetypeResource
	if s.l.relaxed {
		res = resources.NewRelaxedMailboxes(fn, mboxOpts...)
	} else {
		res = resources.NewTCPMailboxes(fn, mboxOpts...)
	}
	return []distsys.MPCalContextConfigFn{distsys.EnsureArchetypeRefParam(name, wrap(res))}
}
func (s *TCPSend) MPeek(int) (string, bool)                                   { return "", false }
func (s *TCPSend) MWrite(_ int, t string)                                     { s.l.q.sent = append(s.l.q.sent, t) }
func (s *TCPSend) MCommit()                                                   {} // the receiving end owns the queue
func (s *TCPSend) MAbort()                                                    {}
func (s *TCPSend) MObserve() string                                           { return "" }
func (s *TCPSend) Observe(distsys.ArchetypeInterface, string) (string, error) { return "", nil }

func (r *TCPRecv) Kind() string {
	if r.l.relaxed {
		return "relaxed-mailbox-receive"
	}
	return "tcp-mailbox-receive"
}
func (r *TCPRecv) CanWrite() bool  { return false }
func (r *TCPRecv) Consuming() bool { return true }
func (r *TCPRecv) NumIdx() int     { return 1 }
func (r *TCPRecv) Configs(name string, wrap func(distsys.ArchetypeResource) distsys.ArchetypeResource) []distsys.MPCalContextConfigFn {
	fn := func(tla.Value) (resources.MailboxKind, string) { return resources.MailboxesLocal, r.l.addr }
	if r.l.relaxed {
		r.l.recvRes = resources.NewRelaxedMailboxes(fn, mboxOpts...)
	} else {
		r.l.recvRes = resources.NewTCPMailboxes(fn, mboxOpts...)
	}
	// start listening now (as NewMailboxesLength does), so that the first send finds a listener
	if _, err := r.l.recvRes.Index(distsys.ArchetypeInterface{}, tla.MakeNumber(0)); err != nil {
		panic(err)
	}
	return []distsys.MPCalContextConfigFn{distsys.EnsureArchetypeRefParam(name, wrap(r.l.recvRes))}
}
func (r *TCPRecv) MPeek(int) (string, bool)                                   { return r.l.q.peek() }
func (r *TCPRecv) MConsume(int)                                               { r.l.q.taken++ }
func (r *TCPRecv) MWrite(int, string)                                         {}
func (r *TCPRecv) MCommit()                                                   { r.l.q.commit() }
func (r *TCPRecv) MAbort()                                                    { r.l.q.abort() }
func (r *TCPRecv) MObserve() string                                           { return "" }
func (r *TCPRecv) Pending() int                                               { return len(r.l.q.committed) - r.l.q.taken }
func (r *TCPRecv) Observe(distsys.ArchetypeInterface, string) (string, error) { return "", nil }

var _ = sort.Strings
