package prog

import (
	"fmt"

	"pgregory.net/rapid"
)

// GenMix draws 2-6 resource bindings. sockets: allow the loopback-TCP kinds.
func GenMix(t *rapid.T, sockets bool) []Instance {
	n := rapid.IntRange(2, 6).Draw(t, "resources")
	var out []Instance
	for len(out) < n {
		k := rapid.IntRange(0, 12).Draw(t, "kind")
		switch k {
		case 10:
			out = append(out, NewPLog())
		case 11:
			out = append(out, NewCustomIn(rapid.IntRange(0, 4).Draw(t, "prefill")))
		case 12:
			if sockets {
				if rapid.Bool().Draw(t, "crdt") {
					out = append(out, NewCRDTCounter())
				} else {
					out = append(out, NewTwoPCCell())
				}
			}
		case 0:
			out = append(out, NewLocal())
		case 1:
			out = append(out, NewLocalFn())
		case 2:
			out = append(out, NewIncMapOfLocals())
		case 3:
			out = append(out, NewHashMapOfLocals())
		case 4:
			out = append(out, NewInChan(rapid.IntRange(0, 6).Draw(t, "prefill")))
		case 5:
			out = append(out, NewOutChan())
		case 6:
			out = append(out, NewShared(false))
		case 7:
			out = append(out, NewShared(true))
		case 8:
			out = append(out, NewFiles())
		case 9:
			if sockets {
				s, r := NewTCPPair(false)
				out = append(out, s, r)
			}
		}
	}
	return out
}

// GenProgram draws 1-6 labels of 1-8 ops over the bindings and a fault plan. Reads of
// queued inputs are only placed where the fault-free execution has something to read
// (an await on an empty queue would never commit).
func GenProgram(t *rapid.T, insts []Instance, maxFaults int) *Program {
	p := &Program{}
	avail := make([]int, len(insts)) // readable now, per consuming instance
	for i, in := range insts {
		avail[i] = in.Pending()
	}
	recvOf := map[int]int{} // sender index -> receiver index
	for i, in := range insts {
		if s, ok := in.(*TCPSend); ok {
			for j, jn := range insts {
				if r, ok := jn.(*TCPRecv); ok && r.l == s.l {
					recvOf[i] = j
				}
			}
		}
	}
	tok := 0
	nLabels := rapid.IntRange(1, 6).Draw(t, "labels")
	for li := 0; li < nLabels; li++ {
		nOps := rapid.IntRange(1, 8).Draw(t, "ops")
		var ops []Op
		sentNow := make([]int, len(insts))
		for len(ops) < nOps {
			ri := rapid.IntRange(0, len(insts)-1).Draw(t, "res")
			in := insts[ri]
			idx := -1
			if in.NumIdx() > 0 {
				idx = rapid.IntRange(0, in.NumIdx()-1).Draw(t, "idx")
			}
			wantRead := rapid.Bool().Draw(t, "read")
			if wantRead && in.CanRead() {
				if e, isE := in.(EmptyReadOK); in.Consuming() && isE && e.EmptyReadOK() {
					// a read of the empty queue is a defined operation (it yields the resource's default)
					if avail[ri] > 0 {
						avail[ri]--
					}
				} else if in.Consuming() {
					if avail[ri] == 0 {
						// nothing to read in the fault-free execution; pick something else
						if rapid.IntRange(0, 3).Draw(t, "skipread") > 0 {
							continue
						}
						nOps--
						continue
					}
					avail[ri]--
				}
				ops = append(ops, Op{Kind: OpRead, Res: ri, Idx: idx})
			} else if in.CanWrite() {
				tok++
				ops = append(ops, Op{Kind: OpWrite, Res: ri, Idx: idx, Tok: fmt.Sprintf("t%d", tok)})
				if r, ok := recvOf[ri]; ok {
					sentNow[r]++
				}
			} else if in.CanRead() && !in.Consuming() {
				ops = append(ops, Op{Kind: OpRead, Res: ri, Idx: idx})
			} else {
				nOps--
			}
		}
		for r, n := range sentNow {
			avail[r] += n
		}
		p.Labels = append(p.Labels, Label{Ops: ops})
		// fault plan for this label
		var plan []Fault
		nf := 0
		if maxFaults > 0 {
			nf = rapid.IntRange(0, maxFaults).Draw(t, "faults")
		}
		for a := 0; a < nf && len(ops) > 0; a++ {
			f := Fault{Mode: FaultMode(rapid.IntRange(0, 3).Draw(t, "faultmode"))}
			switch f.Mode {
			case FAwait:
				f.Pos = rapid.IntRange(0, len(ops)).Draw(t, "faultpos")
			case FRefuse, FFailAfter:
				f.Pos = rapid.IntRange(0, len(ops)-1).Draw(t, "faultpos")
				if !insts[ops[f.Pos].Res].Wrappable() {
					f.Mode = FAwait
					f.Pos++
				}
			case FPreCommit:
				f.Res = ops[rapid.IntRange(0, len(ops)-1).Draw(t, "faultres")].Res
				if !insts[f.Res].Wrappable() {
					f.Mode = FAwait
					f.Pos = len(ops)
				}
			}
			plan = append(plan, f)
		}
		if len(plan) > 0 {
			// some writes and non-consuming reads happen only in the attempts that fail (see Op.OnlyFaulty)
			lbl := &p.Labels[len(p.Labels)-1]
			for j := range lbl.Ops {
				o := &lbl.Ops[j]
				in := insts[o.Res]
				if _, tcp := in.(*TCPSend); tcp {
					continue // the generator's count of what the receiving end may read assumes every send of a committing attempt
				}
				if (o.Kind == OpWrite || !in.Consuming()) && rapid.IntRange(0, 5).Draw(t, "only-in-failing-attempts") == 0 {
					o.OnlyFaulty = true
				}
			}
		}
		p.Plan = append(p.Plan, plan)
	}
	return p
}
