package prog

import (
	"sync"
	"time"

	"github.com/DistCompiler/pgo/distsys"
	"github.com/DistCompiler/pgo/distsys/resources"
	"github.com/DistCompiler/pgo/distsys/tla"
)

// Links: resources shared by TWO OR MORE programs that run concurrently in their own contexts
// (C18 relays). The reading program cannot predict what it will read (that depends on the
// schedule), so these instances are "foreign-fed": the interpreter records the value read and
// does not compare it with a per-program model. Every value written is a unique token, which
// identifies its writer afterwards. Link ends never count as Consuming (no drain / probe reads:
// whether something is left over depends on the other program).

type linkBase struct{ base }

func (linkBase) Foreign() bool                                              { return true }
func (linkBase) MPeek(int) (string, bool)                                   { return "", false }
func (linkBase) MWrite(int, string)                                         {}
func (linkBase) MCommit()                                                   {}
func (linkBase) MAbort()                                                    {}
func (linkBase) MObserve() string                                           { return "" }
func (linkBase) Observe(distsys.ArchetypeInterface, string) (string, error) { return "", nil }

// ---- Go channel between an OutputChan of one program and an InputChan of another -----------------

type ChanSend struct {
	linkBase
	ch chan tla.Value
}
type ChanRecv struct {
	linkBase
	ch      chan tla.Value
	timeout time.Duration
}

// NewChanLink returns the sending and the receiving end of one Go channel.
func NewChanLink(readTimeout time.Duration) (send, recv Instance) {
	ch := make(chan tla.Value, 256)
	return &ChanSend{ch: ch}, &ChanRecv{ch: ch, timeout: readTimeout}
}

func (c *ChanSend) Kind() string  { return "channel-link-send" }
func (c *ChanSend) CanRead() bool { return false }
func (c *ChanSend) Configs(name string, wrap func(distsys.ArchetypeResource) distsys.ArchetypeResource) []distsys.MPCalContextConfigFn {
	return []distsys.MPCalContextConfigFn{distsys.EnsureArchetypeRefParam(name, wrap(resources.NewOutputChan(c.ch)))}
}

func (c *ChanRecv) Kind() string   { return "channel-link-receive" }
func (c *ChanRecv) CanWrite() bool { return false }
func (c *ChanRecv) Configs(name string, wrap func(distsys.ArchetypeResource) distsys.ArchetypeResource) []distsys.MPCalContextConfigFn {
	return []distsys.MPCalContextConfigFn{distsys.EnsureArchetypeRefParam(name,
		wrap(resources.NewInputChan(c.ch, resources.WithInputChanReadTimeout(c.timeout))))}
}

// ---- TCP mailbox whose two ends belong to different programs ----------------------------------------

type TCPLinkSend struct {
	linkBase
	l *tcpLink
}
type TCPLinkRecv struct {
	linkBase
	l     *tcpLink
	bound bool
}

// NewTCPLink returns the two ends of one loopback TCP mailbox (index 0). The receiving end
// listens from now on (so the sending program finds a listener whenever it starts); it stops
// when the receiving program's context closes its resources, so the receiving program must not
// finish before the sender's last send has committed (the generator makes it read everything).
func NewTCPLink() (send, recv Instance) {
	l := &tcpLink{q: &queue{}, addr: freeAddr()}
	fn := func(tla.Value) (resources.MailboxKind, string) { return resources.MailboxesLocal, l.addr }
	l.recvRes = resources.NewTCPMailboxes(fn, mboxOpts...)
	if _, err := l.recvRes.Index(distsys.ArchetypeInterface{}, tla.MakeNumber(0)); err != nil {
		panic(err)
	}
	return &TCPLinkSend{l: l}, &TCPLinkRecv{l: l}
}

func (s *TCPLinkSend) Kind() string {
	if s.l.relaxed {
		return "relaxed-mailbox-link-send"
	}
	return "tcp-mailbox-link-send"
}
func (s *TCPLinkSend) CanRead() bool { return false }
func (s *TCPLinkSend) NumIdx() int   { return 1 }
func (s *TCPLinkSend) Configs(name string, wrap func(distsys.ArchetypeResource) distsys.ArchetypeResource) []distsys.MPCalContextConfigFn {
	return (&TCPSend{l: s.l}).Configs(name, wrap)
}

func (r *TCPLinkRecv) Kind() string {
	if r.l.relaxed {
		return "relaxed-mailbox-link-receive"
	}
	return "tcp-mailbox-link-receive"
}
func (r *TCPLinkRecv) CanWrite() bool { return false }
func (r *TCPLinkRecv) NumIdx() int    { return 1 }
func (r *TCPLinkRecv) Configs(name string, wrap func(distsys.ArchetypeResource) distsys.ArchetypeResource) []distsys.MPCalContextConfigFn {
	r.bound = true
	return []distsys.MPCalContextConfigFn{distsys.EnsureArchetypeRefParam(name, wrap(r.l.recvRes))}
}
func (r *TCPLinkRecv) Teardown() {
	if !r.bound {
		r.l.recvRes.Close() // never handed to a context: nobody else will close the listener
	}
}

// ---- one shared variable (LocalSharedManager) bound into several programs -------------------------

// SharedLog is the access log of one shared variable: every performed access of every sharer, in
// the order in which the sharers held the variable's lock (an attempt keeps the lock from its
// first access to its commit or abort, and reports each access while holding it).
type SharedLog struct {
	mu      sync.Mutex
	Init    string
	entries []Access
}

func (l *SharedLog) Entries() []Access {
	l.mu.Lock()
	defer l.mu.Unlock()
	return append([]Access(nil), l.entries...)
}

type SharedLinkEnd struct {
	linkBase
	mgr *resources.LocalSharedManager
	log *SharedLog
}

const SharedLinkInit = "sh-init"

// NewSharedLink returns n ends of one shared variable, one per sharing program.
func NewSharedLink(n int, lockTimeout time.Duration) ([]Instance, *SharedLog) {
	mgr := resources.NewLocalSharedManager(tla.MakeString(SharedLinkInit), resources.WithLocalSharedResourceTimeout(lockTimeout))
	log := &SharedLog{Init: SharedLinkInit}
	out := make([]Instance, n)
	for i := range out {
		out[i] = &SharedLinkEnd{mgr: mgr, log: log}
	}
	return out, log
}

func (s *SharedLinkEnd) Kind() string    { return "shared-variable-link" }
func (s *SharedLinkEnd) Log() *SharedLog { return s.log }
func (s *SharedLinkEnd) Configs(name string, wrap func(distsys.ArchetypeResource) distsys.ArchetypeResource) []distsys.MPCalContextConfigFn {
	return []distsys.MPCalContextConfigFn{distsys.EnsureArchetypeRefParam(name, wrap(s.mgr.MakeLocalShared()))}
}
func (s *SharedLinkEnd) Accessed(a Access) int {
	s.log.mu.Lock()
	defer s.log.mu.Unlock()
	s.log.entries = append(s.log.entries, a)
	return len(s.log.entries) - 1
}
