// Package prog builds archetypes at run time (jump tables laid out as
// MPCalGoCodegenPass lays them out), binds generated mixes of real resources to
// them behind a transparent fault-injecting wrapper, runs them with the real
// MPCalContext.Run, and checks every attempt against per-resource transaction
// models. Shared by C01 (atomicity), C18 (traces) and C17 (lifecycle).
package prog

import (
	"errors"
	"fmt"
	"strings"
	"sync"
	"time"

	"github.com/DistCompiler/pgo/distsys"
	"github.com/DistCompiler/pgo/distsys/tla"
	"github.com/DistCompiler/pgo/distsys/trace"

	"verif/harness/hx"
)

type OpKind int

const (
	OpRead OpKind = iota
	OpWrite
)

type Op struct {
	Kind OpKind
	Res  int
	Idx  int    // index key number, -1 for scalar access
	Tok  string // value written
}

func (o Op) String() string {
	ix := ""
	if o.Idx >= 0 {
		ix = fmt.Sprintf("[%d]", o.Idx)
	}
	if o.Kind == OpRead {
		return fmt.Sprintf("read r%d%s", o.Res, ix)
	}
	return fmt.Sprintf("r%d%s := %q", o.Res, ix, o.Tok)
}

type Label struct{ Ops []Op }

type FaultMode int

const (
	FAwait     FaultMode = iota // the body fails (false await) before op Pos (Pos may equal len(ops))
	FRefuse                     // the resource refuses op Pos without performing it
	FFailAfter                  // the resource performs op Pos, then reports failure
	FPreCommit                  // resource Res's PreCommit fails after the inner pre-commit succeeded
)

func (m FaultMode) String() string {
	return [...]string{"await-false", "refused", "failed-after-performing", "pre-commit-failed"}[m]
}

type Fault struct {
	Mode FaultMode
	Pos  int
	Res  int
}

// Program: labels run in order l0, l1, ...; Plan[label][retry] is the fault of that attempt.
type Program struct {
	Labels []Label
	Plan   [][]Fault
}

func (p *Program) String(insts []Instance) string {
	var b strings.Builder
	for i, in := range insts {
		fmt.Fprintf(&b, "r%d: %s\n", i, in.Kind())
	}
	for li, l := range p.Labels {
		fmt.Fprintf(&b, "l%d:", li)
		for _, o := range l.Ops {
			fmt.Fprintf(&b, " %s;", o)
		}
		for a, f := range p.Plan[li] {
			if f.Mode == FPreCommit {
				fmt.Fprintf(&b, "  [attempt %d: %s of r%d]", a, f.Mode, f.Res)
			} else {
				fmt.Fprintf(&b, "  [attempt %d: %s at op %d]", a, f.Mode, f.Pos)
			}
		}
		b.WriteString("\n")
	}
	return b.String()
}

// Instance is one bound resource together with its transaction model.
type Instance interface {
	Kind() string
	NumIdx() int // 0 = scalar
	CanRead() bool
	CanWrite() bool
	Consuming() bool // reads consume queued inputs
	Wrappable() bool // bound through EnsureArchetypeRefParam (faults can be injected)
	// Configs binds the resource under archetype-parameter name; wrap must be applied to ref params.
	Configs(name string, wrap func(distsys.ArchetypeResource) distsys.ArchetypeResource) []distsys.MPCalContextConfigFn
	PreAmble(iface distsys.ArchetypeInterface, fullName string)
	IdxVal(i int) tla.Value
	// model
	MPeek(idx int) (tok string, ok bool) // what a read would return now; ok=false: nothing to read, the section must abort
	MConsume(idx int)                    // the read was performed (consuming resources advance)
	MWrite(idx int, tok string)
	MCommit()
	MAbort()
	MObserve() string
	Observe(iface distsys.ArchetypeInterface, fullName string) (string, error)
	Pending() int // (consuming) committed items not yet consumed, per the model
	Teardown()
}

const ArchName = "Arch"

func paramName(i int) string { return fmt.Sprintf("r%d", i) }

// Event is one attempt as the harness saw it.
type Event struct {
	Label    int
	Attempt  int
	Aborted  bool
	Reads    []string // rN[idx]=tok in program order
	Writes   []string
	Touched  map[int]bool // resources with at least one performed op
	Kinds    map[string]bool
	Trace    trace.Event
	Injected *Fault
}

type Result struct {
	Failure   string
	History   string
	Events    []Event
	RunErr    error
	NonTriv   bool
	Unplanned int // aborts not caused by the plan (time-outs)
}

type runner struct {
	p      *Program
	insts  []Instance
	labels []string
	// per-attempt state
	cur                Event
	curFault           *Fault
	curOp              int
	opRes              int
	opPerform          bool
	attempt            []int
	mu                 sync.Mutex
	failure            string
	hist               strings.Builder
	events             []Event
	iface              distsys.ArchetypeInterface
	nontriv            bool
	unplanned          int
	abortedWithEffects map[int]bool // label -> an attempt aborted after effects on >=2 kinds
	probeDone          map[int]bool
	async              map[int]bool // resources whose wrapper answers PreCommit/Commit/Abort through channels
	fired              bool         // the planned fault of this attempt was actually delivered
}

var errStop = errors.New("harness: stopping after a detected violation")

func (r *runner) fail(format string, a ...any) {
	if r.failure == "" {
		r.failure = fmt.Sprintf(format, a...)
	}
}

// faulty is the transparent wrapper placed around every ref-bound resource.
type faulty struct {
	inner distsys.ArchetypeResource
	id    int
	r     *runner
}

func (f *faulty) inject() (refuse, failAfter bool) {
	ft := f.r.curFault
	if ft == nil || f.r.opRes != f.id || ft.Pos != f.r.curOp {
		return false, false
	}
	return ft.Mode == FRefuse, ft.Mode == FFailAfter
}

func (f *faulty) ReadValue(iface distsys.ArchetypeInterface) (tla.Value, error) {
	refuse, failAfter := f.inject()
	if refuse {
		f.r.fired = true
		return tla.Value{}, distsys.ErrCriticalSectionAborted
	}
	v, err := f.inner.ReadValue(iface)
	if err == nil {
		f.r.opPerform = true
		if failAfter {
			f.r.fired = true
			return tla.Value{}, distsys.ErrCriticalSectionAborted
		}
	}
	return v, err
}

func (f *faulty) WriteValue(iface distsys.ArchetypeInterface, v tla.Value) error {
	refuse, failAfter := f.inject()
	if refuse {
		f.r.fired = true
		return distsys.ErrCriticalSectionAborted
	}
	err := f.inner.WriteValue(iface, v)
	if err == nil {
		f.r.opPerform = true
		if failAfter {
			f.r.fired = true
			return distsys.ErrCriticalSectionAborted
		}
	}
	return err
}

func (f *faulty) Index(iface distsys.ArchetypeInterface, idx tla.Value) (distsys.ArchetypeResource, error) {
	sub, err := f.inner.Index(iface, idx)
	if err != nil {
		return nil, err
	}
	return &faulty{inner: sub, id: f.id, r: f.r}, nil
}

func (f *faulty) PreCommit(iface distsys.ArchetypeInterface) chan error {
	ch := f.inner.PreCommit(iface)
	ft := f.r.curFault
	if ft == nil || ft.Mode != FPreCommit || ft.Res != f.id {
		if ch == nil && f.r.async[f.id] {
			// a resource may answer through a channel even when it has nothing to wait for
			ch = make(chan error, 1)
			ch <- nil
		}
		return ch
	}
	out := make(chan error, 1)
	go func() {
		var err error
		if ch != nil {
			err = <-ch
		}
		if err == nil {
			err = distsys.ErrCriticalSectionAborted
		}
		f.r.fired = true
		out <- err
	}()
	return out
}

func (f *faulty) Commit(iface distsys.ArchetypeInterface) chan struct{} {
	return f.asyncDone(f.inner.Commit(iface))
}
func (f *faulty) Abort(iface distsys.ArchetypeInterface) chan struct{} {
	return f.asyncDone(f.inner.Abort(iface))
}
func (f *faulty) asyncDone(ch chan struct{}) chan struct{} {
	if ch == nil && f.r.async[f.id] {
		ch = make(chan struct{}, 1)
		ch <- struct{}{}
	}
	return ch
}
func (f *faulty) Close() error { return f.inner.Close() }

type recorder struct{ r *runner }

func (rec recorder) RecordEvent(ev trace.Event) {
	ev.Elements = append([]trace.Element(nil), ev.Elements...) // the slice is reused by the runtime
	rec.r.endAttempt(ev)
}

// endAttempt runs after every resource has been committed or aborted.
func (r *runner) endAttempt(ev trace.Event) {
	e := r.cur
	e.Aborted = ev.IsAbort
	e.Trace = ev
	e.Injected = r.curFault
	li := e.Label
	if li >= len(r.p.Labels) {
		// epilogue labels (drain / probe) keep their own books
		for _, in := range r.insts {
			if ev.IsAbort {
				in.MAbort()
			} else {
				in.MCommit()
			}
		}
		r.events = append(r.events, e)
		return
	}
	if r.fired && !ev.IsAbort {
		r.fail("l%d attempt %d was COMMITTED although it failed (%s): reads %v writes %v", li, e.Attempt, r.curFault.Mode, e.Reads, e.Writes)
	}
	fmt.Fprintf(&r.hist, "l%d attempt %d: reads %v writes %v -> %s", li, e.Attempt, e.Reads, e.Writes, map[bool]string{true: "ABORT", false: "COMMIT"}[ev.IsAbort])
	if r.curFault != nil {
		fmt.Fprintf(&r.hist, " (injected: %s)", r.curFault.Mode)
	} else if ev.IsAbort {
		r.unplanned++
		fmt.Fprintf(&r.hist, " (not injected: a resource timed out)")
	}
	r.hist.WriteString("\n")
	for _, in := range r.insts {
		if ev.IsAbort {
			in.MAbort()
		} else {
			in.MCommit()
		}
	}
	if ev.IsAbort {
		if len(e.Kinds) >= 2 {
			r.abortedWithEffects[li] = true
		}
	} else if r.abortedWithEffects[li] {
		r.nontriv = true
	}
	// every observable must now equal the model: unchanged after an abort, updated after a commit
	for i, in := range r.insts {
		want := in.MObserve()
		got, err := r.observe(i, in)
		if err != nil {
			r.fail("after %s of l%d attempt %d: cannot observe r%d (%s): %v", verdict(ev.IsAbort), li, e.Attempt, i, in.Kind(), err)
			return
		}
		if got != want {
			r.fail("after %s of l%d attempt %d: r%d (%s) is observed as %s, expected %s", verdict(ev.IsAbort), li, e.Attempt, i, in.Kind(), got, want)
			return
		}
	}
	r.events = append(r.events, e)
}

func (r *runner) observe(i int, in Instance) (string, error) {
	type res struct {
		s   string
		err error
	}
	ch := make(chan res, 1)
	go func() {
		var out res
		if p := hx.Catch(func() { out.s, out.err = in.Observe(r.iface, ArchName+"."+paramName(i)) }); p != nil {
			out.err = p
		}
		ch <- out
	}()
	select {
	case o := <-ch:
		return o.s, o.err
	case <-time.After(10 * time.Second):
		return "", fmt.Errorf("observation blocked for 10s (a lock or channel was not released)")
	}
}

func verdict(abort bool) string {
	if abort {
		return "ABORT"
	}
	return "COMMIT"
}

type counter struct {
	inner distsys.FairnessCounter
}

func (c counter) BeginCriticalSection(pc string) { c.inner.BeginCriticalSection(pc) }
func (c counter) NextFairnessCounter(id string, n uint) uint {
	return c.inner.NextFairnessCounter(id, n)
}

// doOp performs one op through the real ArchetypeInterface and checks the value read.
func (r *runner) doOp(iface distsys.ArchetypeInterface, j int, op Op) error {
	in := r.insts[op.Res]
	var handle distsys.ArchetypeResourceHandle
	var err error
	if in.Wrappable() {
		handle, err = iface.RequireArchetypeResourceRef(ArchName + "." + paramName(op.Res))
		if err != nil {
			return err
		}
	} else {
		handle = iface.RequireArchetypeResource(ArchName + "." + paramName(op.Res))
	}
	var indices []tla.Value
	if op.Idx >= 0 {
		indices = []tla.Value{in.IdxVal(op.Idx)}
	}
	r.curOp, r.opRes, r.opPerform = j, op.Res, false
	name := fmt.Sprintf("r%d", op.Res)
	if op.Idx >= 0 {
		name += fmt.Sprintf("[%d]", op.Idx)
	}
	if op.Kind == OpRead {
		want, ok := in.MPeek(op.Idx)
		v, err := iface.Read(handle, indices)
		if r.opPerform || err == nil {
			// performed (possibly reported as failed afterwards: the abort must then restore it)
			r.cur.Touched[op.Res] = true
			if in.Consuming() {
				r.cur.Kinds[in.Kind()] = true
			}
			if ok {
				in.MConsume(op.Idx)
			}
		}
		if err != nil {
			return err
		}
		if !ok {
			r.fail("l%d attempt %d op %d: %s returned %v although nothing committed is available to read", r.cur.Label, r.cur.Attempt, j, name, v)
			return errStop
		}
		got := "<not a string: " + v.String() + ">"
		if v.IsString() {
			got = v.AsString()
		}
		r.cur.Reads = append(r.cur.Reads, name+"="+got)
		if got != want {
			r.fail("l%d attempt %d op %d: %s read %q, the last committed state (plus this attempt's own writes) holds %q", r.cur.Label, r.cur.Attempt, j, name, got, want)
			return errStop
		}
		return nil
	}
	err = iface.Write(handle, indices, tla.MakeString(op.Tok))
	if r.opPerform || err == nil {
		r.cur.Touched[op.Res] = true
		r.cur.Kinds[in.Kind()] = true
		in.MWrite(op.Idx, op.Tok)
	}
	if err == nil {
		r.cur.Writes = append(r.cur.Writes, name+":="+op.Tok)
	}
	return err
}

// Options for Execute.
type Options struct {
	Self       tla.Value
	ExtraCfg   []distsys.MPCalContextConfigFn
	Async      map[int]bool // resource index -> answer PreCommit/Commit/Abort through (already satisfied) channels
	OnEvent    func(Event)  // called after the harness's own checks for each attempt of a program label
	RunTimeout time.Duration
}

// Execute runs the program on the real Run loop and returns what was seen.
func Execute(p *Program, insts []Instance, opt Options) Result {
	r := &runner{p: p, insts: insts, attempt: make([]int, len(p.Labels)+2), abortedWithEffects: map[int]bool{}, probeDone: map[int]bool{}, async: opt.Async}
	nl := len(p.Labels)
	label := func(i int) string {
		switch {
		case i < nl:
			return fmt.Sprintf("%s.l%d", ArchName, i)
		case i == nl:
			return ArchName + ".drain"
		case i == nl+1:
			return ArchName + ".probe"
		}
		return ArchName + ".Done"
	}
	begin := func(li int, iface distsys.ArchetypeInterface) {
		r.iface = iface
		r.cur = Event{Label: li, Attempt: r.attempt[li], Touched: map[int]bool{}, Kinds: map[string]bool{}}
		r.attempt[li]++
		r.curFault = nil
		r.fired = false
		r.curOp, r.opRes = -1, -1
	}
	var sections []distsys.MPCalCriticalSection
	for li := range p.Labels {
		li := li
		sections = append(sections, distsys.MPCalCriticalSection{Name: label(li), Body: func(iface distsys.ArchetypeInterface) error {
			if r.failure != "" {
				return errStop
			}
			begin(li, iface)
			if a := r.cur.Attempt; a < len(p.Plan[li]) {
				f := p.Plan[li][a]
				r.curFault = &f
			}
			for j, op := range p.Labels[li].Ops {
				if f := r.curFault; f != nil && f.Mode == FAwait && f.Pos == j {
					r.fired = true
					return distsys.ErrCriticalSectionAborted
				}
				if err := r.doOp(iface, j, op); err != nil {
					return err
				}
			}
			if f := r.curFault; f != nil && f.Mode == FAwait && f.Pos >= len(p.Labels[li].Ops) {
				r.fired = true
				return distsys.ErrCriticalSectionAborted
			}
			if f := r.curFault; f != nil && f.Mode != FPreCommit && f.Mode != FAwait {
				// the planned op fault could not fire (op on an unwrapped resource): nothing injected
				r.curFault = nil
			}
			if f := r.curFault; f != nil && f.Mode == FPreCommit && !r.cur.Touched[f.Res] {
				r.curFault = nil
			}
			return iface.Goto(label(li + 1))
		}})
	}
	// drain: read every committed-but-unconsumed input, in order
	sections = append(sections, distsys.MPCalCriticalSection{Name: label(nl), Body: func(iface distsys.ArchetypeInterface) error {
		if r.failure != "" {
			return errStop
		}
		begin(nl, iface)
		j := 0
		for i, in := range insts {
			if !in.Consuming() {
				continue
			}
			for k := in.Pending(); k > 0; k-- {
				if err := r.doOp(iface, j, Op{Kind: OpRead, Res: i, Idx: drainIdx(in)}); err != nil {
					return err
				}
				j++
			}
		}
		return iface.Goto(label(nl + 1))
	}})
	// probe: one more read of each input must find nothing (no invented, duplicated or leaked message)
	sections = append(sections, distsys.MPCalCriticalSection{Name: label(nl + 1), Body: func(iface distsys.ArchetypeInterface) error {
		if r.failure != "" {
			return errStop
		}
		begin(nl+1, iface)
		for i, in := range insts {
			if !in.Consuming() || r.probeDone[i] {
				continue
			}
			r.probeDone[i] = true
			if err := r.doOp(iface, 0, Op{Kind: OpRead, Res: i, Idx: drainIdx(in)}); err != nil {
				return err // expected: nothing to read
			}
		}
		return iface.Goto(label(nl + 2))
	}})
	sections = append(sections, distsys.MPCalCriticalSection{Name: label(nl + 2), Body: func(distsys.ArchetypeInterface) error { return distsys.ErrDone }})

	arch := distsys.MPCalArchetype{
		Name: ArchName, Label: label(0),
		JumpTable: distsys.MakeMPCalJumpTable(sections...),
		ProcTable: distsys.MakeMPCalProcTable(),
		PreAmble: func(iface distsys.ArchetypeInterface) {
			for i, in := range insts {
				in.PreAmble(iface, ArchName+"."+paramName(i))
			}
		},
	}
	for i, in := range insts {
		if in.Wrappable() {
			arch.RequiredRefParams = append(arch.RequiredRefParams, ArchName+"."+paramName(i))
		}
	}
	cfg := []distsys.MPCalContextConfigFn{distsys.SetTraceRecorder(recorder{r})}
	for i, in := range insts {
		i := i
		cfg = append(cfg, in.Configs(paramName(i), func(res distsys.ArchetypeResource) distsys.ArchetypeResource {
			return &faulty{inner: res, id: i, r: r}
		})...)
	}
	cfg = append(cfg, opt.ExtraCfg...)
	self := opt.Self
	if !self.IsNumber() && !self.IsString() {
		self = tla.MakeNumber(1)
	}
	ctx := distsys.NewMPCalContext(self, arch, cfg...)
	done := make(chan error, 1)
	go func() { done <- hx.SafeRun(ctx) }()
	timeout := opt.RunTimeout
	if timeout == 0 {
		timeout = 60 * time.Second
	}
	var res Result
	select {
	case err := <-done:
		res.RunErr = err
	case <-time.After(timeout):
		r.fail("INCONCLUSIVE: the run did not finish within %v", timeout)
	}
	if res.RunErr != nil && !errors.Is(res.RunErr, errStop) && r.failure == "" {
		r.fail("Run returned %v", res.RunErr)
	}
	res.Failure = r.failure
	res.History = r.hist.String()
	res.Events = r.events
	res.NonTriv = r.nontriv
	res.Unplanned = r.unplanned
	return res
}

func drainIdx(in Instance) int {
	if in.NumIdx() > 0 {
		return 0
	}
	return -1
}
