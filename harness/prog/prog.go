// Package prog builds archetypes at run time (jump tables laid out as
// MPCalGoCodegenPass lays them out), binds generated mixes of real resources to
// them behind a transparent fault-injecting wrapper, runs them with the real
// MPCalContext.Run, and checks every attempt against per-resource transaction
// models. Shared by C01 (atomicity), C18 (traces) and C17 (lifecycle).
package prog

import (
	"errors"
	"fmt"
	"strings"
	"sync"
	"time"

	"github.com/DistCompiler/pgo/distsys"
	"github.com/DistCompiler/pgo/distsys/tla"
	"github.com/DistCompiler/pgo/distsys/trace"

	"verif/harness/hx"
)

type OpKind int

const (
	OpRead OpKind = iota
	OpWrite
)

type Op struct {
	Kind OpKind
	Res  int
	Idx  int    // index key number, -1 for scalar access
	Tok  string // value written
	// OnlyFaulty: performed only in attempts for which the plan holds a fault (which abort), not in the attempt that
	// commits: the retry of a section need not repeat what the failed attempt did (another message arrived, another
	// branch was taken), so residue of an aborted attempt cannot hide behind an identical re-execution.
	OnlyFaulty bool
	Fwd        bool // (writes) append "~" + the value last read in this attempt: the value is relayed, tagged
	Raw        bool // (with Fwd) the relayed value keeps the vector clock it arrived with (as seen below iface.Read)
}

func (o Op) String() string {
	if o.OnlyFaulty {
		o.OnlyFaulty = false
		return "(in failing attempts only: " + o.String() + ")"
	}
	ix := ""
	if o.Idx >= 0 {
		ix = fmt.Sprintf("[%d]", o.Idx)
	}
	if o.Kind == OpRead {
		return fmt.Sprintf("read r%d%s", o.Res, ix)
	}
	if o.Fwd && o.Raw {
		return fmt.Sprintf("r%d%s := %q~<last value read, with the clock it carried>", o.Res, ix, o.Tok)
	}
	if o.Fwd {
		return fmt.Sprintf("r%d%s := %q~<last value read>", o.Res, ix, o.Tok)
	}
	return fmt.Sprintf("r%d%s := %q", o.Res, ix, o.Tok)
}

type Label struct{ Ops []Op }

type FaultMode int

const (
	FAwait     FaultMode = iota // the body fails (false await) before op Pos (Pos may equal len(ops))
	FRefuse                     // the resource refuses op Pos without performing it
	FFailAfter                  // the resource performs op Pos, then reports failure
	FPreCommit                  // resource Res's PreCommit fails after the inner pre-commit succeeded
)

func (m FaultMode) String() string {
	return [...]string{"await-false", "refused", "failed-after-performing", "pre-commit-failed"}[m]
}

type Fault struct {
	Mode FaultMode
	Pos  int
	Res  int
}

// Program: labels run in order l0, l1, ...; Plan[label][retry] is the fault of that attempt.
type Program struct {
	Labels []Label
	Plan   [][]Fault
}

func (p *Program) String(insts []Instance) string {
	var b strings.Builder
	for i, in := range insts {
		fmt.Fprintf(&b, "r%d: %s\n", i, in.Kind())
	}
	for li, l := range p.Labels {
		fmt.Fprintf(&b, "l%d:", li)
		for _, o := range l.Ops {
			fmt.Fprintf(&b, " %s;", o)
		}
		for a, f := range p.Plan[li] {
			if f.Mode == FPreCommit {
				fmt.Fprintf(&b, "  [attempt %d: %s of r%d]", a, f.Mode, f.Res)
			} else {
				fmt.Fprintf(&b, "  [attempt %d: %s at op %d]", a, f.Mode, f.Pos)
			}
		}
		b.WriteString("\n")
	}
	return b.String()
}

// Instance is one bound resource together with its transaction model.
type Instance interface {
	Kind() string
	NumIdx() int // 0 = scalar
	CanRead() bool
	CanWrite() bool
	Consuming() bool // reads consume queued inputs
	Wrappable() bool // bound through EnsureArchetypeRefParam (faults can be injected)
	// Configs binds the resource under archetype-parameter name; wrap must be applied to ref params.
	Configs(name string, wrap func(distsys.ArchetypeResource) distsys.ArchetypeResource) []distsys.MPCalContextConfigFn
	PreAmble(iface distsys.ArchetypeInterface, fullName string)
	IdxVal(i int) tla.Value
	// model
	MPeek(idx int) (tok string, ok bool) // what a read would return now; ok=false: nothing to read, the section must abort
	MConsume(idx int)                    // the read was performed (consuming resources advance)
	MWrite(idx int, tok string)
	MCommit()
	MAbort()
	MObserve() string
	Observe(iface distsys.ArchetypeInterface, fullName string) (string, error)
	Pending() int // (consuming) committed items not yet consumed, per the model
	Teardown()
}

const ArchName = "Arch"

func paramName(i int) string { return fmt.Sprintf("r%d", i) }

// OpRec is one iface.Read / iface.Write issued by the interpreter, as the interpreter saw it.
type OpRec struct {
	Kind      OpKind
	Res, Idx  int
	Tok       string // value returned by the read / value written (valid when OK)
	OK        bool   // iface.Read / iface.Write returned no error
	Performed bool   // the resource performed it (it may have been reported as failed afterwards)
	Foreign   bool   // the instance is fed by another program: the value read is not predicted by this program's model
	HasPrev   bool   // (writes to readable, non-consuming, non-foreign instances) Prev is the model's value just before the write
	Prev      string
	LinkPos   int // position of this access in the link's access log (Linked instances), else -1
}

// Outcome of an attempt as told by the control flow alone (never by the trace): an attempt whose
// successor runs the same label again aborted, one whose successor runs the next label committed.
type Outcome int

const (
	OutcomeUnknown Outcome = iota // the run ended before the next attempt began
	OutcomeCommitted
	OutcomeAborted
)

// Event is one attempt as the harness saw it.
type Event struct {
	Label     int
	LabelName string // value of .pc during the attempt
	Attempt   int    // ordinal among the attempts of this label (0-based)
	Seq       int    // ordinal among all attempts of this archetype (1-based)
	Aborted   bool   // as reported by the trace event (when Traced), else as told by the control flow
	Outcome   Outcome
	Reads     []string // rN[idx]=tok in program order
	Writes    []string
	Ops       []OpRec
	PCWrite   string       // target of the attempt's Goto if it was reached and succeeded
	Touched   map[int]bool // resources with at least one performed op
	Kinds     map[string]bool
	Traced    bool // Trace holds the runtime's event for this attempt
	Trace     trace.Event
	Injected  *Fault
	Fired     bool // the planned fault was actually delivered
}

type Result struct {
	Failure   string
	History   string
	Events    []Event // every attempt of every label (epilogue included, Done excluded), in order
	RunErr    error
	NonTriv   bool
	Unplanned int // aborts not caused by the plan (time-outs)
	// SpuriousDefaults: reads of a default-on-time-out input that answered the default although something was queued
	SpuriousDefaults int
	// Anomalies: attempts for which the recorder received no event, events that arrived without a
	// new attempt having begun. Not failures for C01; C18 judges them.
	Anomalies []string
	Finished  bool // the archetype reached Done
}

type runner struct {
	spuriousDefaults int
	p                *Program
	insts            []Instance
	labels           []string
	name             string // archetype name
	progID           int
	// attempt bookkeeping that does not depend on the trace
	seq       int
	open      bool // an attempt has begun and has not been settled
	evSeen    bool // ... and the recorder has received its event
	noRec     bool
	lazy      bool // settle attempts by the control flow even when a recorder is installed
	ended     bool // endAttempt has run for the current attempt
	sticky    bool
	planPos   []int
	lastRead  string
	lastClock *tla.VClock // clock carried by the value last read through a wrapped resource in this attempt
	anomalies []string
	finished  bool
	onEvent   func(Event)
	// per-attempt state
	cur                Event
	curFault           *Fault
	curOp              int
	opRes              int
	opPerform          bool
	attempt            []int
	mu                 sync.Mutex
	failure            string
	hist               strings.Builder
	events             []Event
	iface              distsys.ArchetypeInterface
	nontriv            bool
	unplanned          int
	abortedWithEffects map[int]bool // label -> an attempt aborted after effects on >=2 kinds
	probeDone          map[int]bool
	async              map[int]bool // resources whose wrapper answers PreCommit/Commit/Abort through channels
	fired              bool         // the planned fault of this attempt was actually delivered
}

var errStop = errors.New("harness: stopping after a detected violation")

func (r *runner) fail(format string, a ...any) {
	if r.failure == "" {
		r.failure = fmt.Sprintf(format, a...)
	}
}

// faulty is the transparent wrapper placed around every ref-bound resource.
type faulty struct {
	inner distsys.ArchetypeResource
	id    int
	r     *runner
}

func (f *faulty) inject() (refuse, failAfter bool) {
	ft := f.r.curFault
	if ft == nil || f.r.opRes != f.id || ft.Pos != f.r.curOp {
		return false, false
	}
	return ft.Mode == FRefuse, ft.Mode == FFailAfter
}

func (f *faulty) ReadValue(iface distsys.ArchetypeInterface) (tla.Value, error) {
	refuse, failAfter := f.inject()
	if refuse {
		f.r.fired = true
		return tla.Value{}, distsys.ErrCriticalSectionAborted
	}
	v, err := f.inner.ReadValue(iface)
	if err == nil {
		f.r.opPerform = true
		f.r.lastClock = nil
		if c := v.GetVClock(); c != nil {
			cc := *c
			f.r.lastClock = &cc
		}
		if failAfter {
			f.r.fired = true
			return tla.Value{}, distsys.ErrCriticalSectionAborted
		}
	}
	return v, err
}

func (f *faulty) WriteValue(iface distsys.ArchetypeInterface, v tla.Value) error {
	refuse, failAfter := f.inject()
	if refuse {
		f.r.fired = true
		return distsys.ErrCriticalSectionAborted
	}
	err := f.inner.WriteValue(iface, v)
	if err == nil {
		f.r.opPerform = true
		if failAfter {
			f.r.fired = true
			return distsys.ErrCriticalSectionAborted
		}
	}
	return err
}

func (f *faulty) Index(iface distsys.ArchetypeInterface, idx tla.Value) (distsys.ArchetypeResource, error) {
	sub, err := f.inner.Index(iface, idx)
	if err != nil {
		return nil, err
	}
	return &faulty{inner: sub, id: f.id, r: f.r}, nil
}

func (f *faulty) PreCommit(iface distsys.ArchetypeInterface) chan error {
	ch := f.inner.PreCommit(iface)
	ft := f.r.curFault
	if ft == nil || ft.Mode != FPreCommit || ft.Res != f.id {
		if ch == nil && f.r.async[f.id] {
			// a resource may answer through a channel even when it has nothing to wait for
			ch = make(chan error, 1)
			ch <- nil
		}
		return ch
	}
	out := make(chan error, 1)
	go func() {
		var err error
		if ch != nil {
			err = <-ch
		}
		if err == nil {
			err = distsys.ErrCriticalSectionAborted
		}
		f.r.fired = true
		out <- err
	}()
	return out
}

func (f *faulty) Commit(iface distsys.ArchetypeInterface) chan struct{} {
	return f.asyncDone(f.inner.Commit(iface))
}
func (f *faulty) Abort(iface distsys.ArchetypeInterface) chan struct{} {
	return f.asyncDone(f.inner.Abort(iface))
}
func (f *faulty) asyncDone(ch chan struct{}) chan struct{} {
	if ch == nil && f.r.async[f.id] {
		ch = make(chan struct{}, 1)
		ch <- struct{}{}
	}
	return ch
}
func (f *faulty) Close() error { return f.inner.Close() }

type recorder struct{ r *runner }

func (rec recorder) RecordEvent(ev trace.Event) {
	ev.Elements = append([]trace.Element(nil), ev.Elements...) // the slice is reused by the runtime
	r := rec.r
	if !r.open || r.evSeen {
		r.anomalies = append(r.anomalies, fmt.Sprintf("a trace event (isAbort=%v, %d elements) arrived although no new attempt had begun since the previous event (after attempt #%d)", ev.IsAbort, len(ev.Elements), r.seq))
		return
	}
	r.evSeen = true
	if r.lazy {
		// the trace is the thing under test: keep the event, let the control flow say how the attempt ended
		r.cur.Trace, r.cur.Traced = ev, true
		return
	}
	r.ended = true
	r.endAttempt(ev.IsAbort, &ev)
}

// settlePrev is called when the next attempt begins (next = its label) or Done is reached: the
// control flow now tells how the previous attempt ended, whatever the trace said.
func (r *runner) settlePrev(next int) {
	if !r.open {
		return
	}
	out := OutcomeCommitted
	if next == r.cur.Label {
		out = OutcomeAborted
	}
	if !r.evSeen && !r.noRec {
		r.anomalies = append(r.anomalies, fmt.Sprintf("attempt #%d (%s attempt %d, %s by the control flow) produced no trace event", r.cur.Seq, r.cur.LabelName, r.cur.Attempt, verdict(out == OutcomeAborted)))
	}
	if !r.ended {
		var ev *trace.Event
		if r.cur.Traced {
			t := r.cur.Trace
			ev = &t
		}
		r.endAttempt(out == OutcomeAborted, ev)
	}
	r.events[len(r.events)-1].Outcome = out
	r.open = false
}

// endAttempt runs after every resource has been committed or aborted.
func (r *runner) endAttempt(isAbort bool, ev *trace.Event) {
	e := r.cur
	e.Aborted = isAbort
	if ev != nil {
		e.Trace, e.Traced = *ev, true
	}
	e.Injected = r.curFault
	e.Fired = r.fired
	li := e.Label
	if r.sticky && r.fired && li < len(r.planPos) {
		r.planPos[li]++
	}
	r.events = append(r.events, e)
	if r.onEvent != nil {
		defer r.onEvent(e)
	}
	if li >= len(r.p.Labels) {
		// epilogue labels (drain / probe) keep their own books
		for _, in := range r.insts {
			if isAbort {
				in.MAbort()
			} else {
				in.MCommit()
			}
		}
		return
	}
	if r.fired && !isAbort {
		r.fail("l%d attempt %d was COMMITTED although it failed (%s): reads %v writes %v", li, e.Attempt, r.curFault.Mode, e.Reads, e.Writes)
	}
	fmt.Fprintf(&r.hist, "l%d attempt %d: reads %v writes %v -> %s", li, e.Attempt, e.Reads, e.Writes, map[bool]string{true: "ABORT", false: "COMMIT"}[isAbort])
	if r.curFault != nil {
		fmt.Fprintf(&r.hist, " (injected: %s)", r.curFault.Mode)
	} else if isAbort {
		r.unplanned++
		fmt.Fprintf(&r.hist, " (not injected: a resource timed out)")
	}
	r.hist.WriteString("\n")
	for _, in := range r.insts {
		if isAbort {
			in.MAbort()
		} else {
			in.MCommit()
		}
	}
	if isAbort {
		if len(e.Kinds) >= 2 {
			r.abortedWithEffects[li] = true
		}
	} else if r.abortedWithEffects[li] {
		r.nontriv = true
	}
	// every observable must now equal the model: unchanged after an abort, updated after a commit
	for i, in := range r.insts {
		want := in.MObserve()
		got, err := r.observe(i, in)
		if err != nil {
			r.fail("after %s of l%d attempt %d: cannot observe r%d (%s): %v", verdict(isAbort), li, e.Attempt, i, in.Kind(), err)
			return
		}
		if got != want {
			r.fail("after %s of l%d attempt %d: r%d (%s) is observed as %s, expected %s", verdict(isAbort), li, e.Attempt, i, in.Kind(), got, want)
			return
		}
	}
}

func (r *runner) observe(i int, in Instance) (string, error) {
	type res struct {
		s   string
		err error
	}
	ch := make(chan res, 1)
	go func() {
		var out res
		if p := hx.Catch(func() { out.s, out.err = in.Observe(r.iface, r.name+"."+paramName(i)) }); p != nil {
			out.err = p
		}
		ch <- out
	}()
	select {
	case o := <-ch:
		return o.s, o.err
	case <-time.After(10 * time.Second):
		return "", fmt.Errorf("observation blocked for 10s (a lock or channel was not released)")
	}
}

func verdict(abort bool) string {
	if abort {
		return "ABORT"
	}
	return "COMMIT"
}

type counter struct {
	inner distsys.FairnessCounter
}

func (c counter) BeginCriticalSection(pc string) { c.inner.BeginCriticalSection(pc) }
func (c counter) NextFairnessCounter(id string, n uint) uint {
	return c.inner.NextFairnessCounter(id, n)
}

// Linked is implemented by instances that are one end of something shared with another program
// (a shared variable, a channel). The interpreter reports every performed access while the
// attempt still holds whatever lock the resource takes; the return value is the position of the
// access in the link's own log.
type Linked interface {
	Accessed(a Access) int
}

type Access struct {
	ProgID int
	Seq    int // attempt ordinal (Event.Seq) of the accessing program
	Write  bool
	Tok    string // value read / written ("" for a read that was performed and then reported as failed)
	OK     bool   // the op was reported as successful to the critical section
}

// foreignFed instances are read by one program and written by another: the reading program's
// model cannot predict the values, and does not try to.
type foreignFed interface{ Foreign() bool }

func isForeign(in Instance) bool {
	f, ok := in.(foreignFed)
	return ok && f.Foreign()
}

// doOp performs one op through the real ArchetypeInterface and checks the value read.
func (r *runner) doOp(iface distsys.ArchetypeInterface, j int, op Op) error {
	in := r.insts[op.Res]
	var handle distsys.ArchetypeResourceHandle
	var err error
	if in.Wrappable() {
		handle, err = iface.RequireArchetypeResourceRef(r.name + "." + paramName(op.Res))
		if err != nil {
			return err
		}
	} else {
		handle = iface.RequireArchetypeResource(r.name + "." + paramName(op.Res))
	}
	var indices []tla.Value
	if op.Idx >= 0 {
		indices = []tla.Value{in.IdxVal(op.Idx)}
	}
	r.curOp, r.opRes, r.opPerform = j, op.Res, false
	name := fmt.Sprintf("r%d", op.Res)
	if op.Idx >= 0 {
		name += fmt.Sprintf("[%d]", op.Idx)
	}
	foreign := isForeign(in)
	rec := OpRec{Kind: op.Kind, Res: op.Res, Idx: op.Idx, Foreign: foreign, LinkPos: -1}
	linked, _ := in.(Linked)
	if op.Kind == OpRead {
		want, ok := in.MPeek(op.Idx)
		v, err := iface.Read(handle, indices)
		rec.OK, rec.Performed = err == nil, r.opPerform || err == nil
		got := ""
		if err == nil {
			got = "<not a string: " + v.String() + ">"
			if c, isCodec := in.(Codec); isCodec {
				got = c.Dec(v)
			} else if v.IsString() {
				got = v.AsString()
			}
			rec.Tok = got
		}
		spurious := false
		if e, isE := in.(EmptyReadOK); isE && e.EmptyReadOK() && err == nil && ok && got != want && got == e.EmptyDefault() {
			// The resource answered its "nothing there" default although something is queued: its time-out fired
			// first. (The code is `select { case v := <-ch: ...; case <-time.After(timeout): default }`; a thread
			// descheduled for longer than the time-out between arming the timer and entering the select finds both
			// cases ready.) Nothing was consumed; the model keeps the item. Counted, not asserted.
			spurious = true
		}
		if rec.Performed {
			// performed (possibly reported as failed afterwards: the abort must then restore it)
			r.cur.Touched[op.Res] = true
			if in.Consuming() {
				r.cur.Kinds[in.Kind()] = true
			}
			if ok && !spurious {
				in.MConsume(op.Idx)
			}
			if linked != nil {
				rec.LinkPos = linked.Accessed(Access{ProgID: r.progID, Seq: r.cur.Seq, Tok: got, OK: rec.OK})
			}
		}
		r.cur.Ops = append(r.cur.Ops, rec)
		if err != nil {
			return err
		}
		r.lastRead = got
		if foreign {
			r.cur.Reads = append(r.cur.Reads, name+"="+got)
			return nil
		}
		if !ok {
			r.fail("l%d attempt %d op %d: %s returned %v although nothing committed is available to read", r.cur.Label, r.cur.Attempt, j, name, v)
			return errStop
		}
		r.cur.Reads = append(r.cur.Reads, name+"="+got)
		if spurious {
			r.spuriousDefaults++
			return nil
		}
		if got != want {
			r.fail("l%d attempt %d op %d: %s read %q, the last committed state (plus this attempt's own writes) holds %q", r.cur.Label, r.cur.Attempt, j, name, got, want)
			return errStop
		}
		return nil
	}
	tok := op.Tok
	if op.Fwd && r.lastRead != "" {
		tok += "~" + r.lastRead
	}
	if in.CanRead() && !in.Consuming() && !foreign {
		rec.Prev, rec.HasPrev = in.MPeek(op.Idx)
	}
	val := tla.MakeString(tok)
	if c, isCodec := in.(Codec); isCodec {
		val = c.Enc(tok)
	}
	if op.Fwd && op.Raw && r.lastRead != "" && r.lastClock != nil {
		// a relayed value that still carries its sender's clock: Write must add the relayer's, not replace it
		val = tla.WrapCausal(val, *r.lastClock)
	}
	err = iface.Write(handle, indices, val)
	rec.OK, rec.Performed, rec.Tok = err == nil, r.opPerform || err == nil, tok
	if rec.Performed {
		r.cur.Touched[op.Res] = true
		r.cur.Kinds[in.Kind()] = true
		in.MWrite(op.Idx, tok)
		if linked != nil {
			rec.LinkPos = linked.Accessed(Access{ProgID: r.progID, Seq: r.cur.Seq, Write: true, Tok: tok, OK: rec.OK})
		}
	}
	r.cur.Ops = append(r.cur.Ops, rec)
	if err == nil {
		r.cur.Writes = append(r.cur.Writes, name+":="+tok)
	}
	return err
}

// Options for Execute.
type Options struct {
	Self       tla.Value
	Name       string // archetype name (default ArchName)
	ProgID     int    // reported to Linked instances
	ExtraCfg   []distsys.MPCalContextConfigFn
	Async      map[int]bool // resource index -> answer PreCommit/Commit/Abort through (already satisfied) channels
	OnEvent    func(Event)  // called at the end of every attempt (epilogue labels included), after the harness's own checks
	RunTimeout time.Duration
	// NoRecorder: do not install the harness's trace recorder (the context keeps whatever recorder it
	// created itself, e.g. the file recorder of PGO_TRACE_DIR). Commit/abort is then told by the
	// control flow alone and each attempt is settled when the next one begins.
	NoRecorder bool
	// ByControlFlow: keep the harness's recorder but do not believe its IsAbort: attempts are settled
	// (models updated, observables compared) when the next attempt begins, as with NoRecorder.
	ByControlFlow bool
	// Cancel: when closed, the context is stopped and the run reported as INCONCLUSIVE (used to
	// release programs that wait for a peer that has already failed).
	Cancel <-chan struct{}
	// StickyPlan: a planned fault stays first in line until it has actually fired (attempts that
	// abort earlier because an input was not there yet do not use it up).
	StickyPlan bool
}

// Execute runs the program on the real Run loop and returns what was seen.
func Execute(p *Program, insts []Instance, opt Options) Result {
	r := &runner{p: p, insts: insts, attempt: make([]int, len(p.Labels)+2), abortedWithEffects: map[int]bool{}, probeDone: map[int]bool{}, async: opt.Async,
		name: opt.Name, progID: opt.ProgID, noRec: opt.NoRecorder, lazy: opt.ByControlFlow, sticky: opt.StickyPlan, planPos: make([]int, len(p.Labels)), onEvent: opt.OnEvent}
	if r.name == "" {
		r.name = ArchName
	}
	nl := len(p.Labels)
	label := func(i int) string {
		switch {
		case i < nl:
			return fmt.Sprintf("%s.l%d", r.name, i)
		case i == nl:
			return r.name + ".drain"
		case i == nl+1:
			return r.name + ".probe"
		}
		return r.name + ".Done"
	}
	begin := func(li int, iface distsys.ArchetypeInterface) {
		r.iface = iface
		r.settlePrev(li)
		r.seq++
		r.cur = Event{Label: li, LabelName: label(li), Attempt: r.attempt[li], Seq: r.seq, Touched: map[int]bool{}, Kinds: map[string]bool{}}
		r.attempt[li]++
		r.open, r.evSeen, r.ended = true, false, false
		r.curFault = nil
		r.fired = false
		r.lastRead, r.lastClock = "", nil
		r.curOp, r.opRes = -1, -1
	}
	gotoNext := func(li int, iface distsys.ArchetypeInterface) error {
		err := iface.Goto(label(li + 1))
		if err == nil {
			r.cur.PCWrite = label(li + 1)
		}
		return err
	}
	var sections []distsys.MPCalCriticalSection
	for li := range p.Labels {
		li := li
		sections = append(sections, distsys.MPCalCriticalSection{Name: label(li), Body: func(iface distsys.ArchetypeInterface) error {
			if r.failure != "" {
				return errStop
			}
			begin(li, iface)
			a := r.cur.Attempt
			if r.sticky {
				a = r.planPos[li]
			}
			if a < len(p.Plan[li]) {
				f := p.Plan[li][a]
				r.curFault = &f
			}
			faulty := r.curFault != nil
			for j, op := range p.Labels[li].Ops {
				if f := r.curFault; f != nil && f.Mode == FAwait && f.Pos == j {
					r.fired = true
					return distsys.ErrCriticalSectionAborted
				}
				if op.OnlyFaulty && !faulty {
					continue
				}
				if err := r.doOp(iface, j, op); err != nil {
					return err
				}
			}
			if f := r.curFault; f != nil && f.Mode == FAwait && f.Pos >= len(p.Labels[li].Ops) {
				r.fired = true
				return distsys.ErrCriticalSectionAborted
			}
			if f := r.curFault; f != nil && f.Mode != FPreCommit && f.Mode != FAwait {
				// the planned op fault could not fire (op on an unwrapped resource): nothing injected
				r.curFault = nil
			}
			if f := r.curFault; f != nil && f.Mode == FPreCommit && !r.cur.Touched[f.Res] {
				r.curFault = nil
			}
			return gotoNext(li, iface)
		}})
	}
	// drain: read every committed-but-unconsumed input, in order
	sections = append(sections, distsys.MPCalCriticalSection{Name: label(nl), Body: func(iface distsys.ArchetypeInterface) error {
		if r.failure != "" {
			return errStop
		}
		begin(nl, iface)
		j := 0
		for i, in := range insts {
			if !in.Consuming() {
				continue
			}
			for k := in.Pending(); k > 0; k-- {
				if err := r.doOp(iface, j, Op{Kind: OpRead, Res: i, Idx: drainIdx(in)}); err != nil {
					return err
				}
				j++
			}
		}
		return gotoNext(nl, iface)
	}})
	// probe: one more read of each input must find nothing (no invented, duplicated or leaked message)
	sections = append(sections, distsys.MPCalCriticalSection{Name: label(nl + 1), Body: func(iface distsys.ArchetypeInterface) error {
		if r.failure != "" {
			return errStop
		}
		begin(nl+1, iface)
		for i, in := range insts {
			if !in.Consuming() || r.probeDone[i] {
				continue
			}
			r.probeDone[i] = true
			if err := r.doOp(iface, 0, Op{Kind: OpRead, Res: i, Idx: drainIdx(in)}); err != nil {
				return err // expected: nothing to read
			}
		}
		return gotoNext(nl+1, iface)
	}})
	sections = append(sections, distsys.MPCalCriticalSection{Name: label(nl + 2), Body: func(iface distsys.ArchetypeInterface) error {
		if r.failure == "" {
			r.iface = iface
			r.settlePrev(nl + 2)
			r.finished = true
		}
		return distsys.ErrDone
	}})

	arch := distsys.MPCalArchetype{
		Name: r.name, Label: label(0),
		JumpTable: distsys.MakeMPCalJumpTable(sections...),
		ProcTable: distsys.MakeMPCalProcTable(),
		PreAmble: func(iface distsys.ArchetypeInterface) {
			for i, in := range insts {
				in.PreAmble(iface, r.name+"."+paramName(i))
			}
		},
	}
	for i, in := range insts {
		if in.Wrappable() {
			arch.RequiredRefParams = append(arch.RequiredRefParams, r.name+"."+paramName(i))
		}
	}
	var cfg []distsys.MPCalContextConfigFn
	if !opt.NoRecorder {
		cfg = append(cfg, distsys.SetTraceRecorder(recorder{r}))
	}
	for i, in := range insts {
		i := i
		cfg = append(cfg, in.Configs(paramName(i), func(res distsys.ArchetypeResource) distsys.ArchetypeResource {
			return &faulty{inner: res, id: i, r: r}
		})...)
	}
	cfg = append(cfg, opt.ExtraCfg...)
	self := opt.Self
	if !self.IsNumber() && !self.IsString() {
		self = tla.MakeNumber(1)
	}
	ctx := distsys.NewMPCalContext(self, arch, cfg...)
	done := make(chan error, 1)
	go func() { done <- hx.SafeRun(ctx) }()
	timeout := opt.RunTimeout
	if timeout == 0 {
		timeout = 60 * time.Second
	}
	var res Result
	select {
	case err := <-done:
		res.RunErr = err
	case <-time.After(timeout):
		r.fail("INCONCLUSIVE: the run did not finish within %v", timeout)
		go ctx.Stop() // do not leave the archetype spinning behind the next case
	case <-opt.Cancel:
		r.fail("INCONCLUSIVE: cancelled (a peer had already failed)")
		go ctx.Stop()
	}
	if res.RunErr != nil && !errors.Is(res.RunErr, errStop) && r.failure == "" {
		r.fail("Run returned %v", res.RunErr)
	}
	res.Failure = r.failure
	res.History = r.hist.String()
	res.Events = r.events
	res.NonTriv = r.nontriv
	res.Unplanned = r.unplanned
	res.SpuriousDefaults = r.spuriousDefaults
	res.Anomalies = r.anomalies
	res.Finished = r.finished
	return res
}

func drainIdx(in Instance) int {
	if in.NumIdx() > 0 {
		return 0
	}
	return -1
}
