package c03

import (
	"bytes"
	"encoding/gob"
	"fmt"
	"strings"
	"testing"

	"github.com/DistCompiler/pgo/distsys/tla"
	"pgregory.net/rapid"

	"verif/harness/tlx"
	"verif/harness/vstat"
)

// TestC03Containers: set and function operators on containers of every size (the runtime's maps change
// representation above 8 entries), queried with values that are equal to a member but were put together
// differently (field order, :> / @@ chains, MakeFunction, gob round trip). TLA+ values are extensional, so
// \in, \notin, =, \subseteq, \union, \intersect, \, Cardinality, DOMAIN and f[x] must not see the difference.
// Oracle: the same operations on the harness's canonical values.
func TestC03Containers(t *testing.T) { rapid.Check(t, containerProp) }

// build constructs the runtime value of a canonical value in one of several ways, with drawn insertion orders.
func build(t *rapid.T, v tlx.Val, how int, log *[]string) tla.Value {
	perm := func(n int) []int {
		if n <= 1 {
			return make([]int, n)
		}
		return rapid.Permutation(ident(n)).Draw(t, "order")
	}
	switch {
	case v.K == tlx.KFn && len(v.Ks) > 0 && how == 1:
		// chain of k :> v joined by @@ in a drawn order
		p := perm(len(v.Ks))
		var out tla.Value
		for j, i := range p {
			one := tla.ModuleColonGreaterThanSymbol(build(t, v.Ks[i], 0, log), build(t, v.Vs[i], rapid.IntRange(0, 3).Draw(t, "how"), log))
			if j == 0 {
				out = one
			} else if rapid.Bool().Draw(t, "left") {
				out = tla.ModuleDoubleAtSignSymbol(out, one)
			} else {
				out = tla.ModuleDoubleAtSignSymbol(one, out)
			}
		}
		*log = append(*log, fmt.Sprintf(":>@@%v", p))
		return out
	case v.K == tlx.KFn && len(v.Ks) > 0 && how == 2:
		// [x \in DOMAIN |-> ...] over a domain set built in a drawn order
		p := perm(len(v.Ks))
		dom := make([]tla.Value, len(p))
		for j, i := range p {
			dom[j] = build(t, v.Ks[i], 0, log)
		}
		*log = append(*log, fmt.Sprintf("[x\\in%v|->]", p))
		return tla.MakeFunction([]tla.Value{tla.MakeSet(dom...)}, func(a []tla.Value) tla.Value {
			for i := range v.Ks {
				if tlx.ToTLA(v.Ks[i], nil).Equal(a[0]) {
					return tlx.ToTLA(v.Vs[i], nil)
				}
			}
			panic("harness: key not in the domain")
		})
	case how == 3:
		// through the wire encoding
		var buf bytes.Buffer
		x := tlx.ToTLA(v, perm)
		if err := gob.NewEncoder(&buf).Encode(&x); err != nil {
			t.Fatalf("gob encode %s: %v", v.TLA(), err)
		}
		var y tla.Value
		if err := gob.NewDecoder(&buf).Decode(&y); err != nil {
			t.Fatalf("gob decode %s: %v", v.TLA(), err)
		}
		*log = append(*log, "gob")
		return y
	default:
		*log = append(*log, "literal-permuted")
		return tlx.ToTLA(v, perm)
	}
}

func ident(n int) []int {
	p := make([]int, n)
	for i := range p {
		p[i] = i
	}
	return p
}

// elem draws the i-th element of a given shape; elements of one container differ at least in i.
func elem(t *rapid.T, shape, i int) tlx.Val {
	small := func(l string) tlx.Val { return tlx.Int(int64(rapid.IntRange(-2, 2).Draw(t, l))) }
	str := func(l string) tlx.Val { return tlx.Str(rapid.SampledFrom([]string{"", "a", "b", "ab"}).Draw(t, l)) }
	switch shape {
	case 0: // record of 2-5 fields
		ks := []tlx.Val{tlx.Str("id"), tlx.Str("term"), tlx.Str("b"), tlx.Str("a"), tlx.Str("zz")}[:rapid.IntRange(2, 5).Draw(t, "fields")]
		vs := []tlx.Val{tlx.Int(int64(i)), small("f1"), str("f2"), tlx.Bool(rapid.Bool().Draw(t, "f3")), tlx.Set(small("f4"))}[:len(ks)]
		return tlx.Fn(ks, vs)
	case 1: // function with integer keys (not 1..n, so not a tuple)
		n := rapid.IntRange(2, 9).Draw(t, "keys")
		var ks, vs []tlx.Val
		for k := 0; k < n; k++ {
			ks = append(ks, tlx.Int(int64(10+3*k)))
			vs = append(vs, small("v"))
		}
		vs[0] = tlx.Int(int64(i))
		return tlx.Fn(ks, vs)
	case 2: // record holding a record and a set of records
		in := tlx.Fn([]tlx.Val{tlx.Str("x"), tlx.Str("y")}, []tlx.Val{tlx.Int(int64(i)), small("y")})
		in2 := tlx.Fn([]tlx.Val{tlx.Str("x"), tlx.Str("y")}, []tlx.Val{small("x2"), str("y2")})
		return tlx.Fn([]tlx.Val{tlx.Str("m"), tlx.Str("log"), tlx.Str("k")}, []tlx.Val{in, tlx.Set(in, in2), str("k")})
	case 3: // tuple of records
		r := func(j int) tlx.Val {
			return tlx.Fn([]tlx.Val{tlx.Str("term"), tlx.Str("cmd")}, []tlx.Val{tlx.Int(int64(i + j)), str("cmd")})
		}
		return tlx.Tup(r(0), r(1))
	case 4: // set of records
		r := func(j int) tlx.Val {
			return tlx.Fn([]tlx.Val{tlx.Str("p"), tlx.Str("q")}, []tlx.Val{tlx.Int(int64(i)), tlx.Int(int64(j))})
		}
		return tlx.Set(r(0), r(1), r(2))
	default: // strings / numbers (plain keys)
		if shape == 5 {
			return tlx.Str(fmt.Sprintf("s%d", i))
		}
		return tlx.Int(int64(i * 7))
	}
}

func containerProp(t *rapid.T) {
	if vstat.OverBudget() {
		return
	}
	vstat.Case()
	shape := rapid.IntRange(0, 6).Draw(t, "shape")
	m := rapid.SampledFrom([]int{0, 1, 2, 5, 7, 8, 9, 10, 12, 16, 17, 25, 33, 40}).Draw(t, "members")
	extra := rapid.IntRange(1, 3).Draw(t, "non-members")
	var all []tlx.Val
	for i := 0; i < m+extra; i++ {
		all = append(all, elem(t, shape, i))
	}
	members := all[:m]
	var hows []string
	mk := func(v tlx.Val) tla.Value { return build(t, v, rapid.IntRange(0, 3).Draw(t, "how"), &hows) }
	// container A: members built one way, inserted in a drawn order (MakeSet or a chain of unions)
	order := ident(m)
	if m > 1 {
		order = rapid.Permutation(ident(m)).Draw(t, "insertion")
	}
	var as []tla.Value
	for _, i := range order {
		as = append(as, mk(members[i]))
	}
	var SA tla.Value
	if rapid.Bool().Draw(t, "union-chain") {
		SA = tla.MakeSet()
		for _, a := range as {
			SA = tla.ModuleUnionSymbol(SA, tla.MakeSet(a))
		}
	} else {
		SA = tla.MakeSet(as...)
	}
	// twins: every member and non-member built again, independently
	twins := make([]tla.Value, len(all))
	for i := range all {
		twins[i] = mk(all[i])
	}
	nSub := 0
	if m > 0 {
		nSub = rapid.IntRange(0, m).Draw(t, "sub")
	}
	SBall := tla.MakeSet(twins[:m]...)
	SBsub := tla.MakeSet(twins[:nSub]...)
	model := tlx.Set(members...)
	if len(model.E) != m {
		t.Fatalf("harness: generated members are not distinct")
	}
	render := func() string {
		return fmt.Sprintf("shape %d, %d members %s, built as %s", shape, m, model.TLA(), strings.Join(hows, ","))
	}
	if m > 8 {
		vstat.NonTrivial(fmt.Sprintf("%d|%s|%v", shape, model.TLA(), hows), render)
	}
	vstat.Class(fmt.Sprintf("containers.members.%s", map[bool]string{true: ">8", false: "<=8"}[m > 8]))
	fail := func(f string, a ...any) {
		t.Fatalf("%s\n  %s", fmt.Sprintf(f, a...), render())
	}
	safe := func(what string, f func()) {
		defer func() {
			if r := recover(); r != nil {
				fail("%s: the runtime raised %v where TLA+ defines a value", what, r)
			}
		}()
		f()
	}
	safe("membership", func() {
		for i, tw := range twins {
			want := i < m
			if got := tla.ModuleInSymbol(tw, SA).AsBool(); got != want {
				fail("%s \\in S = %v, TLA+ says %v", all[i].TLA(), got, want)
			}
			if got := tla.ModuleNotInSymbol(tw, SA).AsBool(); got != !want {
				fail("%s \\notin S = %v, TLA+ says %v", all[i].TLA(), got, !want)
			}
		}
	})
	safe("set comparison", func() {
		if !tla.ModuleEqualsSymbol(SA, SBall).AsBool() || !tla.ModuleEqualsSymbol(SBall, SA).AsBool() {
			fail("S = S' is FALSE for two sets with equal members")
		}
		if !tla.ModuleSubsetOrEqualSymbol(SBsub, SA).AsBool() {
			fail("S'' \\subseteq S is FALSE for a subset")
		}
		if got, want := tla.ModuleSubsetOrEqualSymbol(SA, SBsub).AsBool(), nSub == m; got != want {
			fail("S \\subseteq S'' = %v, TLA+ says %v", got, want)
		}
		if tla.ModuleInSymbol(SBall, tla.MakeSet(SA, tla.MakeSet())).AsBool() != true {
			fail("S' \\in {S, {}} is FALSE for S' = S")
		}
	})
	cmp := func(what string, got tla.Value, want tlx.Val) {
		g, err := tlx.FromTLA(got)
		if err != nil {
			fail("%s: %v", what, err)
		}
		if tlx.Compare(g, want) != 0 {
			fail("%s = %s, TLA+ says %s", what, g.TLA(), want.TLA())
		}
	}
	safe("set algebra", func() {
		cmp("S \\union S'", tla.ModuleUnionSymbol(SA, SBall), model)
		cmp("S'' \\union S", tla.ModuleUnionSymbol(SBsub, SA), model)
		cmp("S \\intersect S''", tla.ModuleIntersectSymbol(SA, SBsub), tlx.Set(members[:nSub]...))
		cmp("S \\ S''", tla.ModuleBackslashSymbol(SA, SBsub), tlx.Set(members[nSub:]...))
		cmp("S \\ S'", tla.ModuleBackslashSymbol(SA, SBall), tlx.Set())
		cmp("S \\union {outside}", tla.ModuleUnionSymbol(SA, tla.MakeSet(twins[m:]...)), tlx.Set(all...))
		if c := tla.ModuleCardinality(tla.ModuleUnionSymbol(SA, SBall)).AsNumber(); int(c) != m {
			fail("Cardinality(S \\union S') = %d, TLA+ says %d", c, m)
		}
	})
	if m > 0 {
		safe("function application", func() {
			// f with domain S (built from the A versions), applied to the twins
			var f tla.Value
			if rapid.Bool().Draw(t, "f-by-chain") {
				for j, i := range order {
					one := tla.ModuleColonGreaterThanSymbol(as[j], tla.MakeNumber(int32(100+i)))
					if j == 0 {
						f = one
					} else {
						f = tla.ModuleDoubleAtSignSymbol(f, one)
					}
				}
			} else {
				f = tla.MakeFunction([]tla.Value{SA}, func(a []tla.Value) tla.Value {
					for i := range members {
						if tlx.ToTLA(members[i], nil).Equal(a[0]) {
							return tla.MakeNumber(int32(100 + i))
						}
					}
					panic("harness: not a member")
				})
			}
			for i := 0; i < m; i++ {
				if got := f.ApplyFunction(twins[i]); !got.Equal(tla.MakeNumber(int32(100 + i))) {
					fail("f[%s] = %v, TLA+ says %d", all[i].TLA(), got, 100+i)
				}
			}
			if !tla.ModuleEqualsSymbol(tla.ModuleDomainSymbol(f), SBall).AsBool() {
				fail("DOMAIN f = S' is FALSE")
			}
			cmp("DOMAIN f", tla.ModuleDomainSymbol(f), model)
		})
	}
}
