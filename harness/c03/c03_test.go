// C03 — TLA+ operators evaluate as TLA+ defines them, or fail loudly.
package c03

import (
	"fmt"
	"os"
	"strings"
	"sync/atomic"
	"testing"
	"time"

	"pgregory.net/rapid"

	"verif/harness/tlcx"
	"verif/harness/tlx"
	"verif/harness/vstat"
)

func TestMain(m *testing.M) { vstat.Main(m, "C03") }

const seqFinding = "Seq(S) is computed as the set of permutations of S, so `t \\in Seq(S)` is wrong for any t that is not a permutation"

// every hang leaks a spinning goroutine; after a few the process is useless for
// further search or shrinking, so later cases are skipped (shrinking then stops).
var hangs atomic.Int32

func watchdog() time.Duration {
	if hangs.Load() > 1 {
		return 2 * time.Second
	}
	return 10 * time.Second
}

func checkExpr(t *rapid.T, e *tlx.Expr, ops map[string]int) {
	if hangs.Load() >= 6 {
		t.Skip("hang budget of this process exhausted")
	}
	v := tlx.Judge(e, watchdog())
	if v.Go.Kind == "hang" {
		// a loaded machine must not turn a slow evaluation into a verdict: ask again, alone, with a long fuse
		hangs.Add(1)
		v = tlx.Judge(e, 30*time.Second)
		if v.Go.Kind == "hang" {
			hangs.Add(1)
		}
	}
	vstat.Class("outcome." + v.Class)
	if v.Failure != "" {
		// set the listed Seq finding aside by substituting its reference value, then judge the rest
		if e2, n := tlx.SubstituteClosed(e, "inseq"); n > 0 {
			v2 := tlx.Judge(e2, watchdog())
			if v2.Failure == "" && vstat.Known("Seq-is-permutations") {
				return
			}
		}
		t.Fatalf("expression: %s\n%s\nreference (TLA+): %s\nreference (fragment): %s\nruntime: %s",
			e.TLA(), v.Failure, v.Strict, v.Frag, v.Go)
	}
	if v.Class == "toobig" {
		return
	}
	for op, n := range ops {
		vstat.ClassN("op."+op, int64(n))
	}
	if e.Depth() >= 2 && v.MaxColl >= 2 && v.Strict.C != tlx.CError {
		s := e.TLA()
		vstat.NonTrivial(s, func() string {
			return fmt.Sprintf("%s  ==>  TLA+: %s | fragment: %s | runtime: %s [%s]", s, v.Strict, v.Frag, v.Go, v.Class)
		})
	}
}

// TestC03Expr: typed expression trees over every operator, some with ill-typed subtrees.
func TestC03Expr(t *testing.T) { rapid.Check(t, exprProp) }

// FuzzC03 is the same property driven by Go's coverage-guided fuzzer (thorough tier).
func FuzzC03(f *testing.F) {
	for i := 0; i < 8; i++ {
		seed := make([]byte, 256)
		for j := range seed {
			seed[j] = byte(i*37 + j*11)
		}
		f.Add(seed)
	}
	f.Fuzz(rapid.MakeFuzz(exprProp))
}

func exprProp(t *rapid.T) {
	{
		if vstat.OverBudget() {
			return
		}
		vstat.Case()
		g := &tlx.Gen{T: t, Ops: map[string]int{}}
		if rapid.IntRange(0, 9).Draw(t, "illtypedcase") < 3 {
			g.IllTyped = 1 + rapid.IntRange(0, 1).Draw(t, "illbudget")
		}
		// the top-level type decides which operator families are reachable: bias it
		// so that logic, arithmetic and set operators each get a fair share
		var ty *tlx.Type
		switch rapid.IntRange(0, 9).Draw(t, "toptype") {
		case 0, 1, 2:
			ty = g.BoolType()
		case 3, 4:
			ty = g.IntType()
		case 5, 6:
			ty = tlx.SetOf(g.GenType(1))
		default:
			ty = g.GenType(2)
		}
		depth := rapid.IntRange(1, 4).Draw(t, "depth")
		e := g.GenExpr(ty, depth, nil)
		checkExpr(t, e, g.Ops)
	}
}

// TestC03TLC asks TLC the question for generated cases: where the reference says
// "value r" TLC must evaluate (e) = (r) to TRUE; where it says "error" TLC must
// report one. Agreement of the reference with TLC is what lets the quick tier
// trust the reference; the runtime is compared in the same pass.
func TestC03TLC(t *testing.T) {
	type tcase struct {
		e     *tlx.Expr
		v     tlx.Verdict
		query string
	}
	var cases []tcase
	seen := map[string]bool{}
	rapid.Check(t, func(t *rapid.T) {
		if vstat.OverBudget() {
			return
		}
		vstat.Case()
		g := &tlx.Gen{T: t, Ops: map[string]int{}}
		if rapid.IntRange(0, 9).Draw(t, "illtypedcase") < 3 {
			g.IllTyped = 1
		}
		var ty *tlx.Type
		switch rapid.IntRange(0, 9).Draw(t, "toptype") {
		case 0, 1, 2:
			ty = g.BoolType()
		case 3, 4:
			ty = g.IntType()
		case 5, 6:
			ty = tlx.SetOf(g.GenType(1))
		default:
			ty = g.GenType(2)
		}
		e := g.GenExpr(ty, rapid.IntRange(1, 4).Draw(t, "depth"), nil)
		checkExpr(t, e, g.Ops)
		v := tlx.Judge(e, watchdog())
		if v.Class != "asserted-value" && v.Class != "asserted-error" {
			return
		}
		hasSeq := false
		e.Walk(func(x *tlx.Expr) {
			if x.Op == "inseq" {
				hasSeq = true
			}
		})
		s := e.TLA()
		if hasSeq || seen[s] || e.Depth() < 1 || strings.Contains(strings.ReplaceAll(s, "EXCEPT ![", ""), "!") || strings.Contains(s, "^") && strings.Contains(s, "\"^") {
			return
		}
		seen[s] = true
		q := "(" + s + ") = (" + s + ")" // force TLC to evaluate a lazily represented result
		if v.Class == "asserted-value" {
			q = "(" + s + ") = (" + tlx.Norm(v.Strict.V).TLA() + ")"
		}
		cases = append(cases, tcase{e, v, q})
	})
	if t.Failed() || len(cases) == 0 {
		return
	}
	qs := make([]string, len(cases))
	for i, c := range cases {
		qs[i] = c.query
	}
	ans, err := tlcx.EvalParallel(qs, 16)
	if err != nil {
		t.Fatalf("INCONCLUSIVE: TLC infrastructure: %v", err)
	}
	var lenient []string
	defer func() {
		for i, l := range lenient {
			if i < 40 || os.Getenv("VERIF_LENIENT_ALL") != "" {
				t.Logf("tlc-lenient: %s", l)
			}
		}
	}()
	for i, c := range cases {
		a := ans[i]
		if a.Timeout {
			vstat.Class("tlc.timeout")
			continue
		}
		vstat.Class("tlc.checked")
		if strings.ContainsAny(c.query, "!^") && !a.Error == (c.v.Class == "asserted-error") {
			// jline history expansion mangles ! and ^ before TLC sees them
		}
		switch c.v.Class {
		case "asserted-value":
			if a.Error || strings.TrimSpace(a.Text) != "TRUE" {
				t.Errorf("INCONCLUSIVE: harness reference disagrees with TLC: %s\nreference: %s\nTLC on %q: %s", c.e.TLA(), c.v.Strict, c.query, a.Text)
			}
		case "asserted-error":
			if !a.Error {
				// TLC keeps many results lazy and is lenient about some operands; the runtime
				// failed loudly here (checkExpr passed), which is what a type error should do.
				vstat.Class("tlc.lenient-where-reference-and-runtime-report-an-error")
				lenient = append(lenient, fmt.Sprintf("%s   [reference: %s; TLC: %s]", c.e.TLA(), c.v.Strict.Msg, a.Text))
			}
		}
	}
	vstat.Note("tlc", fmt.Sprintf("%d distinct asserted cases put to tlc2.REPL as (e) = (reference value) / expected error", len(cases)))
}
