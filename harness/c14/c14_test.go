// C14 — generated primary-backup store: replicas agree whenever the primary answers; client history linearizable.
package c14

import (
	"fmt"
	"io"
	"log"
	"strings"
	"testing"
	"time"

	"github.com/DistCompiler/pgo/distsys/trace"
	"github.com/anishathalye/porcupine"
	"pgregory.net/rapid"

	"verif/harness/sched"
	"verif/harness/specenv"
	"verif/harness/sysbind"
	"verif/harness/tlx"
	"verif/harness/vstat"
)

func TestMain(m *testing.M) {
	log.SetOutput(io.Discard)
	vstat.Main(m, "C14")
}

type in struct {
	put        bool
	key, value string
}

var model = porcupine.Model{
	Partition: func(h []porcupine.Operation) [][]porcupine.Operation {
		by := map[string][]porcupine.Operation{}
		var keys []string
		for _, o := range h {
			k := o.Input.(in).key
			if _, ok := by[k]; !ok {
				keys = append(keys, k)
			}
			by[k] = append(by[k], o)
		}
		var out [][]porcupine.Operation
		for _, k := range keys {
			out = append(out, by[k])
		}
		return out
	},
	Init: func() interface{} { return "" },
	Step: func(state, input, output interface{}) (bool, interface{}) {
		i := input.(in)
		if i.put {
			return true, i.value
		}
		return output.(string) == state.(string), state
	},
	DescribeOperation: func(input, output interface{}) string {
		i := input.(in)
		if i.put {
			return fmt.Sprintf("put(%s,%s)", i.key, i.value)
		}
		return fmt.Sprintf("get(%s) -> %q", i.key, output)
	},
}

func consistency(p *sysbind.PBKVS) string {
	primary := 0
	for r := 1; r <= p.NR; r++ {
		if p.Alive(r) {
			primary = r
			break
		}
	}
	if primary == 0 || p.Replicas[primary-1].PC != "AReplica.sndResp" {
		return ""
	}
	fs := p.Store.Vars["fs"]
	pf := specenv.FnGet(fs, tlx.Int(int64(primary)))
	for r := 1; r <= p.NR; r++ {
		if !p.Alive(r) {
			continue
		}
		rf := specenv.FnGet(fs, tlx.Int(int64(r)))
		for _, k := range p.Keys {
			if !tlx.Equal(specenv.FnGet(pf, tlx.Str(k)), specenv.FnGet(rf, tlx.Str(k))) {
				return fmt.Sprintf("ConsistencyOK: primary %d is about to answer with fs[%d][%s]=%s while live replica %d holds %s", primary, primary, k, specenv.FnGet(pf, tlx.Str(k)), r, specenv.FnGet(rf, tlx.Str(k)))
			}
		}
	}
	return ""
}

func TestC14PrimaryBackup(t *testing.T) {
	rapid.Check(t, func(t *rapid.T) {
		if vstat.OverBudget() {
			return
		}
		vstat.Case()
		nr := rapid.IntRange(1, 4).Draw(t, "replicas")
		nc := rapid.IntRange(1, 3).Draw(t, "clients")
		keys := []string{"KEY1", "KEY2"}[:rapid.IntRange(1, 2).Draw(t, "keys")]
		var inputs []tlx.Val
		var reqs []in
		for i, n := 0, rapid.IntRange(1, 6).Draw(t, "requests"); i < n; i++ {
			k := keys[rapid.IntRange(0, len(keys)-1).Draw(t, "key")]
			if rapid.IntRange(0, 9).Draw(t, "isput") < 6 {
				v := fmt.Sprintf("V%d", i)
				inputs = append(inputs, tlx.Rec(map[string]tlx.Val{"typ": tlx.Int(3), "body": tlx.Rec(map[string]tlx.Val{"key": tlx.Str(k), "value": tlx.Str(v)})}))
				reqs = append(reqs, in{true, k, v})
			} else {
				inputs = append(inputs, tlx.Rec(map[string]tlx.Val{"typ": tlx.Int(1), "body": tlx.Rec(map[string]tlx.Val{"key": tlx.Str(k)})}))
				reqs = append(reqs, in{false, k, ""})
			}
		}
		crashPct := rapid.SampledFrom([]int{0, 2, 8, 20}).Draw(t, "crashpct")
		var p *sysbind.PBKVS
		aliveCount := func() int {
			n := 0
			for r := 1; r <= nr; r++ {
				if p.Alive(r) {
					n++
				}
			}
			return n
		}
		p = sysbind.NewPBKVS(nr, nc, keys, inputs,
			func(what string, k int) int { return rapid.IntRange(0, k-1).Draw(t, what) },
			func(in *sched.Instance, id string, k uint) uint {
				if sysbind.PBFailChoice(id) {
					// a replica may crash at any label boundary as long as one survives
					if aliveCount() > 1 && rapid.IntRange(0, 99).Draw(t, "crash?") < crashPct {
						return 1
					}
					return 0
				}
				return uint(rapid.IntRange(0, int(k)-1).Draw(t, id))
			})
		// resources of a deployment refuse now and then (a send that cannot be delivered, a section at pre-commit): the
		// section aborts and is retried, and nothing else may follow from it
		p.Store.RefuseWritePct = rapid.SampledFrom([]int{0, 0, 10, 30}).Draw(t, "write-refusals")
		p.Store.RefusePct = rapid.SampledFrom([]int{0, 0, 5, 20}).Draw(t, "precommit-refusals")
		if err := p.Sim.Start(); err != nil {
			t.Fatalf("INCONCLUSIVE: %v", err)
		}
		defer p.Sim.Shutdown()
		var hist strings.Builder
		type openOp struct {
			in   in
			call int64
		}
		open := map[string]*openOp{}
		var ops []porcupine.Operation
		taken := 0
		primaryCrashMidReplication, tookOverWithSync := false, false
		budget := rapid.SampledFrom([]int{200, 500, 1200}).Draw(t, "steps")
		for step := 0; step < budget; step++ {
			var live []*sched.Instance
			for _, x := range p.Sim.Insts {
				if x.Live {
					live = append(live, x)
				}
			}
			if len(live) == 0 {
				break
			}
			x := live[rapid.IntRange(0, len(live)-1).Draw(t, "who")]
			pcBefore := x.PC
			st := p.Sim.Step(x)
			switch st.Kind {
			case sched.Committed:
				fmt.Fprintf(&hist, "%d: %s commits %s\n", step, x.Name, pcBefore)
				if st.Err != nil {
					t.Fatalf("%s ended with %v\n%s", x.Name, st.Err, hist.String())
				}
				if m := consistency(p); m != "" {
					t.Fatalf("%s\n%s", m, hist.String())
				}
				if x.PC == "AReplica.failLabel" && pcBefore != "AReplica.failLabel" {
					fmt.Fprintf(&hist, "   -- %s crashes at %s\n", x.Name, pcBefore)
					if pcBefore == "AReplica.sndReplicaReqLoop" || pcBefore == "AReplica.rcvReplicaRespLoop" {
						primaryCrashMidReplication = true
					}
				}
				if pcBefore == "AReplica.syncPrimary" && x.PC == "AReplica.sndSyncReqLoop" {
					tookOverWithSync = true
				}
				for _, el := range st.Event.Elements {
					switch e := el.(type) {
					case trace.ReadElement:
						if e.Name == "input" && pcBefore == "AClient.clientLoop" {
							if taken >= len(reqs) {
								t.Fatalf("a client obtained more requests than were submitted\n%s", hist.String())
							}
							open[x.Name] = &openOp{in: reqs[taken], call: int64(step)}
							taken++
						}
					case trace.WriteElement:
						if e.Name == "output" {
							o := open[x.Name]
							if o == nil {
								t.Fatalf("%s published an output without an open request\n%s", x.Name, hist.String())
							}
							out := e.Value.AsString()
							if o.in.put {
								out = ""
							}
							ops = append(ops, porcupine.Operation{ClientId: int(x.Self.AsNumber()), Input: o.in, Call: o.call, Output: out, Return: int64(step)})
							fmt.Fprintf(&hist, "   -- %s: %s\n", x.Name, model.DescribeOperation(o.in, out))
							delete(open, x.Name)
						}
					}
				}
			case sched.Exited:
				if st.Err != nil {
					t.Fatalf("%s failed: %v\n%s", x.Name, st.Err, hist.String())
				}
			case sched.Stuck:
				t.Fatalf("INCONCLUSIVE: %s stuck at %s\n%s", x.Name, st.PC, hist.String())
			}
		}
		for name, o := range open {
			_ = name
			if o.in.put {
				ops = append(ops, porcupine.Operation{ClientId: 99, Input: o.in, Call: o.call, Output: "", Return: int64(budget + 1)})
			}
		}
		if res, _ := porcupine.CheckOperationsVerbose(model, ops, 20*time.Second); res == porcupine.Illegal {
			t.Fatalf("the acknowledged client history is not linearizable (replicas=%d clients=%d)\n%s", nr, nc, hist.String())
		}
		vstat.ClassN("operations", int64(len(ops)))
		if primaryCrashMidReplication {
			vstat.Class("runs.primary-crash-mid-replication")
		}
		if tookOverWithSync {
			vstat.Class("runs.takeover-with-sync")
		}
		if primaryCrashMidReplication && tookOverWithSync {
			h := hist.String()
			vstat.NonTrivial(h, func() string { return fmt.Sprintf("replicas=%d clients=%d\n%s", nr, nc, h) })
		}
	})
}
