// Package specenv holds the spec-level global variables of a system under the
// scheduler (as harness-side canonical values, independent of the runtime under
// test) and exposes them to archetypes through resources that implement each
// mapping macro of the spec. Nondeterminism inside a macro is a drawn choice.
package specenv

import (
	"fmt"
	"sort"

	"github.com/DistCompiler/pgo/distsys"
	"github.com/DistCompiler/pgo/distsys/tla"

	"verif/harness/tlx"
)

// Store is the spec state. One attempt runs at a time: Begin snapshots, End(abort) restores.
type Store struct {
	Vars    map[string]tlx.Val
	snap    map[string]tlx.Val
	Closing func() bool
	// Pick resolves `with x \in S` inside a mapping macro: returns an index < n.
	Pick func(what string, n int) int
	// Touched records which variables the current attempt read or wrote (for reporting).
	Touched map[string]bool
	// RefusePct: a view's PreCommit refuses the section (ErrCriticalSectionAborted) with this probability, as a
	// deployed resource may (a connection that died after the write): the section must then leave no trace.
	RefusePct int
	// RefuseWritePct: a write through a view is refused (ErrCriticalSectionAborted, nothing changes) with this
	// probability, as a deployed mailbox does when it cannot reach the destination: the section must abort and retry.
	RefuseWritePct int
}

func NewStore() *Store {
	return &Store{Vars: map[string]tlx.Val{}, Touched: map[string]bool{}, Closing: func() bool { return false }}
}

func (s *Store) Begin() {
	s.snap = make(map[string]tlx.Val, len(s.Vars))
	for k, v := range s.Vars {
		s.snap[k] = v
	}
	s.Touched = map[string]bool{}
}

func (s *Store) End(abort bool) {
	if abort && s.snap != nil {
		s.Vars = s.snap
	}
	s.snap = nil
}

// Names in sorted order.
func (s *Store) Names() []string {
	var ns []string
	for k := range s.Vars {
		ns = append(ns, k)
	}
	sort.Strings(ns)
	return ns
}

// ---- value helpers --------------------------------------------------------------------------

func FnGet(f, k tlx.Val) tlx.Val {
	if f.K == tlx.KTup && k.K == tlx.KInt && k.I >= 1 && int(k.I) <= len(f.E) {
		return f.E[k.I-1]
	}
	v, ok := f.Get(k)
	if !ok {
		panic(fmt.Sprintf("specenv: %s has no key %s", f, k))
	}
	return v
}

func FnSet(f, k, v tlx.Val) tlx.Val {
	if f.K == tlx.KTup && k.K == tlx.KInt && k.I >= 1 && int(k.I) <= len(f.E) {
		es := append([]tlx.Val{}, f.E...)
		es[k.I-1] = v
		return tlx.Tup(es...)
	}
	ks := append([]tlx.Val{}, f.Ks...)
	vs := append([]tlx.Val{}, f.Vs...)
	for i := range ks {
		if tlx.Equal(ks[i], k) {
			vs[i] = v
			return tlx.Fn(ks, vs)
		}
	}
	panic(fmt.Sprintf("specenv: EXCEPT on %s outside its domain (%s)", f, k))
}

func Append(s tlx.Val, x tlx.Val) tlx.Val { return tlx.Tup(append(append([]tlx.Val{}, s.E...), x)...) }
func Tail(s tlx.Val) tlx.Val              { return tlx.Tup(s.E[1:]...) }

// Bags (module Bags): a function from elements to positive counts; <<>> is the empty bag.
func BagAdd(b, x tlx.Val) tlx.Val {
	ks, vs := bagParts(b)
	for i := range ks {
		if tlx.Equal(ks[i], x) {
			vs[i] = tlx.Int(vs[i].I + 1)
			return tlx.Fn(ks, vs)
		}
	}
	return tlx.Fn(append(ks, x), append(vs, tlx.Int(1)))
}

func BagRemove(b, x tlx.Val) tlx.Val {
	ks, vs := bagParts(b)
	var nk, nv []tlx.Val
	for i := range ks {
		if tlx.Equal(ks[i], x) {
			if vs[i].I > 1 {
				nk, nv = append(nk, ks[i]), append(nv, tlx.Int(vs[i].I-1))
			}
			continue
		}
		nk, nv = append(nk, ks[i]), append(nv, vs[i])
	}
	return tlx.Fn(nk, nv)
}

func BagElems(b tlx.Val) []tlx.Val { ks, _ := bagParts(b); return ks }

func BagCard(b tlx.Val) int {
	_, vs := bagParts(b)
	n := 0
	for _, v := range vs {
		n += int(v.I)
	}
	return n
}

func bagParts(b tlx.Val) ([]tlx.Val, []tlx.Val) {
	if b.K == tlx.KTup {
		// a bag whose elements happen to be 1..n prints as a tuple; <<>> is the empty bag
		ks := make([]tlx.Val, len(b.E))
		for i := range ks {
			ks[i] = tlx.Int(int64(i + 1))
		}
		return ks, append([]tlx.Val{}, b.E...)
	}
	return append([]tlx.Val{}, b.Ks...), append([]tlx.Val{}, b.Vs...)
}

// ---- resources ----------------------------------------------------------------------------------

// Macro is a mapping macro: Read maps the variable (element) to (new variable, yielded
// value); ok=false means the macro's await is false. Write maps (variable, value) to the
// new variable.
type Macro struct {
	Read  func(s *Store, cur tlx.Val, what string) (next tlx.Val, yield tlx.Val, ok bool)
	Write func(s *Store, cur tlx.Val, value tlx.Val, what string) (next tlx.Val, ok bool)
}

// Identity is the absent mapping macro.
var Identity = Macro{
	Read:  func(_ *Store, cur tlx.Val, _ string) (tlx.Val, tlx.Val, bool) { return cur, cur, true },
	Write: func(_ *Store, _ tlx.Val, v tlx.Val, _ string) (tlx.Val, bool) { return v, true },
}

type view struct {
	s     *Store
	name  string
	path  []tlx.Val // indices applied so far
	depth int       // how many indices the macro applies to (0: whole variable, 1: var[i])
	m     Macro
}

// Var exposes global `name` (depth 0: `ref v`; depth 1: `ref v[_]`) through macro m.
func (s *Store) Var(name string, depth int, m Macro) distsys.ArchetypeResource {
	return &view{s: s, name: name, depth: depth, m: m}
}

func (v *view) get() tlx.Val {
	cur, ok := v.s.Vars[v.name]
	if !ok {
		panic("specenv: unknown variable " + v.name)
	}
	for _, k := range v.path {
		cur = FnGet(cur, k)
	}
	return cur
}

func (v *view) set(x tlx.Val) {
	var rec func(cur tlx.Val, path []tlx.Val) tlx.Val
	rec = func(cur tlx.Val, path []tlx.Val) tlx.Val {
		if len(path) == 0 {
			return x
		}
		return FnSet(cur, path[0], rec(FnGet(cur, path[0]), path[1:]))
	}
	v.s.Vars[v.name] = rec(v.s.Vars[v.name], v.path)
}

func (v *view) what() string {
	w := v.name
	for _, k := range v.path {
		w += "[" + k.String() + "]"
	}
	return w
}

func (v *view) Index(_ distsys.ArchetypeInterface, idx tla.Value) (distsys.ArchetypeResource, error) {
	if v.s.Closing() {
		return nil, distsys.ErrCriticalSectionAborted
	}
	k, err := tlx.FromTLA(idx)
	if err != nil {
		panic(err)
	}
	nv := *v
	nv.path = append(append([]tlx.Val{}, v.path...), k)
	return &nv, nil
}

func (v *view) ReadValue(distsys.ArchetypeInterface) (tla.Value, error) {
	if v.s.Closing() {
		return tla.Value{}, distsys.ErrCriticalSectionAborted
	}
	if len(v.path) < v.depth {
		panic("specenv: " + v.name + " read without its index")
	}
	v.s.Touched[v.name] = true
	if len(v.path) > v.depth {
		// indexing into the yielded value is not something the generated code does for mapped variables
		panic("specenv: over-indexed read of " + v.what())
	}
	next, yield, ok := v.m.Read(v.s, v.get(), v.what())
	if !ok {
		return tla.Value{}, distsys.ErrCriticalSectionAborted
	}
	v.set(next)
	return tlx.ToTLA(yield, nil), nil
}

func (v *view) WriteValue(_ distsys.ArchetypeInterface, val tla.Value) error {
	if v.s.Closing() {
		return distsys.ErrCriticalSectionAborted
	}
	if len(v.path) != v.depth {
		panic("specenv: write to " + v.what() + " at the wrong depth")
	}
	if v.s.RefuseWritePct > 0 && v.s.Pick != nil && v.s.Pick("write-refused", 100) < v.s.RefuseWritePct {
		return distsys.ErrCriticalSectionAborted
	}
	v.s.Touched[v.name] = true
	x, err := tlx.FromTLA(val.StripVClock())
	if err != nil {
		panic(fmt.Sprintf("specenv: archetype wrote a malformed value to %s: %v", v.what(), err))
	}
	next, ok := v.m.Write(v.s, v.get(), x, v.what())
	if !ok {
		return distsys.ErrCriticalSectionAborted
	}
	v.set(next)
	return nil
}

func (v *view) PreCommit(distsys.ArchetypeInterface) chan error {
	if v.s.RefusePct > 0 && !v.s.Closing() && v.s.Pick != nil && v.s.Pick("precommit-refused", 100) < v.s.RefusePct {
		ch := make(chan error, 1)
		ch <- distsys.ErrCriticalSectionAborted
		return ch
	}
	return nil
}
func (v *view) Commit(distsys.ArchetypeInterface) chan struct{} { return nil }
func (v *view) Abort(distsys.ArchetypeInterface) chan struct{}  { return nil }
func (v *view) Close() error                                    { return nil }

// ---- macros found in the shipped specs ---------------------------------------------------------------

// ReliableBagLink: locksvc's ReliableLink (unordered bag; any message may be delivered).
func ReliableBagLink() Macro {
	return Macro{
		Read: func(s *Store, cur tlx.Val, what string) (tlx.Val, tlx.Val, bool) {
			es := BagElems(cur)
			if len(es) == 0 {
				return cur, tlx.Val{}, false
			}
			m := es[s.Pick("deliver:"+what, len(es))]
			return BagRemove(cur, m), m, true
		},
		Write: func(_ *Store, cur tlx.Val, v tlx.Val, _ string) (tlx.Val, bool) { return BagAdd(cur, v), true },
	}
}

func recGet(r tlx.Val, f string) tlx.Val            { return FnGet(r, tlx.Str(f)) }
func recSet(r tlx.Val, f string, v tlx.Val) tlx.Val { return FnSet(r, tlx.Str(f), v) }

// FIFOLinkRecord: pbkvs's ReliableFIFOLink over [queue |-> <<...>>, enabled |-> BOOLEAN].
// Reading from a disabled link is an assertion failure in the spec; here the attempt
// simply cannot proceed (a crashed node is never stepped again).
func FIFOLinkRecord() Macro {
	return Macro{
		Read: func(_ *Store, cur tlx.Val, _ string) (tlx.Val, tlx.Val, bool) {
			q := recGet(cur, "queue")
			if !recGet(cur, "enabled").B || len(q.E) == 0 {
				return cur, tlx.Val{}, false
			}
			return recSet(cur, "queue", Tail(q)), q.E[0], true
		},
		Write: func(_ *Store, cur tlx.Val, v tlx.Val, _ string) (tlx.Val, bool) {
			if !recGet(cur, "enabled").B {
				return cur, false
			}
			return recSet(cur, "queue", Append(recGet(cur, "queue"), v)), true
		},
	}
}

// NetworkToggle reads and writes the enabled flag of a link record.
func NetworkToggle() Macro {
	return Macro{
		Read: func(_ *Store, cur tlx.Val, _ string) (tlx.Val, tlx.Val, bool) {
			return cur, recGet(cur, "enabled"), true
		},
		Write: func(_ *Store, cur tlx.Val, v tlx.Val, _ string) (tlx.Val, bool) {
			return recSet(cur, "enabled", v), true
		},
	}
}

// NetworkBufferLengthExact yields Len(queue).
func NetworkBufferLengthExact() Macro {
	return Macro{
		Read: func(_ *Store, cur tlx.Val, _ string) (tlx.Val, tlx.Val, bool) {
			return cur, tlx.Int(int64(len(recGet(cur, "queue").E))), true
		},
	}
}

// LeaderElection: the variable is the set of candidates; a read yields its least member
// (0 when empty), a write removes the written member.
func LeaderElection() Macro {
	return Macro{
		Read: func(_ *Store, cur tlx.Val, _ string) (tlx.Val, tlx.Val, bool) {
			if len(cur.E) == 0 {
				return cur, tlx.Int(0), true
			}
			return cur, cur.E[0], true // canonical sets are sorted
		},
		Write: func(_ *Store, cur tlx.Val, v tlx.Val, _ string) (tlx.Val, bool) {
			var out []tlx.Val
			for _, x := range cur.E {
				if !tlx.Equal(x, v) {
					out = append(out, x)
				}
			}
			return tlx.Set(out...), true
		},
	}
}

// BlockingChannel: read pops the head (await non-empty), write appends.
func BlockingChannel() Macro {
	return Macro{
		Read: func(_ *Store, cur tlx.Val, _ string) (tlx.Val, tlx.Val, bool) {
			if len(cur.E) == 0 {
				return cur, tlx.Val{}, false
			}
			return Tail(cur), cur.E[0], true
		},
		Write: func(_ *Store, cur tlx.Val, v tlx.Val, _ string) (tlx.Val, bool) { return Append(cur, v), true },
	}
}

// TCPChannel: bounded FIFO (dqueue, load balancer): read pops the head, write appends while Len < bound.
func TCPChannel(bound int) Macro {
	return Macro{
		Read: func(_ *Store, cur tlx.Val, _ string) (tlx.Val, tlx.Val, bool) {
			if len(cur.E) == 0 {
				return cur, tlx.Val{}, false
			}
			return Tail(cur), cur.E[0], true
		},
		Write: func(_ *Store, cur tlx.Val, v tlx.Val, _ string) (tlx.Val, bool) {
			if len(cur.E) >= bound {
				return cur, false
			}
			return Append(cur, v), true
		},
	}
}

// Counter: every read yields the current number and increments it (a stream of distinct items).
func Counter() Macro {
	return Macro{Read: func(_ *Store, cur tlx.Val, _ string) (tlx.Val, tlx.Val, bool) { return tlx.Int(cur.I + 1), cur, true }}
}

// Constant always yields v.
func Constant(v tlx.Val) Macro {
	return Macro{Read: func(_ *Store, cur tlx.Val, _ string) (tlx.Val, tlx.Val, bool) { return cur, v, true }}
}

// CyclicReads: dqueue's stream macro: every read advances the variable modulo bound and yields it.
func CyclicReads(bound int) Macro {
	return Macro{Read: func(_ *Store, cur tlx.Val, _ string) (tlx.Val, tlx.Val, bool) {
		n := tlx.Int((cur.I + 1) % int64(bound))
		return n, n, true
	}}
}
