// C12 — CRDT data types are semilattices with their declared read semantics.
package c12

import (
	"bytes"
	"encoding/gob"
	"fmt"
	"reflect"
	"sort"
	"strings"
	"testing"
	"time"
	"unsafe"

	"github.com/DistCompiler/pgo/distsys/resources"
	"github.com/DistCompiler/pgo/distsys/tla"
	"github.com/benbjohnson/immutable"
	"pgregory.net/rapid"

	"verif/harness/hx"
	"verif/harness/tlx"
	"verif/harness/vstat"
)

func TestMain(m *testing.M) { vstat.Main(m, "C12") }

// ---- canonical renderings of internal state, read from each type's own wire image -------

func canonGCounter(c resources.GCounter) string {
	var ps []string
	if c.Map != nil {
		it := c.Iterator()
		for !it.Done() {
			k, v, _ := it.Next()
			if v != 0 {
				ps = append(ps, fmt.Sprintf("%s:%d", k.String(), v))
			}
		}
	}
	sort.Strings(ps)
	return "{" + strings.Join(ps, " ") + "}"
}

// peek reads an unexported map field by reflection (fast path); ok=false if the
// layout is not what this harness was written against, in which case the wire
// image (slow, refactoring-proof) is used instead.
func peek[M any](v any, field string) (m M, ok bool) {
	rv := reflect.ValueOf(v)
	cp := reflect.New(rv.Type()).Elem()
	cp.Set(rv)
	f := cp.FieldByName(field)
	if !f.IsValid() {
		return m, false
	}
	x := reflect.NewAt(f.Type(), unsafe.Pointer(f.UnsafeAddr())).Elem().Interface()
	m, ok = x.(M)
	return m, ok
}

func canonAWORFast(s resources.AWORSet) (string, bool) {
	add, ok1 := peek[*immutable.Map[tla.Value, resources.GCounter]](s, "addMap")
	rem, ok2 := peek[*immutable.Map[tla.Value, resources.GCounter]](s, "remMap")
	if !ok1 || !ok2 || add == nil || rem == nil {
		return "", false
	}
	r := func(m *immutable.Map[tla.Value, resources.GCounter]) string {
		var ps []string
		it := m.Iterator()
		for !it.Done() {
			k, v, _ := it.Next()
			ps = append(ps, k.String()+"@"+canonGCounter(v))
		}
		sort.Strings(ps)
		return strings.Join(ps, ", ")
	}
	return "add[" + r(add) + "] rem[" + r(rem) + "]", true
}

func canonAWOR(s resources.AWORSet) (string, error) {
	if c, ok := canonAWORFast(s); ok {
		return c, nil
	}
	raw, err := s.GobEncode()
	if err != nil {
		return "", err
	}
	var maps resources.AddRemMaps
	if err := gob.NewDecoder(bytes.NewReader(raw)).Decode(&maps); err != nil {
		return "", err
	}
	r := func(kvs []resources.AWORSetKeyVal) string {
		var ps []string
		for _, kv := range kvs {
			ps = append(ps, kv.K.String()+"@"+canonGCounter(kv.V))
		}
		sort.Strings(ps)
		return strings.Join(ps, ", ")
	}
	return "add[" + r(maps.AddMap) + "] rem[" + r(maps.RemMap) + "]", nil
}

func canonLWWFast(s resources.LWWSet, stamps map[int64]int) (string, bool) {
	add, ok1 := peek[*immutable.Map[tla.Value, time.Time]](s, "addSet")
	rem, ok2 := peek[*immutable.Map[tla.Value, time.Time]](s, "remSet")
	if !ok1 || !ok2 || add == nil || rem == nil {
		return "", false
	}
	bad := false
	r := func(m *immutable.Map[tla.Value, time.Time]) string {
		var ps []string
		it := m.Iterator()
		for !it.Done() {
			k, ts, _ := it.Next()
			ord, ok := stamps[ts.UnixNano()]
			if !ok {
				bad = true
			}
			ps = append(ps, fmt.Sprintf("%s@op%d", k.String(), ord))
		}
		sort.Strings(ps)
		return strings.Join(ps, ", ")
	}
	out := "add[" + r(add) + "] rem[" + r(rem) + "]"
	return out, !bad
}

func canonLWW(s resources.LWWSet, stamps map[int64]int) (string, error) {
	if c, ok := canonLWWFast(s, stamps); ok {
		return c, nil
	}
	raw, err := s.GobEncode()
	if err != nil {
		return "", err
	}
	dec := gob.NewDecoder(bytes.NewReader(raw))
	part := func() (string, error) {
		var n int
		if err := dec.Decode(&n); err != nil {
			return "", err
		}
		var ps []string
		for i := 0; i < n; i++ {
			var e tla.Value
			var ts time.Time
			if err := dec.Decode(&e); err != nil {
				return "", err
			}
			if err := dec.Decode(&ts); err != nil {
				return "", err
			}
			// name the timestamp by the op that produced it (issue order), so that the
			// rendering does not depend on the wall clock
			ord, ok := stamps[ts.UnixNano()]
			if !ok {
				return "", fmt.Errorf("timestamp %v in the state was never issued by a write", ts)
			}
			ps = append(ps, fmt.Sprintf("%s@op%d", e.String(), ord))
		}
		sort.Strings(ps)
		return strings.Join(ps, ", "), nil
	}
	a, err := part()
	if err != nil {
		return "", err
	}
	r, err := part()
	if err != nil {
		return "", err
	}
	return "add[" + a + "] rem[" + r + "]", nil
}

func gobCopy(v resources.CRDTValue) (resources.CRDTValue, error) {
	var buf bytes.Buffer
	type box struct{ V resources.CRDTValue }
	if err := gob.NewEncoder(&buf).Encode(&box{v}); err != nil {
		return nil, err
	}
	var out box
	if err := gob.NewDecoder(&buf).Decode(&out); err != nil {
		return nil, err
	}
	return out.V, nil
}

// ---- generic history driver --------------------------------------------------------------

type op struct {
	id      int
	replica int
	add     bool // set types: add (true) / remove (false)
	elem    int
	amount  int32 // counter
	past    map[int]bool
}

type crdtKind struct {
	name  string
	init  func() resources.CRDTValue
	canon func(v resources.CRDTValue) (string, error)
	// apply performs the write on the real value
	apply func(v resources.CRDTValue, id tla.Value, o *op) resources.CRDTValue
	// expect computes the read a replica with this knowledge should see
	expect  func(ops []*op, know map[int]bool) tlx.Val
	genOp   func(t *rapid.T, o *op)
	isSet   bool
	counter bool
}

var elems = []tla.Value{tla.MakeString("e0"), tla.MakeNumber(1), tla.MakeTuple(tla.MakeNumber(2), tla.MakeString("x")), tla.MakeSet(tla.MakeNumber(3))}

func setCmd(add bool, elem int) tla.Value {
	cmd := int32(2)
	if add {
		cmd = 1
	}
	return tla.MakeRecord([]tla.RecordField{
		{Key: tla.MakeString("cmd"), Value: tla.MakeNumber(cmd)},
		{Key: tla.MakeString("elem"), Value: elems[elem]},
	})
}

func genSetOp(t *rapid.T, o *op) {
	o.add = rapid.IntRange(0, 9).Draw(t, "isAdd") < 6
	o.elem = rapid.IntRange(0, len(elems)-1).Draw(t, "elem")
}

func elemVal(i int) tlx.Val {
	v, _ := tlx.FromTLA(elems[i])
	return v
}

// add-wins: e is present iff some known add of e is not in the causal past of a known remove of e
func expectAddWins(ops []*op, know map[int]bool) tlx.Val {
	var out []tlx.Val
	for e := range elems {
		present := false
		for _, a := range ops {
			if !know[a.id] || !a.add || a.elem != e {
				continue
			}
			observed := false
			for _, r := range ops {
				if know[r.id] && !r.add && r.elem == e && r.past[a.id] {
					observed = true
					break
				}
			}
			if !observed {
				present = true
				break
			}
		}
		if present {
			out = append(out, elemVal(e))
		}
	}
	return tlx.Set(out...)
}

// last-writer-wins: the latest known op on e (issue order = op id) decides; ops are issued at distinct times
func expectLWW(ops []*op, know map[int]bool) tlx.Val {
	var out []tlx.Val
	for e := range elems {
		last := -1
		for _, o := range ops {
			if know[o.id] && o.elem == e && o.id > last {
				last = o.id
			}
		}
		if last >= 0 && ops[last].add {
			out = append(out, elemVal(e))
		}
	}
	return tlx.Set(out...)
}

func expectCounter(ops []*op, know map[int]bool) tlx.Val {
	var sum int64
	for _, o := range ops {
		if know[o.id] {
			sum += int64(o.amount)
		}
	}
	return tlx.Int(sum)
}

func genID(t *rapid.T, i int) tla.Value {
	switch rapid.IntRange(0, 4).Draw(t, "idkind") {
	case 0:
		return tla.MakeNumber(int32(i + 1))
	case 1:
		return tla.MakeString(fmt.Sprintf("node%d", i))
	case 2:
		return tla.MakeTuple(tla.MakeString("n"), tla.MakeNumber(int32(i)))
	case 3:
		return tla.MakeSet(tla.MakeNumber(int32(i)), tla.MakeNumber(int32(i+10)))
	default:
		return tla.MakeRecord([]tla.RecordField{{Key: tla.MakeString("id"), Value: tla.MakeNumber(int32(i))}})
	}
}

func runHistory(t *rapid.T, k crdtKind) {
	if vstat.OverBudget() {
		return
	}
	vstat.Case()
	n := rapid.IntRange(2, 5).Draw(t, "replicas")
	ids := make([]tla.Value, n)
	state := make([]resources.CRDTValue, n)
	know := make([]map[int]bool, n)
	for i := range ids {
		ids[i] = genID(t, i)
		state[i] = k.init()
		know[i] = map[int]bool{}
	}
	var ops []*op
	var hist strings.Builder
	threeWay, concurrentAddRem := false, false
	mergedFrom := make([]map[int]bool, n)
	for i := range mergedFrom {
		mergedFrom[i] = map[int]bool{}
	}
	canon := func(v resources.CRDTValue) string {
		s, err := k.canon(v)
		if err != nil {
			t.Fatalf("cannot read the state's wire image: %v\n%s", err, hist.String())
		}
		return s
	}
	read := func(v resources.CRDTValue) tlx.Val {
		var out tlx.Val
		if p := hx.Catch(func() {
			r, err := tlx.FromTLA(v.Read())
			if err != nil {
				t.Fatalf("Read returned a malformed value: %v\n%s", err, hist.String())
			}
			out = r
		}); p != nil {
			t.Fatalf("Read panicked: %v\n%s\n%s", p.Value, p.Stack, hist.String())
		}
		return out
	}
	merge := func(a, b resources.CRDTValue) resources.CRDTValue {
		var out resources.CRDTValue
		if p := hx.Catch(func() { out = a.Merge(b) }); p != nil {
			t.Fatalf("Merge panicked: %v\n%s\n%s", p.Value, p.Stack, hist.String())
		}
		return out
	}
	// concurrentAdds: within this knowledge, element e was added by two operations neither of
	// which knew the other (the shape the listed AWORSet finding needs in order to show)
	concurrentAdds := func(e int, kn map[int]bool) bool {
		for _, a := range ops {
			for _, b := range ops {
				if a.id < b.id && kn[a.id] && kn[b.id] && a.add && b.add && a.elem == e && b.elem == e && !b.past[a.id] {
					return true
				}
			}
		}
		return false
	}
	// blindRemove: within this knowledge, e was removed by a replica that knew no add of e at the time
	blindRemove := func(e int, kn map[int]bool) bool {
		for _, r := range ops {
			if !kn[r.id] || r.add || r.elem != e {
				continue
			}
			knewAdd := false
			for _, a := range ops {
				if a.add && a.elem == e && r.past[a.id] {
					knewAdd = true
				}
			}
			if !knewAdd {
				return true
			}
		}
		return false
	}
	knownAWOR := func(got, want tlx.Val, kn map[int]bool) bool {
		if k.name != "AWORSet" {
			return false
		}
		sig := ""
		for e := range elems {
			ev := elemVal(e)
			if got.Has(ev) == want.Has(ev) {
				continue
			}
			switch {
			case concurrentAdds(e, kn):
				sig = "AWORSet-read-wrong-after-concurrent-adds"
			case blindRemove(e, kn):
				sig = "AWORSet-read-wrong-after-blind-remove"
			default:
				return false
			}
		}
		return sig != "" && vstat.Known(sig)
	}
	checkReplica := func(i int, when string) {
		want := k.expect(ops, know[i])
		got := read(state[i])
		if !tlx.Equal(got, want) && !knownAWOR(got, want, know[i]) {
			t.Fatalf("%s: replica %d reads %s, its knowledge %v implies %s\nstate: %s\n%s", when, i, got, keys(know[i]), want, canon(state[i]), hist.String())
		}
	}
	t.Repeat(map[string]func(*rapid.T){
		"write": func(t *rapid.T) {
			i := rapid.IntRange(0, n-1).Draw(t, "at")
			o := &op{id: len(ops), replica: i, past: copySet(know[i])}
			k.genOp(t, o)
			if k.isSet {
				for _, p := range ops {
					if p.elem == o.elem && p.add != o.add && p.replica != i && !know[i][p.id] {
						concurrentAddRem = true
					}
				}
			}
			fmt.Fprintf(&hist, "op%d: replica %d (id %v) %s\n", o.id, i, ids[i], describe(k, o))
			before := state[i]
			if p := hx.Catch(func() { state[i] = k.apply(state[i], ids[i], o) }); p != nil {
				t.Fatalf("Write panicked: %v\n%s\n%s", p.Value, p.Stack, hist.String())
			}
			ops = append(ops, o)
			know[i][o.id] = true
			// a local update never moves the state down the merge order
			if got, want := canon(merge(before, state[i])), canon(state[i]); got != want {
				t.Fatalf("update is not an inflation: old ⊔ new = %s but new = %s\n%s", got, want, hist.String())
			}
			checkReplica(i, "after write")
		},
		"merge": func(t *rapid.T) {
			i := rapid.IntRange(0, n-1).Draw(t, "into")
			j := rapid.IntRange(0, n-1).Draw(t, "from")
			fmt.Fprintf(&hist, "merge: replica %d <- replica %d\n", i, j)
			state[i] = merge(state[i], state[j])
			for id := range know[j] {
				know[i][id] = true
			}
			if i != j {
				mergedFrom[i][j] = true
				if len(mergedFrom[i]) >= 2 {
					threeWay = true
				}
			}
			checkReplica(i, "after merge")
		},
		"gob": func(t *rapid.T) {
			i := rapid.IntRange(0, n-1).Draw(t, "at")
			fmt.Fprintf(&hist, "gob round trip of replica %d\n", i)
			before := canon(state[i])
			c, err := gobCopy(state[i])
			if err != nil {
				t.Fatalf("gob: %v\n%s", err, hist.String())
			}
			if after := canon(c); after != before {
				t.Fatalf("state changed over gob: %s -> %s\n%s", before, after, hist.String())
			}
			state[i] = c
			checkReplica(i, "after gob")
		},
		"laws": func(t *rapid.T) {
			a := state[rapid.IntRange(0, n-1).Draw(t, "a")]
			b := state[rapid.IntRange(0, n-1).Draw(t, "b")]
			c := state[rapid.IntRange(0, n-1).Draw(t, "c")]
			if x, y := canon(merge(a, b)), canon(merge(b, a)); x != y {
				t.Fatalf("merge is not commutative:\n a = %s\n b = %s\n a⊔b = %s\n b⊔a = %s\n%s", canon(a), canon(b), x, y, hist.String())
			}
			if x, y := canon(merge(merge(a, b), c)), canon(merge(a, merge(b, c))); x != y && !(k.name == "AWORSet" && vstat.Known("AWORSet-merge-not-associative")) {
				t.Fatalf("merge is not associative:\n a = %s\n b = %s\n c = %s\n (a⊔b)⊔c = %s\n a⊔(b⊔c) = %s\n%s", canon(a), canon(b), canon(c), x, y, hist.String())
			}
			if x, y := canon(merge(a, a)), canon(a); x != y {
				t.Fatalf("merge is not idempotent: a = %s, a⊔a = %s\n%s", y, x, hist.String())
			}
			if x, y := read(merge(a, b)), read(merge(b, a)); !tlx.Equal(x, y) {
				t.Fatalf("a⊔b and b⊔a read differently: %s vs %s\n%s", x, y, hist.String())
			}
		},
		"": func(t *rapid.T) {
			// replicas with equal knowledge read equal values
			for i := 0; i < n; i++ {
				for j := i + 1; j < n; j++ {
					if sameSet(know[i], know[j]) {
						if x, y := read(state[i]), read(state[j]); !tlx.Equal(x, y) && !knownAWOR(x, y, know[i]) {
							t.Fatalf("replicas %d and %d have received the same updates but read %s and %s\n%s", i, j, x, y, hist.String())
						}
					}
				}
			}
		},
	})
	nt := n >= 3 && threeWay
	if k.isSet {
		nt = nt && concurrentAddRem
	}
	if nt {
		h := k.name + "\n" + hist.String()
		vstat.NonTrivial(h, func() string { return h })
	}
	vstat.ClassN(k.name+".ops", int64(len(ops)))
}

func describe(k crdtKind, o *op) string {
	if k.counter {
		return fmt.Sprintf("increment by %d", o.amount)
	}
	if o.add {
		return fmt.Sprintf("add %v", elems[o.elem])
	}
	return fmt.Sprintf("remove %v", elems[o.elem])
}

func copySet(m map[int]bool) map[int]bool {
	c := make(map[int]bool, len(m))
	for k := range m {
		c[k] = true
	}
	return c
}

func sameSet(a, b map[int]bool) bool {
	if len(a) != len(b) {
		return false
	}
	for k := range a {
		if !b[k] {
			return false
		}
	}
	return true
}

func keys(m map[int]bool) []int {
	var ks []int
	for k := range m {
		ks = append(ks, k)
	}
	sort.Ints(ks)
	return ks
}

func TestC12GCounter(t *testing.T) {
	k := crdtKind{
		name:    "GCounter",
		counter: true,
		init:    func() resources.CRDTValue { return resources.GCounter{}.Init() },
		canon:   func(v resources.CRDTValue) (string, error) { return canonGCounter(v.(resources.GCounter)), nil },
		apply: func(v resources.CRDTValue, id tla.Value, o *op) resources.CRDTValue {
			return v.Write(id, tla.MakeNumber(o.amount))
		},
		expect: expectCounter,
		genOp:  func(t *rapid.T, o *op) { o.amount = int32(rapid.IntRange(0, 5).Draw(t, "amount")) },
	}
	rapid.Check(t, func(t *rapid.T) { runHistory(t, k) })
}

func TestC12AWORSet(t *testing.T) {
	k := crdtKind{
		name:  "AWORSet",
		isSet: true,
		init:  func() resources.CRDTValue { return resources.AWORSet{}.Init() },
		canon: func(v resources.CRDTValue) (string, error) { return canonAWOR(v.(resources.AWORSet)) },
		apply: func(v resources.CRDTValue, id tla.Value, o *op) resources.CRDTValue {
			return v.Write(id, setCmd(o.add, o.elem))
		},
		expect: expectAddWins,
		genOp:  genSetOp,
	}
	rapid.Check(t, func(t *rapid.T) { runHistory(t, k) })
}

func TestC12LWWSet(t *testing.T) {
	rapid.Check(t, func(t *rapid.T) {
		// the implementation stamps writes with time.Now(); writes are spaced until the clock
		// has visibly advanced, so issue order and timestamp order coincide (a precondition
		// on the inputs, not an oracle on time)
		stamps := map[int64]int{}
		var last time.Time
		k := crdtKind{
			name:  "LWWSet",
			isSet: true,
			init:  func() resources.CRDTValue { return resources.LWWSet{}.Init() },
			canon: func(v resources.CRDTValue) (string, error) { return canonLWW(v.(resources.LWWSet), stamps) },
			apply: func(v resources.CRDTValue, id tla.Value, o *op) resources.CRDTValue {
				for !time.Now().After(last) {
				}
				before := time.Now()
				for !time.Now().After(before) {
				}
				out := v.Write(id, setCmd(o.add, o.elem))
				after := time.Now()
				for !time.Now().After(after) {
				}
				last = time.Now()
				// learn the stamp the write took: the only timestamp in (before, after]
				raw, _ := out.(resources.LWWSet).GobEncode()
				learnStamps(raw, before, after, o.id, stamps)
				return out
			},
			expect: expectLWW,
			genOp:  genSetOp,
		}
		runHistory(t, k)
	})
}

func learnStamps(raw []byte, before, after time.Time, opID int, stamps map[int64]int) {
	dec := gob.NewDecoder(bytes.NewReader(raw))
	for part := 0; part < 2; part++ {
		var n int
		if dec.Decode(&n) != nil {
			return
		}
		for i := 0; i < n; i++ {
			var e tla.Value
			var ts time.Time
			if dec.Decode(&e) != nil || dec.Decode(&ts) != nil {
				return
			}
			if ts.After(before) && !ts.After(after) {
				stamps[ts.UnixNano()] = opID
			}
		}
	}
}
