package c17

// Nested-archetype resources that own SEVERAL nested contexts (NewNested's documented use: "many natural MPCal
// implementations involve multiple communicating processes"), some of which end on their own — reaching Done or
// failing an assertion after a drawn number of sections — while others keep running. TestC17Lifecycle's nested
// resource has one context, which never ends by itself.
//
// A case: a serving context (answers the resource protocol) and 0-2 helper contexts, each with a resource of its
// own and a drawn fate (runs until stopped / Done after k sections / assertion failure after k sections); an outer
// archetype that performs a drawn number of sections on the nested resource and then ends; 0-2 Stop calls of the
// outer context at drawn points; the order in which the helpers are allowed to end relative to the outer sections.
//
// Oracle: the outer Run returns and every Stop returns (10 s watchdog against millisecond-scale work); every resource
// of every nested context that started has then been closed exactly once — whatever ended the run; Run's result is
// nil when no helper ended by itself, and otherwise nil or an error that names the nested archetype's end
// (ErrNestedArchetypeStopped / the helper's assertion failure), never anything else.

import (
	"errors"
	"fmt"
	"runtime"
	"strings"
	"sync"
	"sync/atomic"
	"testing"
	"time"

	"github.com/DistCompiler/pgo/distsys"
	"github.com/DistCompiler/pgo/distsys/resources"
	"github.com/DistCompiler/pgo/distsys/tla"
	"pgregory.net/rapid"

	"verif/harness/vstat"
)

type countedLeaf struct {
	distsys.ArchetypeResourceLeafMixin
	name   string
	val    tla.Value
	old    tla.Value
	closes atomic.Int32
}

func (l *countedLeaf) ReadValue(distsys.ArchetypeInterface) (tla.Value, error) { return l.val, nil }
func (l *countedLeaf) WriteValue(_ distsys.ArchetypeInterface, v tla.Value) error {
	l.val = v
	return nil
}
func (l *countedLeaf) PreCommit(distsys.ArchetypeInterface) chan error { return nil }
func (l *countedLeaf) Commit(distsys.ArchetypeInterface) chan struct{} { l.old = l.val; return nil }
func (l *countedLeaf) Abort(distsys.ArchetypeInterface) chan struct{}  { l.val = l.old; return nil }
func (l *countedLeaf) Close() error                                    { l.closes.Add(1); return nil }

type helperFate int

const (
	fateRuns helperFate = iota
	fateDone
	fateAssert
)

func (f helperFate) String() string {
	return [...]string{"runs-until-stopped", "Done", "assertion-failure"}[f]
}

type groupCase struct {
	fates    []helperFate
	after    []int // helper h may end once the outer archetype has committed this many sections
	sections int
	stopsAt  []int // a Stop call is issued once this many outer sections have committed
}

func (c groupCase) String() string {
	var hs []string
	for i, f := range c.fates {
		if f == fateRuns {
			hs = append(hs, f.String())
		} else {
			hs = append(hs, fmt.Sprintf("%s-after-outer-section-%d", f, c.after[i]))
		}
	}
	return fmt.Sprintf("helpers=[%s] outer-sections=%d stops-after-sections=%v", strings.Join(hs, ", "), c.sections, c.stopsAt)
}

type groupResult struct {
	infra, fail string
	trace       string
}

func runGroup(c groupCase) groupResult {
	var mu sync.Mutex
	var tr strings.Builder
	logf := func(f string, a ...interface{}) {
		mu.Lock()
		fmt.Fprintf(&tr, f+"\n", a...)
		mu.Unlock()
	}
	var outerDone atomic.Int32 // outer sections committed
	endNow := make([]atomic.Bool, len(c.fates))
	windows := 0
	store := &countedLeaf{name: "server.store", val: tla.MakeNumber(0), old: tla.MakeNumber(0)}
	leaves := []*countedLeaf{store}
	started := make(chan struct{}, 8)
	tpeK, valueK := tla.MakeString("tpe"), tla.MakeString("value")
	res := resources.NewNested(func(sendCh chan<- tla.Value, receiveCh <-chan tla.Value) []*distsys.MPCalContext {
		serve := distsys.MPCalCriticalSection{Name: "N.serve", Body: func(iface distsys.ArchetypeInterface) error {
			in, err := iface.RequireArchetypeResourceRef("N.in")
			if err != nil {
				return err
			}
			out, err := iface.RequireArchetypeResourceRef("N.out")
			if err != nil {
				return err
			}
			st, err := iface.RequireArchetypeResourceRef("N.store")
			if err != nil {
				return err
			}
			req, err := iface.Read(in, nil)
			if err != nil {
				return err
			}
			cst := func(n string) tla.Value { return iface.GetConstant(n)() }
			tpe := req.ApplyFunction(tpeK)
			fs := []tla.RecordField{}
			switch {
			case tpe.Equal(cst("READ_REQ")):
				v, err := iface.Read(st, nil)
				if err != nil {
					return err
				}
				fs = append(fs, tla.RecordField{Key: tpeK, Value: cst("READ_ACK")}, tla.RecordField{Key: valueK, Value: v})
			case tpe.Equal(cst("WRITE_REQ")):
				if err := iface.Write(st, nil, req.ApplyFunction(valueK)); err != nil {
					return err
				}
				fs = append(fs, tla.RecordField{Key: tpeK, Value: cst("WRITE_ACK")})
			case tpe.Equal(cst("PRECOMMIT_REQ")):
				fs = append(fs, tla.RecordField{Key: tpeK, Value: cst("PRECOMMIT_ACK")})
			case tpe.Equal(cst("COMMIT_REQ")):
				fs = append(fs, tla.RecordField{Key: tpeK, Value: cst("COMMIT_ACK")})
			case tpe.Equal(cst("ABORT_REQ")):
				fs = append(fs, tla.RecordField{Key: tpeK, Value: cst("ABORT_ACK")})
			default:
				return fmt.Errorf("c17 nested group: unexpected request %v", req)
			}
			if err := iface.Write(out, nil, tla.MakeRecord(fs)); err != nil {
				return err
			}
			return iface.Goto("N.serve")
		}}
		ctxs := []*distsys.MPCalContext{distsys.NewMPCalContext(tla.MakeString("server"), distsys.MPCalArchetype{
			Name: "N", Label: "N.serve", RequiredRefParams: []string{"N.in", "N.out", "N.store"},
			JumpTable: distsys.MakeMPCalJumpTable(serve), ProcTable: distsys.MakeMPCalProcTable(),
			PreAmble: func(distsys.ArchetypeInterface) { started <- struct{}{} },
		}, resources.NestedArchetypeConstantDefs,
			distsys.EnsureArchetypeRefParam("in", resources.NewInputChan(receiveCh, resources.WithInputChanReadTimeout(2*time.Millisecond))),
			distsys.EnsureArchetypeRefParam("out", resources.NewOutputChan(sendCh)),
			distsys.EnsureArchetypeRefParam("store", store))}
		for h, fate := range c.fates {
			h, fate := h, fate
			leaf := &countedLeaf{name: fmt.Sprintf("helper%d.cell", h), val: tla.MakeNumber(0), old: tla.MakeNumber(0)}
			leaves = append(leaves, leaf)
			idle := make(chan tla.Value) // never fed: reading it times out, which aborts and retries the section
			body := distsys.MPCalCriticalSection{Name: "H.loop", Body: func(iface distsys.ArchetypeInterface) error {
				cell, err := iface.RequireArchetypeResourceRef("H.cell")
				if err != nil {
					return err
				}
				if err := iface.Write(cell, nil, tla.MakeNumber(1)); err != nil {
					return err
				}
				if fate != fateRuns && endNow[h].Load() {
					logf("helper %d ends (%s)", h, fate)
					if fate == fateDone {
						return iface.Goto("H.Done")
					}
					return fmt.Errorf("%w: helper %d's assertion", distsys.ErrAssertionFailed, h)
				}
				w, err := iface.RequireArchetypeResourceRef("H.wait")
				if err != nil {
					return err
				}
				if _, err := iface.Read(w, nil); err != nil {
					return err
				}
				return iface.Goto("H.loop")
			}}
			done := distsys.MPCalCriticalSection{Name: "H.Done", Body: func(distsys.ArchetypeInterface) error { return distsys.ErrDone }}
			ctxs = append(ctxs, distsys.NewMPCalContext(tla.MakeString(fmt.Sprintf("helper%d", h)), distsys.MPCalArchetype{
				Name: "H", Label: "H.loop", RequiredRefParams: []string{"H.cell", "H.wait"},
				JumpTable: distsys.MakeMPCalJumpTable(body, done), ProcTable: distsys.MakeMPCalProcTable(),
				PreAmble: func(distsys.ArchetypeInterface) { started <- struct{}{} },
			}, distsys.EnsureArchetypeRefParam("cell", leaf),
				distsys.EnsureArchetypeRefParam("wait", resources.NewInputChan(idle, resources.WithInputChanReadTimeout(time.Millisecond)))))
		}
		return ctxs
	})
	for i := 0; i < 1+len(c.fates); i++ {
		select {
		case <-started:
		case <-time.After(watchdog):
			return groupResult{infra: "nested contexts did not start"}
		}
	}
	// the outer archetype: `sections` sections of write+read on the nested resource, then Done
	var stops []chan struct{}
	var outer *distsys.MPCalContext
	stopIssued := 0
	maybeStop := func() {
		for stopIssued < len(c.stopsAt) && int(outerDone.Load()) >= c.stopsAt[stopIssued] {
			ch := make(chan struct{})
			stops = append(stops, ch)
			logf("Stop #%d issued after %d outer sections", stopIssued, outerDone.Load())
			stopIssued++
			go func() { outer.Stop(); close(ch) }()
		}
	}
	// window: between two sections of the outer archetype (it is inside the body of a label that does not touch the
	// nested resource) the helpers whose turn has come end, and the harness waits until the resource has noticed
	// (read through the verif hook VerifNestedStopped, so that no request of the harness's own is in flight). Nested contexts therefore never end while the
	// outer section is between pre-commit and commit, or aborting: there the resource panics by design of its
	// Commit/Abort (known finding nested-context-ends-during-commit-or-abort; TestC17NestedEndsDuringCommit).
	window := func(done int) string {
		any := false
		for h, f := range c.fates {
			if f != fateRuns && c.after[h] == done && !endNow[h].Load() {
				endNow[h].Store(true)
				any = true
			}
		}
		if !any {
			return ""
		}
		windows++
		vstat.Known(sigNestedCommitWindow) // counted: an ending steered away from the commit/abort window
		deadline := time.Now().Add(watchdog)
		for time.Now().Before(deadline) {
			if resources.VerifNestedStopped(res) {
				logf("after outer section %d: the nested resource has noticed that a nested context stopped", done)
				return ""
			}
			time.Sleep(200 * time.Microsecond)
		}
		return "INCONCLUSIVE (harness): a helper told to end was not reported as stopped within " + watchdog.String()
	}
	infra := ""
	k := 0
	first := true
	sec := distsys.MPCalCriticalSection{Name: "O.loop", Body: func(iface distsys.ArchetypeInterface) error {
		if first {
			first = false
			if m := window(0); m != "" {
				infra = m
				return distsys.ErrDone
			}
		}
		// the previous attempt committed if we are here with k advanced by the body; count commits by the value written
		if k >= c.sections {
			return iface.Goto("O.Done")
		}
		r, err := iface.RequireArchetypeResourceRef("O.crdt")
		if err != nil {
			return err
		}
		if err := iface.Write(r, nil, tla.MakeNumber(int32(k+1))); err != nil {
			return err
		}
		if _, err := iface.Read(r, nil); err != nil {
			return err
		}
		return iface.Goto("O.next")
	}}
	next := distsys.MPCalCriticalSection{Name: "O.next", Body: func(iface distsys.ArchetypeInterface) error {
		// reached only after O.loop committed
		k++
		outerDone.Store(int32(k))
		logf("outer section %d committed", k)
		maybeStop()
		if m := window(k); m != "" {
			infra = m
			return distsys.ErrDone
		}
		return iface.Goto("O.loop")
	}}
	odone := distsys.MPCalCriticalSection{Name: "O.Done", Body: func(distsys.ArchetypeInterface) error { return distsys.ErrDone }}
	outer = distsys.NewMPCalContext(tla.MakeString("outer"), distsys.MPCalArchetype{
		Name: "O", Label: "O.loop", RequiredRefParams: []string{"O.crdt"},
		JumpTable: distsys.MakeMPCalJumpTable(sec, next, odone), ProcTable: distsys.MakeMPCalProcTable(),
		PreAmble: func(distsys.ArchetypeInterface) {},
	}, distsys.EnsureArchetypeRefParam("crdt", res))
	runErr := make(chan error, 1)
	go func() {
		var err error
		defer func() {
			if p := recover(); p != nil {
				err = fmt.Errorf("Run panicked: %v", p)
			}
			runErr <- err
		}()
		err = outer.Run()
	}()
	var err error
	select {
	case err = <-runErr:
	case <-time.After(watchdog):
		return groupResult{fail: "the outer archetype's Run did not return within " + watchdog.String() + " (clean-up of the nested resource blocks)\n" + allStacks(), trace: tr.String()}
	}
	logf("Run returned %v", err)
	if infra != "" {
		return groupResult{infra: infra}
	}
	for i, ch := range stops {
		select {
		case <-ch:
		case <-time.After(watchdog):
			return groupResult{fail: fmt.Sprintf("Stop #%d did not return within %v", i, watchdog), trace: tr.String()}
		}
	}
	anyEnds := false
	for _, f := range c.fates {
		if f != fateRuns {
			anyEnds = true
		}
	}
	switch {
	case err == nil:
	case strings.Contains(err.Error(), "Run panicked"):
		return groupResult{fail: err.Error(), trace: tr.String()}
	case !anyEnds:
		return groupResult{fail: fmt.Sprintf("no nested context ended by itself, yet Run reported %v", err), trace: tr.String()}
	case errors.Is(err, resources.ErrNestedArchetypeStopped) || errors.Is(err, distsys.ErrAssertionFailed):
	default:
		return groupResult{fail: fmt.Sprintf("Run reported %v, which is neither normal termination nor the end of a nested archetype", err), trace: tr.String()}
	}
	// clean-up is finished when Run returns
	for _, l := range leaves {
		if n := l.closes.Load(); n != 1 {
			return groupResult{fail: fmt.Sprintf("after Run returned (%v), %s has been closed %d times (every configured resource of a started context is closed exactly once)", err, l.name, n), trace: tr.String()}
		}
	}
	return groupResult{trace: tr.String()}
}

func TestC17NestedGroup(t *testing.T) {
	rapid.Check(t, func(t *rapid.T) {
		if vstat.OverBudget() {
			return
		}
		vstat.Case()
		c := groupCase{sections: rapid.IntRange(0, 5).Draw(t, "sections")}
		for h, n := 0, rapid.IntRange(0, 2).Draw(t, "helpers"); h < n; h++ {
			c.fates = append(c.fates, helperFate(rapid.IntRange(0, 2).Draw(t, "fate")))
			c.after = append(c.after, rapid.IntRange(0, c.sections+1).Draw(t, "ends-after"))
		}
		// Stop calls come once the run has started (a context stopped before Run never starts and closes nothing:
		// TestC17Lifecycle covers that)
		for s, n := 0, rapid.IntRange(0, 2).Draw(t, "stops"); s < n && c.sections > 0; s++ {
			c.stopsAt = append(c.stopsAt, rapid.IntRange(1, c.sections).Draw(t, "stop-after"))
		}
		for i := 1; i < len(c.stopsAt); i++ {
			if c.stopsAt[i] < c.stopsAt[i-1] {
				c.stopsAt[i] = c.stopsAt[i-1]
			}
		}
		r := runGroup(c)
		if r.infra != "" {
			t.Fatalf("INCONCLUSIVE: %s", r.infra)
		}
		if r.fail != "" {
			t.Fatalf("%s\ncase: %s\n%s", r.fail, c, r.trace)
		}
		ends, runs := 0, 0
		for i, f := range c.fates {
			if f == fateRuns {
				runs++
			} else if c.after[i] <= c.sections {
				ends++
			}
		}
		vstat.Class(fmt.Sprintf("nestedgroup.helpers.%d", len(c.fates)))
		if ends > 0 && runs > 0 {
			vstat.NonTrivial("nestedgroup|"+c.String(), func() string { return "nested group: " + c.String() + "\n" + r.trace })
		}
	})
}

func allStacks() string {
	buf := make([]byte, 1<<20)
	n := runtime.Stack(buf, true)
	s := string(buf[:n])
	if len(s) > 6000 {
		s = s[:6000] + "\n…"
	}
	return s
}
