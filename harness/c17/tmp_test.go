package c17

import (
	"fmt"
	"testing"
)

type tf struct{ t *testing.T }

func (f tf) Fatalf(format string, a ...any) {
	s := fmt.Sprintf(format, a...)
	if len(s) > 1500 {
		s = s[:1500]
	}
	f.t.Log(s)
	panic("fatal")
}

func try(t *testing.T, name string, sc *scenario) {
	defer func() {
		if r := recover(); r != nil {
			t.Logf("%s: FAILED", name)
		} else {
			t.Logf("%s: passed", name)
		}
	}()
	runCase(tf{t}, sc)
}

func TestTmp(t *testing.T) {
	base := func() *scenario {
		return &scenario{binds: []binding{{kind: bLeaf, name: "r0"}}, labels: [][]op{{{bind: 0, write: true}}}, loops: 1, ending: eDone}
	}
	sc := base()
	sc.stops = []int{pCleanup, pCleanup}
	sc.closeGate = "r0"
	try(t, "two stops in cleanup", sc)
	sc = base()
	sc.stops = []int{pCleanup}
	sc.closeGate = "r0"
	try(t, "one stop in cleanup", sc)
	sc = base()
	sc.stops = []int{pBody, pCleanup}
	sc.closeGate = "r0"
	try(t, "one body one cleanup", sc)
	sc = base()
	sc.stops = []int{pBody, pCleanup, pCleanup}
	sc.closeGate = "r0"
	try(t, "one body two cleanup", sc)
	sc = base()
	sc.stops = []int{pBody, pBody}
	sc.pinLabel = 2
	try(t, "two body at Done label", sc)
	sc = base()
	sc.stops = []int{pBody, pBody}
	try(t, "two body at l0", sc)
	sc = base()
	sc.secondRun = true
	try(t, "second run after Done", sc)
	sc = base()
	sc.secondRun = true
	sc.ending = eAssert
	try(t, "second run after assert", sc)
	sc = base()
	sc.secondRun = true
	sc.ending = eForever
	sc.stops = []int{pBody}
	try(t, "second run after forever+Stop in body", sc)
	sc = base()
	sc.secondRun = true
	sc.stops = []int{pAfter}
	try(t, "second run after Done + Stop after", sc)
}
