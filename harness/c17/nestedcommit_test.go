package c17

// Known finding nested-context-ends-during-commit-or-abort, as a fixed history run in a child process (it ends the
// process): a nested-archetype resource owns a serving context and a helper; the containing section writes and
// pre-commits; the helper reaches Done; the section's Commit then panics inside the resource ("a nested archetype has
// stopped, preventing this resource API request from being serviced") instead of Run reporting a resource error —
// Commit and Abort of the ArchetypeResource interface have no way to report one. TestC17NestedGroup keeps nested
// contexts from ending inside that window (by construction; counted), so that it can go on looking for other
// violations.

import (
	"fmt"
	"os"
	"os/exec"
	"strings"
	"sync/atomic"
	"testing"
	"time"

	"github.com/DistCompiler/pgo/distsys"
	"github.com/DistCompiler/pgo/distsys/resources"
	"github.com/DistCompiler/pgo/distsys/tla"

	"verif/harness/vstat"
)

const sigNestedCommitWindow = "nested-context-ends-during-commit-or-abort"

func TestC17NestedEndsDuringCommit(t *testing.T) {
	if os.Getenv("VERIF_C17_CHILD") == "1" {
		nestedCommitWindowChild()
		return
	}
	vstat.Case()
	cmd := exec.Command(os.Args[0], "-test.run=^TestC17NestedEndsDuringCommit$", "-test.timeout=60s")
	cmd.Env = append(os.Environ(), "VERIF_C17_CHILD=1", "VERIF_STATS_OUT=")
	out, err := cmd.CombinedOutput()
	o := string(out)
	switch {
	case err == nil && strings.Contains(o, "CHILD-COMMIT-RETURNED"):
		vstat.Class("nested-commit-window.commit-returned")
	case strings.Contains(o, "a nested archetype has stopped") && strings.Contains(o, "panic"):
		if !vstat.Known(sigNestedCommitWindow) {
			t.Fatalf("a nested context that ends between the containing section's pre-commit and commit panics the process:\n%s", tail(o, 2500))
		}
	case strings.Contains(o, "CHILD-INCONCLUSIVE"):
		t.Fatalf("INCONCLUSIVE: %s", tail(o, 1500))
	default:
		t.Fatalf("INCONCLUSIVE: the child process ended unexpectedly: %v\n%s", err, tail(o, 2500))
	}
}

func tail(s string, n int) string {
	if len(s) > n {
		return "…" + s[len(s)-n:]
	}
	return s
}

func nestedCommitWindowChild() {
	var end atomic.Bool
	started := make(chan struct{}, 2)
	tpeK := tla.MakeString("tpe")
	res := resources.NewNested(func(sendCh chan<- tla.Value, receiveCh <-chan tla.Value) []*distsys.MPCalContext {
		serve := distsys.MPCalCriticalSection{Name: "N.serve", Body: func(iface distsys.ArchetypeInterface) error {
			in, err := iface.RequireArchetypeResourceRef("N.in")
			if err != nil {
				return err
			}
			out, err := iface.RequireArchetypeResourceRef("N.out")
			if err != nil {
				return err
			}
			req, err := iface.Read(in, nil)
			if err != nil {
				return err
			}
			ack := map[string]string{"read_req": "READ_ACK", "write_req": "WRITE_ACK", "precommit_req": "PRECOMMIT_ACK", "commit_req": "COMMIT_ACK", "abort_req": "ABORT_ACK"}[req.ApplyFunction(tpeK).AsString()]
			fs := []tla.RecordField{{Key: tpeK, Value: iface.GetConstant(ack)()}}
			if ack == "READ_ACK" {
				fs = append(fs, tla.RecordField{Key: tla.MakeString("value"), Value: tla.MakeNumber(0)})
			}
			if err := iface.Write(out, nil, tla.MakeRecord(fs)); err != nil {
				return err
			}
			return iface.Goto("N.serve")
		}}
		idle := make(chan tla.Value)
		helper := distsys.MPCalCriticalSection{Name: "H.loop", Body: func(iface distsys.ArchetypeInterface) error {
			if end.Load() {
				return iface.Goto("H.Done")
			}
			w, err := iface.RequireArchetypeResourceRef("H.wait")
			if err != nil {
				return err
			}
			if _, err := iface.Read(w, nil); err != nil {
				return err
			}
			return iface.Goto("H.loop")
		}}
		hdone := distsys.MPCalCriticalSection{Name: "H.Done", Body: func(distsys.ArchetypeInterface) error { return distsys.ErrDone }}
		return []*distsys.MPCalContext{
			distsys.NewMPCalContext(tla.MakeString("server"), distsys.MPCalArchetype{Name: "N", Label: "N.serve", RequiredRefParams: []string{"N.in", "N.out"},
				JumpTable: distsys.MakeMPCalJumpTable(serve), ProcTable: distsys.MakeMPCalProcTable(), PreAmble: func(distsys.ArchetypeInterface) { started <- struct{}{} }},
				resources.NestedArchetypeConstantDefs,
				distsys.EnsureArchetypeRefParam("in", resources.NewInputChan(receiveCh, resources.WithInputChanReadTimeout(2*time.Millisecond))),
				distsys.EnsureArchetypeRefParam("out", resources.NewOutputChan(sendCh))),
			distsys.NewMPCalContext(tla.MakeString("helper"), distsys.MPCalArchetype{Name: "H", Label: "H.loop", RequiredRefParams: []string{"H.wait"},
				JumpTable: distsys.MakeMPCalJumpTable(helper, hdone), ProcTable: distsys.MakeMPCalProcTable(), PreAmble: func(distsys.ArchetypeInterface) { started <- struct{}{} }},
				distsys.EnsureArchetypeRefParam("wait", resources.NewInputChan(idle, resources.WithInputChanReadTimeout(time.Millisecond)))),
		}
	})
	for i := 0; i < 2; i++ {
		select {
		case <-started:
		case <-time.After(20 * time.Second):
			fmt.Println("CHILD-INCONCLUSIVE: nested contexts did not start")
			return
		}
	}
	iface := distsys.NewMPCalContext(tla.MakeString("outer"), distsys.MPCalArchetype{Name: "O", Label: "O.l",
		JumpTable: distsys.MakeMPCalJumpTable(), ProcTable: distsys.MakeMPCalProcTable(), PreAmble: func(distsys.ArchetypeInterface) {}}).IFace()
	if err := res.WriteValue(iface, tla.MakeNumber(1)); err != nil {
		fmt.Println("CHILD-INCONCLUSIVE: write:", err)
		return
	}
	if err := <-res.PreCommit(iface); err != nil {
		fmt.Println("CHILD-INCONCLUSIVE: pre-commit:", err)
		return
	}
	end.Store(true)
	for deadline := time.Now().Add(20 * time.Second); !resources.VerifNestedStopped(res); {
		if time.Now().After(deadline) {
			fmt.Println("CHILD-INCONCLUSIVE: the helper's end was not noticed")
			return
		}
		time.Sleep(time.Millisecond)
	}
	done := res.Commit(iface) // on the pinned tree: panics on a goroutine of the resource
	select {
	case <-done:
		fmt.Println("CHILD-COMMIT-RETURNED")
	case <-time.After(20 * time.Second):
		fmt.Println("CHILD-INCONCLUSIVE: Commit neither returned nor panicked")
	}
}
