// C17 — Run/Stop/Close lifecycle: stops cleanly, never deadlocks, closes once.
//
// Generated scenarios on real MPCalContexts: a mix of instrumented resources (plain leaves,
// IncMap / HashMap of leaves, local variables, a nested context), a tiny looping program with a
// drawn ending, and 0-6 Stop calls, each from its own goroutine and pinned by gates to a phase of
// the run (before Run, inside a body, during commit, during a blocked Close, after Run returned).
//
// The schedule is controlled by gates inside the harness's own code (bodies, instrumented Commit,
// instrumented Close). The one thing no public seam exposes is "this Stop call has reached its
// blocking point inside Stop"; the harness reads that from the goroutine's scheduler state
// (runtime.Stack): a gate is only opened once every Stop call in flight is parked on a channel or
// mutex inside MPCalContext.Stop. No sleep decides a schedule.
package c17

import (
	"errors"
	"fmt"
	"io"
	"log"
	"reflect"
	"runtime"
	"sort"
	"strconv"
	"strings"
	"sync"
	"sync/atomic"
	"testing"
	"time"
	"unsafe"

	"github.com/DistCompiler/pgo/distsys"
	"github.com/DistCompiler/pgo/distsys/hashmap"
	"github.com/DistCompiler/pgo/distsys/resources"
	"github.com/DistCompiler/pgo/distsys/tla"
	"github.com/DistCompiler/pgo/distsys/trace"
	"pgregory.net/rapid"

	"verif/harness/hx"
	"verif/harness/vstat"
)

func TestMain(m *testing.M) {
	log.SetOutput(io.Discard)
	vstat.Main(m, "C17")
}

const watchdog = 10 * time.Second

const (
	sigStopDeadlock = "Stop-concurrent-calls-deadlock"
	sigSecondRun    = "second-Run-after-completion"
)

// ---------------------------------------------------------------------------------------------
// scenario
// ---------------------------------------------------------------------------------------------

const (
	bLeaf = iota
	bIncMap
	bHashMap
	bLocal
	bNested
)

var kindNames = []string{"leaf", "incmap", "hashmap", "local", "nested"}

const (
	eDone       = iota // reach Done
	eForever           // loop (committing) until stopped
	eAwait             // an await that never holds: the end label aborts for ever, until stopped
	eAssert            // failing assertion
	eErrorLabel        // reach the Error label
	eReadErr           // a resource fails a read
	eWriteErr          // a resource fails a write
	ePreErr            // a resource fails its pre-commit
)

var endingNames = []string{"Done", "forever", "await-forever", "assertion", "Error-label", "read-error", "write-error", "precommit-error"}

const (
	pBefore = iota
	pBody
	pCommit
	pCleanup
	pAfter
)

var phaseNames = []string{"before-Run", "in-body", "in-commit", "in-cleanup", "after-Run"}

type binding struct {
	kind  int
	name  string
	elems int // maps: size of the index universe (HashMap: all pre-filled)
}

type op struct {
	bind  int
	idx   int
	write bool
}

type scenario struct {
	binds     []binding
	labels    [][]op
	loops     int
	ending    int
	endOps    []op
	failOp    op       // eReadErr/eWriteErr/ePreErr: the operation that fails
	closeErrs []string // leaves whose Close returns an error
	stops     []int    // phase per Stop call
	pinLabel  int      // 0..n-1 regular label, n = end label, n+1 = terminal (Done/Error) label
	pinIter   int
	closeGate string // leaf whose Close blocks until the harness opens the gate ("" = none)
	secondRun bool
}

func (sc *scenario) isMap(b int) bool { k := sc.binds[b].kind; return k == bIncMap || k == bHashMap }
func (sc *scenario) isLeafish(b int) bool {
	k := sc.binds[b].kind
	return k == bLeaf || k == bIncMap || k == bHashMap
}

func (sc *scenario) leafName(o op) string {
	b := sc.binds[o.bind]
	if sc.isMap(o.bind) {
		return fmt.Sprintf("%s[%d]", b.name, o.idx)
	}
	if b.kind == bNested {
		return b.name + ".store"
	}
	return b.name
}

func (sc *scenario) opString(o op) string {
	b := sc.binds[o.bind]
	s := b.name
	if sc.isMap(o.bind) {
		s += fmt.Sprintf("[%d]", o.idx)
	}
	if o.write {
		return s + ":=…"
	}
	return "read " + s
}

func (sc *scenario) opsString(ops []op) string {
	var ps []string
	for _, o := range ops {
		ps = append(ps, sc.opString(o))
	}
	return strings.Join(ps, "; ")
}

func (sc *scenario) nStops(phase int) int {
	n := 0
	for _, p := range sc.stops {
		if p == phase {
			n++
		}
	}
	return n
}

func (sc *scenario) pinString() string {
	n := len(sc.labels)
	switch {
	case sc.pinLabel < n:
		return fmt.Sprintf("l%d (iteration %d)", sc.pinLabel, sc.pinIter)
	case sc.pinLabel == n:
		return "end label"
	default:
		return "terminal label"
	}
}

func (sc *scenario) String() string {
	var sb strings.Builder
	sb.WriteString("bindings:")
	for _, b := range sc.binds {
		fmt.Fprintf(&sb, " %s=%s", b.name, kindNames[b.kind])
		if b.elems > 0 {
			fmt.Fprintf(&sb, "(%d)", b.elems)
		}
	}
	sb.WriteString("\nprogram:\n")
	for i, l := range sc.labels {
		fmt.Fprintf(&sb, "  l%d: %s\n", i, sc.opsString(l))
	}
	if sc.ending == eForever {
		sb.WriteString("  loop l0..: for ever\n")
	} else {
		fmt.Fprintf(&sb, "  loop l0..: %d time(s), then end: %s", sc.loops, sc.opsString(sc.endOps))
		switch sc.ending {
		case eReadErr, eWriteErr, ePreErr:
			fmt.Fprintf(&sb, " then [%s fails on %s]", endingNames[sc.ending], sc.leafName(sc.failOp))
		}
		sb.WriteString("\n")
	}
	fmt.Fprintf(&sb, "ending: %s\n", endingNames[sc.ending])
	var ps []string
	for _, p := range sc.stops {
		ps = append(ps, phaseNames[p])
	}
	fmt.Fprintf(&sb, "stops(%d): %s\n", len(sc.stops), strings.Join(ps, ", "))
	if sc.nStops(pBody)+sc.nStops(pCommit) > 0 {
		fmt.Fprintf(&sb, "body/commit gate at: %s\n", sc.pinString())
	}
	if sc.closeGate != "" {
		fmt.Fprintf(&sb, "slow clean-up: Close of %s blocks until released\n", sc.closeGate)
	}
	if len(sc.closeErrs) > 0 {
		fmt.Fprintf(&sb, "Close returns an error on: %s\n", strings.Join(sc.closeErrs, ", "))
	}
	fmt.Fprintf(&sb, "second Run: %v\n", sc.secondRun)
	return sb.String()
}

func genOp(t *rapid.T, sc *scenario, allowNested bool) op {
	b := rapid.IntRange(0, len(sc.binds)-1).Draw(t, "opBind")
	if !allowNested && sc.binds[b].kind == bNested {
		b = 0 // binding 0 is always a plain leaf
	}
	o := op{bind: b}
	if sc.isMap(b) {
		o.idx = rapid.IntRange(0, sc.binds[b].elems-1).Draw(t, "opIdx")
	}
	o.write = rapid.Bool().Draw(t, "opWrite")
	return o
}

func genScenario(t *rapid.T) *scenario {
	sc := &scenario{}
	nb := rapid.IntRange(2, 6).Draw(t, "bindings")
	haveNested := false
	for i := 0; i < nb; i++ {
		k := bLeaf
		if i > 0 {
			k = rapid.SampledFrom([]int{bLeaf, bLeaf, bIncMap, bIncMap, bHashMap, bHashMap, bLocal, bNested}).Draw(t, "kind")
			if k == bNested {
				if haveNested {
					k = bLeaf
				}
				haveNested = true
			}
		}
		b := binding{kind: k, name: fmt.Sprintf("r%d", i)}
		if k == bIncMap || k == bHashMap {
			b.elems = rapid.IntRange(2, 3).Draw(t, "elems")
		}
		sc.binds = append(sc.binds, b)
	}

	sc.ending = rapid.SampledFrom([]int{eDone, eDone, eForever, eForever, eAwait, eAssert, eErrorLabel, eReadErr, eWriteErr, ePreErr}).Draw(t, "ending")
	nl := rapid.IntRange(1, 4).Draw(t, "labels")
	for i := 0; i < nl; i++ {
		no := rapid.IntRange(1, 3).Draw(t, "ops")
		var ops []op
		for j := 0; j < no; j++ {
			ops = append(ops, genOp(t, sc, true))
		}
		sc.labels = append(sc.labels, ops)
	}
	sc.loops = rapid.IntRange(1, 3).Draw(t, "loops")
	if sc.ending != eForever {
		ne := rapid.IntRange(0, 2).Draw(t, "endOps")
		for j := 0; j < ne; j++ {
			// a section whose pre-commit is made to fail touches no nested context, so that the
			// only refusal it can meet is the injected one
			sc.endOps = append(sc.endOps, genOp(t, sc, sc.ending != ePreErr))
		}
	}
	switch sc.ending {
	case eReadErr, eWriteErr, ePreErr:
		var cands []int
		for i := range sc.binds {
			if sc.isLeafish(i) {
				cands = append(cands, i)
			}
		}
		b := rapid.SampledFrom(cands).Draw(t, "failBind")
		sc.failOp = op{bind: b, write: sc.ending != eReadErr}
		if sc.isMap(b) {
			sc.failOp.idx = rapid.IntRange(0, sc.binds[b].elems-1).Draw(t, "failIdx")
		}
	}

	// Stop calls
	ns := rapid.IntRange(0, 6).Draw(t, "stops")
	nBefore := rapid.SampledFrom([]int{0, 0, 0, 0, 0, 0, 0, 1, 2, 3}).Draw(t, "stopsBeforeRun")
	for i := 0; i < ns; i++ {
		ph := rapid.SampledFrom([]int{pBody, pBody, pCommit, pCleanup, pCleanup, pCleanup, pAfter}).Draw(t, "phase")
		if i < nBefore {
			ph = pBefore
		}
		sc.stops = append(sc.stops, ph)
	}
	// a Stop that returned before Run means the run never starts: the in-run phases cannot be
	// reached, so the remaining calls are made afterwards
	if sc.nStops(pBefore) > 0 {
		for i, p := range sc.stops {
			if p == pBody || p == pCommit || p == pCleanup {
				sc.stops[i] = pAfter
			}
		}
	}
	// endings that only a Stop can end need one while the archetype runs (or before it)
	if (sc.ending == eForever || sc.ending == eAwait) && sc.nStops(pBefore)+sc.nStops(pBody)+sc.nStops(pCommit) == 0 {
		sc.stops = append([]int{pBody}, sc.stops...)
		if len(sc.stops) > 6 {
			sc.stops = sc.stops[:6]
		}
	}

	// where the body / commit gate sits
	sc.pinLabel = rapid.IntRange(0, nl+1).Draw(t, "pinLabel")
	sc.pinIter = rapid.IntRange(0, 2).Draw(t, "pinIter")
	hasTerminal := sc.ending == eDone || sc.ending == eErrorLabel
	if sc.pinLabel == nl+1 && !hasTerminal {
		sc.pinLabel = nl
	}
	if sc.pinLabel == nl && sc.ending == eForever {
		sc.pinLabel = 0
	}
	if sc.nStops(pCommit) > 0 {
		// the commit gate lives in an instrumented leaf's Commit: the pinned section must be a
		// regular label (it commits) that touches a leaf
		ok := func(l int) bool {
			if l >= nl {
				return false
			}
			for _, o := range sc.labels[l] {
				if sc.isLeafish(o.bind) {
					return true
				}
			}
			return false
		}
		if !ok(sc.pinLabel) {
			found := -1
			for l := 0; l < nl; l++ {
				if ok(l) {
					found = l
					break
				}
			}
			if found >= 0 {
				sc.pinLabel = found
			} else {
				for i, p := range sc.stops {
					if p == pCommit {
						sc.stops[i] = pBody
					}
				}
			}
		}
	}
	if sc.pinLabel < nl {
		if sc.ending != eForever && sc.pinIter >= sc.loops {
			sc.pinIter = sc.loops - 1
		}
	} else {
		sc.pinIter = 0
	}

	// slow clean-up: which leaf's Close blocks. Candidates are leaves certain to exist once the run
	// has started: plain leaves, HashMap elements, IncMap elements touched by l0, the nested store.
	var cands []string
	seen := map[string]bool{}
	add := func(s string) {
		if !seen[s] {
			seen[s] = true
			cands = append(cands, s)
		}
	}
	for i, b := range sc.binds {
		switch b.kind {
		case bLeaf:
			add(b.name)
		case bHashMap:
			for e := 0; e < b.elems; e++ {
				add(fmt.Sprintf("%s[%d]", b.name, e))
			}
		case bNested:
			add(b.name + ".store")
		case bIncMap:
			for _, o := range sc.labels[0] {
				if o.bind == i {
					add(sc.leafName(o))
				}
			}
		}
	}
	slow := rapid.IntRange(0, 3).Draw(t, "slowCleanup") == 0
	cg := rapid.SampledFrom(cands).Draw(t, "closeGate")
	if (sc.nStops(pCleanup) > 0 || slow) && sc.nStops(pBefore) == 0 {
		sc.closeGate = cg
	}

	// Close errors
	for _, name := range sc.potentialLeaves() {
		if rapid.IntRange(0, 9).Draw(t, "closeErr") == 0 {
			sc.closeErrs = append(sc.closeErrs, name)
		}
	}
	sc.secondRun = rapid.IntRange(0, 2).Draw(t, "secondRun") == 0
	return sc
}

func (sc *scenario) potentialLeaves() []string {
	var out []string
	for _, b := range sc.binds {
		switch b.kind {
		case bLeaf:
			out = append(out, b.name)
		case bIncMap, bHashMap:
			for e := 0; e < b.elems; e++ {
				out = append(out, fmt.Sprintf("%s[%d]", b.name, e))
			}
		case bNested:
			out = append(out, b.name+".store")
		}
	}
	return out
}

// ---------------------------------------------------------------------------------------------
// run-time state, gates, instrumented leaf
// ---------------------------------------------------------------------------------------------

type gate struct {
	rt      *rtState
	name    string
	used    atomic.Bool
	entered atomic.Bool
	open    chan struct{}
	once    sync.Once
}

func (g *gate) release() { g.once.Do(func() { close(g.open) }) }

// wait is called by code under the run; only the first caller blocks.
func (g *gate) wait() {
	if !g.used.CompareAndSwap(false, true) {
		return
	}
	g.entered.Store(true)
	g.rt.poke()
	<-g.open // always released: by the schedule, or by the case's clean-up
}

type stopCall struct {
	id       int
	phase    int
	goid     int64
	returned atomic.Bool
}

type rtState struct {
	sc  *scenario
	ctx *distsys.MPCalContext

	mu     sync.Mutex
	viol   []string
	leaves []*leaf

	nestedRes []distsys.ArchetypeResource

	wake chan struct{}

	preambles   atomic.Int32
	secondRun   atomic.Bool
	secondBody  atomic.Int32
	stopReturn  atomic.Bool // some Stop call has returned
	stopPosted  atomic.Bool // a Stop request is in flight since an earlier attempt
	commits     atomic.Int32
	aborts      atomic.Int32
	endArmed    atomic.Bool
	endingFired atomic.Bool
	commitArmed atomic.Bool

	gates [5]*gate

	runLaunched bool
	runGoid     atomic.Int64
	runReturned atomic.Bool
	runErr      error

	stops    []*stopCall
	buildErr string
	rescued  bool
	leaked   bool
	setAside bool
}

func (rt *rtState) poke() {
	select {
	case rt.wake <- struct{}{}:
	default:
	}
}

func (rt *rtState) violate(format string, a ...any) {
	rt.mu.Lock()
	rt.viol = append(rt.viol, fmt.Sprintf(format, a...))
	rt.mu.Unlock()
}

func (rt *rtState) violations() []string {
	rt.mu.Lock()
	defer rt.mu.Unlock()
	return append([]string(nil), rt.viol...)
}

type leaf struct {
	distsys.ArchetypeResourceLeafMixin
	rt   *rtState
	name string

	val, old tla.Value

	closes       atomic.Int32
	closesSecond atomic.Int32

	injErr   error
	closeErr error

	failRead, failWrite, failPre bool
	gateClose                    bool
	gateCommit                   bool // may host the commit gate (outer context's leaves only)
}

var _ distsys.ArchetypeResource = &leaf{}

func (rt *rtState) newLeaf(name string, outer bool) *leaf {
	sc := rt.sc
	l := &leaf{rt: rt, name: name, val: tla.MakeNumber(0), old: tla.MakeNumber(0), gateCommit: outer}
	l.injErr = fmt.Errorf("c17: injected failure of %s", name)
	for _, n := range sc.closeErrs {
		if n == name {
			l.closeErr = fmt.Errorf("c17: Close of %s failed", name)
		}
	}
	l.gateClose = sc.closeGate == name
	switch sc.ending {
	case eReadErr, eWriteErr, ePreErr:
		if sc.leafName(sc.failOp) == name {
			l.failRead = sc.ending == eReadErr
			l.failWrite = sc.ending == eWriteErr
			l.failPre = sc.ending == ePreErr
		}
	}
	rt.mu.Lock()
	rt.leaves = append(rt.leaves, l)
	rt.mu.Unlock()
	return l
}

func (l *leaf) ReadValue(distsys.ArchetypeInterface) (tla.Value, error) {
	if l.failRead && l.rt.endArmed.Load() {
		l.rt.endingFired.Store(true)
		return tla.Value{}, l.injErr
	}
	return l.val, nil
}

func (l *leaf) WriteValue(_ distsys.ArchetypeInterface, v tla.Value) error {
	if l.failWrite && l.rt.endArmed.Load() {
		l.rt.endingFired.Store(true)
		return l.injErr
	}
	l.val = v.StripVClock()
	return nil
}

func (l *leaf) PreCommit(distsys.ArchetypeInterface) chan error {
	if l.failPre && l.rt.endArmed.Load() {
		l.rt.endingFired.Store(true)
		ch := make(chan error, 1)
		ch <- l.injErr
		return ch
	}
	return nil
}

func (l *leaf) Commit(distsys.ArchetypeInterface) chan struct{} {
	l.old = l.val
	if l.gateCommit && l.rt.commitArmed.CompareAndSwap(true, false) {
		ch := make(chan struct{}, 1)
		g := l.rt.gates[pCommit]
		go func() {
			g.wait()
			ch <- struct{}{}
		}()
		return ch
	}
	return nil
}

func (l *leaf) Abort(distsys.ArchetypeInterface) chan struct{} {
	l.val = l.old
	return nil
}

func (l *leaf) Close() error {
	l.closes.Add(1)
	if l.rt.secondRun.Load() {
		l.closesSecond.Add(1)
	}
	if l.gateClose {
		if g := l.rt.gates[pCleanup]; g != nil {
			g.wait()
		}
	}
	return l.closeErr
}

type recorder struct{ rt *rtState }

func (r recorder) RecordEvent(ev trace.Event) {
	if ev.IsAbort {
		r.rt.aborts.Add(1)
		return
	}
	r.rt.commits.Add(1)
	if r.rt.stopReturn.Load() {
		r.rt.violate("a critical section committed after a Stop call had returned")
	}
}

var errSecondRun = errors.New("c17: a critical section was entered by a second Run")

// ---------------------------------------------------------------------------------------------
// building the context
// ---------------------------------------------------------------------------------------------

func (rt *rtState) newNested(name string) distsys.ArchetypeResource {
	store := rt.newLeaf(name+".store", false)
	started := make(chan struct{})
	res := resources.NewNested(func(sendCh chan<- tla.Value, receiveCh <-chan tla.Value) []*distsys.MPCalContext {
		tpeK, valueK := tla.MakeString("tpe"), tla.MakeString("value")
		ack := func(iface distsys.ArchetypeInterface, out distsys.ArchetypeResourceHandle, c string, extra ...tla.RecordField) error {
			fs := append([]tla.RecordField{{Key: tpeK, Value: iface.GetConstant(c)()}}, extra...)
			return iface.Write(out, nil, tla.MakeRecord(fs))
		}
		serve := distsys.MPCalCriticalSection{
			Name: "N.serve",
			Body: func(iface distsys.ArchetypeInterface) error {
				in, err := iface.RequireArchetypeResourceRef("N.in")
				if err != nil {
					return err
				}
				out, err := iface.RequireArchetypeResourceRef("N.out")
				if err != nil {
					return err
				}
				st, err := iface.RequireArchetypeResourceRef("N.store")
				if err != nil {
					return err
				}
				req, err := iface.Read(in, nil)
				if err != nil {
					return err
				}
				tpe := req.ApplyFunction(tpeK)
				switch {
				case tpe.Equal(iface.GetConstant("READ_REQ")()):
					v, err := iface.Read(st, nil)
					if err != nil {
						return err
					}
					err = ack(iface, out, "READ_ACK", tla.RecordField{Key: valueK, Value: v})
					if err != nil {
						return err
					}
				case tpe.Equal(iface.GetConstant("WRITE_REQ")()):
					if err := iface.Write(st, nil, req.ApplyFunction(valueK)); err != nil {
						return err
					}
					if err := ack(iface, out, "WRITE_ACK"); err != nil {
						return err
					}
				case tpe.Equal(iface.GetConstant("PRECOMMIT_REQ")()):
					if err := ack(iface, out, "PRECOMMIT_ACK"); err != nil {
						return err
					}
				case tpe.Equal(iface.GetConstant("COMMIT_REQ")()):
					if err := ack(iface, out, "COMMIT_ACK"); err != nil {
						return err
					}
				case tpe.Equal(iface.GetConstant("ABORT_REQ")()):
					if err := ack(iface, out, "ABORT_ACK"); err != nil {
						return err
					}
				default:
					return fmt.Errorf("c17 nested: unexpected request %v", req)
				}
				return iface.Goto("N.serve")
			},
		}
		arch := distsys.MPCalArchetype{
			Name: "N", Label: "N.serve",
			RequiredRefParams: []string{"N.in", "N.out", "N.store"},
			JumpTable:         distsys.MakeMPCalJumpTable(serve),
			ProcTable:         distsys.MakeMPCalProcTable(),
			PreAmble:          func(distsys.ArchetypeInterface) { close(started) },
		}
		return []*distsys.MPCalContext{distsys.NewMPCalContext(tla.MakeString(name), arch,
			resources.NestedArchetypeConstantDefs,
			distsys.EnsureArchetypeRefParam("in", resources.NewInputChan(receiveCh, resources.WithInputChanReadTimeout(2*time.Millisecond))),
			distsys.EnsureArchetypeRefParam("out", resources.NewOutputChan(sendCh)),
			distsys.EnsureArchetypeRefParam("store", store),
		)}
	})
	rt.nestedRes = append(rt.nestedRes, res)
	// NewNested starts the nested context on a goroutine of its own; a Close that overtakes that
	// goroutine stops a context that never started (and so never closes its resources, which the
	// property allows). The harness removes that race: it lets the nested run start first.
	select {
	case <-started:
	case <-time.After(watchdog):
		rt.buildErr = "INCONCLUSIVE (harness): nested context did not start within " + watchdog.String()
	}
	return res
}

func (rt *rtState) doOp(iface distsys.ArchetypeInterface, o op, n int32) error {
	b := rt.sc.binds[o.bind]
	var h distsys.ArchetypeResourceHandle
	if b.kind == bLocal {
		h = iface.RequireArchetypeResource("Arch." + b.name)
	} else {
		var err error
		h, err = iface.RequireArchetypeResourceRef("Arch." + b.name)
		if err != nil {
			return err
		}
	}
	var idx []tla.Value
	if rt.sc.isMap(o.bind) {
		idx = []tla.Value{tla.MakeNumber(int32(o.idx))}
	}
	if o.write {
		return iface.Write(h, idx, tla.MakeNumber(n))
	}
	_, err := iface.Read(h, idx)
	return err
}

// enterBody is the first thing every body of the outer archetype does.
func (rt *rtState) enterBody(label, iter int) error {
	if rt.secondRun.Load() {
		rt.secondBody.Add(1)
		return errSecondRun
	}
	if rt.stopPosted.Load() {
		rt.violate("a critical section attempt began although a Stop request had been in flight since an earlier attempt (not stopped at the next label boundary)")
	}
	sc := rt.sc
	if label == sc.pinLabel && iter == sc.pinIter {
		if g := rt.gates[pBody]; g != nil {
			g.wait()
		}
		if g := rt.gates[pCommit]; g != nil && !g.used.Load() {
			rt.commitArmed.Store(true)
		}
	}
	return nil
}

func (rt *rtState) build() {
	sc := rt.sc
	nl := len(sc.labels)
	for _, ph := range []int{pBody, pCommit, pCleanup} {
		if sc.nStops(ph) > 0 || (ph == pCleanup && sc.closeGate != "") {
			rt.gates[ph] = &gate{rt: rt, name: phaseNames[ph], open: make(chan struct{})}
		}
	}

	cfg := []distsys.MPCalContextConfigFn{distsys.SetTraceRecorder(recorder{rt})}
	var refs []string
	for _, b := range sc.binds {
		b := b
		var res distsys.ArchetypeResource
		switch b.kind {
		case bLeaf:
			res = rt.newLeaf(b.name, true)
		case bIncMap:
			res = resources.NewIncMap(func(index tla.Value) distsys.ArchetypeResource {
				return rt.newLeaf(fmt.Sprintf("%s[%d]", b.name, index.AsNumber()), true)
			})
		case bHashMap:
			m := hashmap.New[distsys.ArchetypeResource]()
			for e := 0; e < b.elems; e++ {
				m.Set(tla.MakeNumber(int32(e)), rt.newLeaf(fmt.Sprintf("%s[%d]", b.name, e), true))
			}
			res = resources.NewHashMap(m)
		case bNested:
			res = rt.newNested(b.name)
		case bLocal:
			continue
		}
		cfg = append(cfg, distsys.EnsureArchetypeRefParam(b.name, res))
		refs = append(refs, "Arch."+b.name)
	}

	readIter := func(iface distsys.ArchetypeInterface) (int, error) {
		v, err := iface.Read(iface.RequireArchetypeResource("Arch.i"), nil)
		if err != nil {
			return 0, err
		}
		return int(v.AsNumber()), nil
	}
	lname := func(i int) string { return fmt.Sprintf("Arch.l%d", i) }

	var sections []distsys.MPCalCriticalSection
	for li := range sc.labels {
		li := li
		sections = append(sections, distsys.MPCalCriticalSection{
			Name: lname(li),
			Body: func(iface distsys.ArchetypeInterface) error {
				if rt.secondRun.Load() {
					return rt.enterBody(li, 0)
				}
				i, err := readIter(iface)
				if err != nil {
					return err
				}
				if err := rt.enterBody(li, i); err != nil {
					return err
				}
				for k, o := range sc.labels[li] {
					if err := rt.doOp(iface, o, int32(100*i+10*li+k)); err != nil {
						return err
					}
				}
				if li+1 < nl {
					return iface.Goto(lname(li + 1))
				}
				if sc.ending == eForever || i+1 < sc.loops {
					if err := iface.Write(iface.RequireArchetypeResource("Arch.i"), nil, tla.MakeNumber(int32(i+1))); err != nil {
						return err
					}
					return iface.Goto(lname(0))
				}
				return iface.Goto("Arch.end")
			},
		})
	}
	sections = append(sections, distsys.MPCalCriticalSection{
		Name: "Arch.end",
		Body: func(iface distsys.ArchetypeInterface) error {
			if err := rt.enterBody(nl, 0); err != nil {
				return err
			}
			for k, o := range sc.endOps {
				if err := rt.doOp(iface, o, int32(9000+k)); err != nil {
					return err
				}
			}
			switch sc.ending {
			case eDone:
				return iface.Goto("Arch.Done")
			case eErrorLabel:
				return iface.Goto("Arch.Error")
			case eAwait:
				return distsys.ErrCriticalSectionAborted
			case eAssert:
				rt.endingFired.Store(true)
				return fmt.Errorf("%w: (x) = (y)", distsys.ErrAssertionFailed)
			case eReadErr, eWriteErr:
				rt.endArmed.Store(true)
				if err := rt.doOp(iface, sc.failOp, 9999); err != nil {
					return err
				}
				rt.violate("the injected %s on %s was not propagated by iface.Read/Write", endingNames[sc.ending], sc.leafName(sc.failOp))
				return iface.Goto("Arch.Done")
			case ePreErr:
				rt.endArmed.Store(true)
				if err := rt.doOp(iface, sc.failOp, 9999); err != nil {
					return err
				}
				return iface.Goto("Arch.Done")
			}
			return fmt.Errorf("c17: unreachable ending %d", sc.ending)
		},
	}, distsys.MPCalCriticalSection{
		Name: "Arch.Done",
		Body: func(distsys.ArchetypeInterface) error {
			if err := rt.enterBody(nl+1, 0); err != nil {
				return err
			}
			return distsys.ErrDone
		},
	}, distsys.MPCalCriticalSection{
		Name: "Arch.Error",
		Body: func(distsys.ArchetypeInterface) error {
			if err := rt.enterBody(nl+1, 0); err != nil {
				return err
			}
			rt.endingFired.Store(true)
			return distsys.ErrProcedureFallthrough
		},
	})

	arch := distsys.MPCalArchetype{
		Name: "Arch", Label: lname(0),
		RequiredRefParams: refs,
		JumpTable:         distsys.MakeMPCalJumpTable(sections...),
		ProcTable:         distsys.MakeMPCalProcTable(),
		PreAmble: func(iface distsys.ArchetypeInterface) {
			rt.preambles.Add(1)
			iface.EnsureArchetypeResourceLocal("Arch.i", tla.MakeNumber(0))
			for _, b := range sc.binds {
				if b.kind == bLocal {
					iface.EnsureArchetypeResourceLocal("Arch."+b.name, tla.MakeNumber(0))
				}
			}
		},
	}
	rt.ctx = distsys.NewMPCalContext(tla.MakeString("c17"), arch, cfg...)
}

// ---------------------------------------------------------------------------------------------
// goroutine observation
// ---------------------------------------------------------------------------------------------

func curGoid() int64 {
	var buf [64]byte
	n := runtime.Stack(buf[:], false)
	s := strings.TrimPrefix(string(buf[:n]), "goroutine ")
	if i := strings.IndexByte(s, ' '); i > 0 {
		id, _ := strconv.ParseInt(s[:i], 10, 64)
		return id
	}
	return -1
}

func fullStack() string {
	buf := make([]byte, 1<<16)
	for {
		n := runtime.Stack(buf, true)
		if n < len(buf) {
			return string(buf[:n])
		}
		buf = make([]byte, 2*len(buf))
	}
}

type ginfo struct {
	state string
	stack string
}

func snapshot() map[int64]ginfo {
	out := map[int64]ginfo{}
	for _, blk := range strings.Split(fullStack(), "\n\n") {
		if !strings.HasPrefix(blk, "goroutine ") {
			continue
		}
		hdrEnd := strings.IndexByte(blk, '\n')
		if hdrEnd < 0 {
			hdrEnd = len(blk)
		}
		hdr := blk[len("goroutine "):hdrEnd]
		sp := strings.IndexByte(hdr, ' ')
		if sp < 0 {
			continue
		}
		id, err := strconv.ParseInt(hdr[:sp], 10, 64)
		if err != nil {
			continue
		}
		st := hdr[sp+1:]
		st = strings.TrimPrefix(st, "[")
		if i := strings.IndexByte(st, ']'); i >= 0 {
			st = st[:i]
		}
		out[id] = ginfo{state: st, stack: blk}
	}
	return out
}

func parked(state string) bool {
	for _, p := range []string{"chan receive", "chan send", "sync.Mutex.Lock", "semacquire"} {
		if strings.HasPrefix(state, p) {
			return true
		}
	}
	return false
}

const stopFrame = "(*MPCalContext).Stop"
const runFrame = "(*MPCalContext).Run"

// cycle reports the wait-for cycle of the listed finding: Run is waiting for runStateLock (its
// epilogue) while a Stop call sits in a channel send (it holds that lock, and only Run's loop
// ever receives from that channel).
func (rt *rtState) cycle() bool {
	if !rt.runLaunched || rt.runReturned.Load() {
		return false
	}
	snap := snapshot()
	rg, ok := snap[rt.runGoid.Load()]
	if !ok || !(strings.HasPrefix(rg.state, "sync.Mutex.Lock") || strings.HasPrefix(rg.state, "semacquire")) || !strings.Contains(rg.stack, runFrame) {
		return false
	}
	for _, s := range rt.stops {
		if s.returned.Load() {
			continue
		}
		if g, ok := snap[s.goid]; ok && strings.HasPrefix(g.state, "chan send") && strings.Contains(g.stack, stopFrame) {
			return true
		}
	}
	return false
}

func (rt *rtState) inFlight() int {
	n := 0
	for _, s := range rt.stops {
		if !s.returned.Load() && (s.phase == pBody || s.phase == pCommit || s.phase == pCleanup) {
			n++
		}
	}
	return n
}

// rescue undoes the listed deadlock from outside so that a case that was set aside leaves no
// goroutines behind: it receives from the context's (private) requestExit channel, which lets
// the blocked Stop finish its send and release runStateLock. Best effort; false if the context's
// layout is not the one this was written against.
func (rt *rtState) rescue() bool {
	defer func() { _ = recover() }()
	f := reflect.ValueOf(rt.ctx).Elem().FieldByName("requestExit")
	if !f.IsValid() || f.Kind() != reflect.Chan || !f.CanAddr() {
		return false
	}
	ch := *(*chan struct{})(unsafe.Pointer(f.UnsafeAddr()))
	if ch == nil {
		return false
	}
	deadline := time.Now().Add(5 * time.Second)
	for time.Now().Before(deadline) {
		select {
		case <-ch:
		default:
		}
		if rt.allQuiet() {
			return true
		}
		time.Sleep(200 * time.Microsecond)
	}
	return rt.allQuiet()
}

func (rt *rtState) allQuiet() bool {
	if rt.runLaunched && !rt.runReturned.Load() {
		return false
	}
	for _, s := range rt.stops {
		if !s.returned.Load() {
			return false
		}
	}
	return true
}

// ---------------------------------------------------------------------------------------------
// driving one case
// ---------------------------------------------------------------------------------------------

func (rt *rtState) launchStop(phase int) *stopCall {
	s := &stopCall{id: len(rt.stops), phase: phase}
	ready := make(chan struct{})
	go func() {
		s.goid = curGoid()
		close(ready)
		if p := hx.Catch(rt.ctx.Stop); p != nil {
			rt.violate("Stop #%d (%s) panicked: %v", s.id, phaseNames[phase], p.Value)
		}
		rt.stopReturn.Store(true)
		s.returned.Store(true)
		rt.poke()
	}()
	<-ready
	rt.stops = append(rt.stops, s)
	vstat.Class("stop.phase." + phaseNames[phase])
	return s
}

func (rt *rtState) launchRun() {
	rt.runLaunched = true
	ready := make(chan struct{})
	go func() {
		rt.runGoid.Store(curGoid())
		close(ready)
		err := hx.SafeRun(rt.ctx)
		rt.runErr = err
		rt.runReturned.Store(true)
		rt.poke()
	}()
	<-ready
}

type fataler interface {
	Fatalf(format string, args ...any)
}

// waitFor blocks until cond holds. A wait that cannot end is a deadlock: either the known
// wait-for cycle seen on three consecutive observations, or the watchdog. Returns false if the
// case is over (known finding set aside but the goroutines could not be recovered).
func (rt *rtState) waitFor(t fataler, what string, cond func() bool) bool {
	start := time.Now()
	lastSnap := start
	cyc := 0
	for !cond() {
		select {
		case <-rt.wake:
			continue
		case <-time.After(time.Millisecond):
		}
		now := time.Now()
		if now.Sub(lastSnap) >= 5*time.Millisecond {
			lastSnap = now
			if rt.cycle() {
				cyc++
			} else {
				cyc = 0
			}
		}
		if cyc < 3 && now.Sub(start) < watchdog {
			continue
		}
		if cond() {
			break
		}
		// deadlock
		how := "watchdog expired after " + watchdog.String()
		isCycle := cyc >= 3 || rt.cycle()
		if isCycle {
			how = "wait-for cycle: Run's epilogue waits for runStateLock, which is held by a Stop call blocked sending on the full requestExit channel"
		}
		dump := fullStack()
		n := rt.inFlight()
		known := isCycle && n >= 2 && vstat.Known(sigStopDeadlock)
		ok := rt.rescue()
		if !known {
			rt.leaked = !ok
			class := "not the shape of a listed finding"
			if isCycle && n >= 2 {
				class = fmt.Sprintf("signature %q", sigStopDeadlock)
			}
			t.Fatalf("DEADLOCK while waiting for %s (%s); %d Stop call(s) in flight while the archetype was running or cleaning up [%s]\nscenario:\n%s\ngoroutines:\n%s",
				what, how, n, class, rt.sc, dump)
			return false
		}
		rt.setAside = true
		vstat.Class("deadlock.setaside")
		if !ok {
			rt.leaked = true
			vstat.Class("deadlock.setaside.goroutines-leaked")
			return false
		}
		rt.rescued = true
		start, cyc = time.Now(), 0
	}
	return true
}

// settle waits until every Stop call in flight has reached a blocking point inside Stop (or has
// returned), so that the next gate opening happens in a known state.
func (rt *rtState) settle(t fataler, phase int) {
	deadline := time.Now().Add(watchdog)
	for {
		snap := snapshot()
		all := true
		for _, s := range rt.stops {
			if s.returned.Load() {
				continue
			}
			g, ok := snap[s.goid]
			if !ok || !parked(g.state) || !strings.Contains(g.stack, stopFrame) {
				all = false
			}
		}
		if all {
			return
		}
		if time.Now().After(deadline) {
			t.Fatalf("INCONCLUSIVE (harness): a Stop call launched %s neither blocked nor returned within %s\nscenario:\n%s\ngoroutines:\n%s", phaseNames[phase], watchdog, rt.sc, fullStack())
		}
		runtime.Gosched()
		time.Sleep(20 * time.Microsecond)
	}
}

func (rt *rtState) cleanup() {
	for _, g := range rt.gates {
		if g != nil {
			g.release()
		}
	}
	if rt.leaked {
		return
	}
	if rt.runLaunched && !rt.runReturned.Load() {
		// a failing case: give the run a chance to end so that nothing is left behind
		deadline := time.Now().Add(2 * time.Second)
		for !rt.allQuiet() && time.Now().Before(deadline) {
			time.Sleep(time.Millisecond)
		}
		if !rt.allQuiet() {
			return
		}
	}
	// a run that never started never closed its nested contexts; they were started by NewNested
	if rt.preambles.Load() == 0 {
		for _, r := range rt.nestedRes {
			r := r
			_ = hx.Catch(func() { _ = r.Close() })
		}
	}
}

func runCase(t fataler, sc *scenario) {
	rt := &rtState{sc: sc, wake: make(chan struct{}, 1)}
	rt.build()
	defer rt.cleanup()
	if rt.buildErr != "" {
		t.Fatalf("%s", rt.buildErr)
	}

	fail := func(format string, a ...any) {
		t.Fatalf("%s\nscenario:\n%s", fmt.Sprintf(format, a...), sc)
	}
	stopsReturned := func(phases ...int) func() bool {
		return func() bool {
			for _, s := range rt.stops {
				for _, p := range phases {
					if s.phase == p && !s.returned.Load() {
						return false
					}
				}
			}
			return true
		}
	}

	// ---- Stop calls before Run
	for i := 0; i < sc.nStops(pBefore); i++ {
		rt.launchStop(pBefore)
	}
	if !rt.waitFor(t, "the Stop calls made before Run to return", stopsReturned(pBefore)) {
		return
	}
	mustStart := sc.nStops(pBefore) == 0

	// ---- Run
	rt.launchRun()
	unreached := 0
	overlapCleanup := 0
	for _, ph := range []int{pBody, pCommit, pCleanup} {
		g := rt.gates[ph]
		if g == nil {
			continue
		}
		if !rt.waitFor(t, "the run to reach the "+phaseNames[ph]+" gate (or to end)", func() bool { return g.entered.Load() || rt.runReturned.Load() }) {
			return
		}
		if !g.entered.Load() {
			unreached += sc.nStops(ph)
			continue
		}
		for i := 0; i < sc.nStops(ph); i++ {
			rt.launchStop(ph)
		}
		rt.settle(t, ph)
		if ph == pCleanup {
			overlapCleanup = sc.nStops(ph)
		} else {
			for _, s := range rt.stops {
				if s.returned.Load() && s.phase != pBefore {
					rt.violate("Stop #%d (%s) returned while a critical section of the archetype was still executing", s.id, phaseNames[s.phase])
				}
			}
			if rt.inFlight() > 0 {
				rt.stopPosted.Store(true)
			}
		}
		g.release()
	}
	if !rt.waitFor(t, "Run and every Stop call to return after all gates were opened", rt.allQuiet) {
		return
	}

	// ---- Stop calls after Run (including those whose phase was never reached)
	for i := 0; i < sc.nStops(pAfter)+unreached; i++ {
		rt.launchStop(pAfter)
	}
	if unreached > 0 {
		vstat.ClassN("stop.phase-unreached", int64(unreached))
	}
	if !rt.waitFor(t, "the Stop calls made after Run to return", rt.allQuiet) {
		return
	}

	// ---- oracles
	vstat.Class("ending." + endingNames[sc.ending])
	started := rt.preambles.Load() > 0
	if started {
		vstat.Class("run.started")
	} else {
		vstat.Class("run.never-started")
	}
	if v := rt.violations(); len(v) > 0 {
		fail("VIOLATION: %s", strings.Join(v, "; "))
	}
	if started != mustStart {
		if mustStart {
			fail("VIOLATION: Run returned without starting the archetype although no Stop call preceded it (err=%v)", rt.runErr)
		}
		fail("VIOLATION: the archetype ran although a Stop call had returned before Run was called")
	}
	if rt.preambles.Load() > 1 {
		fail("VIOLATION: archetype started %d times in one Run", rt.preambles.Load())
	}

	// Close accounting
	rt.mu.Lock()
	leaves := append([]*leaf(nil), rt.leaves...)
	rt.mu.Unlock()
	var bad []string
	for _, l := range leaves {
		n := l.closes.Load()
		want := int32(0)
		if started {
			want = 1
		}
		if n != want {
			bad = append(bad, fmt.Sprintf("%s closed %d time(s), want %d", l.name, n, want))
		}
	}
	if len(bad) > 0 {
		sort.Strings(bad)
		fail("VIOLATION (Close accounting, run started=%v, Run returned %v): %s", started, rt.runErr, strings.Join(bad, "; "))
	}

	// Run's result
	type sentinel struct {
		name string
		err  error
	}
	sentinels := []sentinel{
		{"ErrAssertionFailed", distsys.ErrAssertionFailed},
		{"ErrProcedureFallthrough", distsys.ErrProcedureFallthrough},
		{"ErrDone", distsys.ErrDone},
		{"ErrCriticalSectionAborted", distsys.ErrCriticalSectionAborted},
	}
	expect := map[error]bool{}
	var expectNames []string
	if rt.endingFired.Load() {
		switch sc.ending {
		case eAssert:
			expect[distsys.ErrAssertionFailed] = true
			expectNames = append(expectNames, "ErrAssertionFailed")
		case eErrorLabel:
			expect[distsys.ErrProcedureFallthrough] = true
			expectNames = append(expectNames, "ErrProcedureFallthrough")
		}
	}
	for _, l := range leaves {
		sentinels = append(sentinels, sentinel{"injected(" + l.name + ")", l.injErr})
		if l.closeErr != nil {
			sentinels = append(sentinels, sentinel{"closeErr(" + l.name + ")", l.closeErr})
			if started {
				expect[l.closeErr] = true
				expectNames = append(expectNames, "closeErr("+l.name+")")
			}
		}
		if rt.endingFired.Load() && (l.failRead || l.failWrite || l.failPre) {
			expect[l.injErr] = true
			expectNames = append(expectNames, "injected("+l.name+")")
		}
	}
	err := rt.runErr
	var pe *hx.PanicError
	if errors.As(err, &pe) {
		fail("VIOLATION: Run panicked: %v", err)
	}
	if len(expect) == 0 {
		if err != nil {
			fail("VIOLATION: Run returned %q, want nil (ending %s, ending reached=%v)", err, endingNames[sc.ending], rt.endingFired.Load())
		}
	} else {
		if err == nil {
			fail("VIOLATION: Run returned nil, want an error satisfying errors.Is for %v", expectNames)
		}
		for _, s := range sentinels {
			if got := errors.Is(err, s.err); got != expect[s.err] {
				fail("VIOLATION: Run returned %q: errors.Is(err, %s) = %v, want %v (expected exactly %v)", err, s.name, got, expect[s.err], expectNames)
			}
		}
	}

	// ---- runs at most once
	if sc.secondRun {
		closesBefore := map[*leaf]int32{}
		for _, l := range leaves {
			closesBefore[l] = l.closes.Load()
		}
		rt.secondRun.Store(true)
		type res struct {
			err error
			p   *hx.PanicError
		}
		done := make(chan res, 1)
		go func() {
			var r res
			r.p = hx.Catch(func() { r.err = rt.ctx.Run() })
			done <- r
		}()
		var r res
		select {
		case r = <-done:
		case <-time.After(watchdog):
			rt.leaked = true
			fail("VIOLATION: a second Run() did not return within %s\ngoroutines:\n%s", watchdog, fullStack())
		}
		rt.mu.Lock()
		leaves2 := append([]*leaf(nil), rt.leaves...)
		rt.mu.Unlock()
		var again []string
		for _, l := range leaves2 {
			if d := l.closes.Load() - closesBefore[l]; d != 0 {
				again = append(again, l.name)
			}
		}
		outcome := "returned nil"
		if r.p != nil {
			outcome = fmt.Sprintf("panicked: %v", r.p.Value)
			vstat.Class("secondrun.panicked")
		} else if r.err != nil {
			outcome = fmt.Sprintf("returned %q", r.err)
			vstat.Class("secondrun.returned-error")
		} else {
			vstat.Class("secondrun.returned-nil")
		}
		if rt.secondBody.Load() > 0 || len(again) > 0 || rt.preambles.Load() > 1 {
			if !vstat.Known(sigSecondRun) {
				sort.Strings(again)
				fail("VIOLATION [signature %q]: a second Run() on a context whose run had ended (first Run returned %v) started the archetype again: preamble ran %d time(s) in all, %d critical section body(ies) entered, Close called again on [%s]; the call then %s",
					sigSecondRun, rt.runErr, rt.preambles.Load(), rt.secondBody.Load(), strings.Join(again, " "), outcome)
			}
			vstat.Class("secondrun.ran-again.setaside")
		} else {
			vstat.Class("secondrun.refused")
		}
	}

	if len(sc.stops) >= 2 && overlapCleanup >= 1 {
		key := sc.String()
		vstat.NonTrivial(key, func() string { return key })
	}
}

func TestC17Lifecycle(t *testing.T) {
	rapid.Check(t, func(t *rapid.T) {
		if vstat.OverBudget() {
			return
		}
		vstat.Case()
		sc := genScenario(t)
		for _, b := range sc.binds {
			vstat.Class("mix." + kindNames[b.kind])
		}
		runCase(t, sc)
	})
}
