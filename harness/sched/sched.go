// Package sched is the deterministic step scheduler (DESIGN.md E4): every
// archetype instance runs the real MPCalContext.Run in its own goroutine, but
// parks in BeginCriticalSection (through distsys.SetFairnessCounter) until the
// scheduler grants it exactly one attempt, and asks the scheduler for every
// either/with choice. One instance runs at a time, so a run is a pure function
// of the drawn schedule.
package sched

import (
	"fmt"
	"runtime/debug"
	"time"

	"github.com/DistCompiler/pgo/distsys"
	"github.com/DistCompiler/pgo/distsys/tla"
	"github.com/DistCompiler/pgo/distsys/trace"
)

type StepKind int

const (
	Committed StepKind = iota
	Aborted
	Exited   // Run returned
	NotReady // the instance is not parked (already exited)
	Stuck    // the attempt did not come back within the watchdog
)

func (k StepKind) String() string {
	return [...]string{"commit", "abort", "exit", "not-ready", "stuck"}[k]
}

type Step struct {
	Kind  StepKind
	PC    string      // label attempted
	Event trace.Event // reads/writes of the attempt (commit/abort only)
	Err   error       // Run's result when Exited
}

type msg struct {
	parked bool
	pc     string
	exited bool
	err    error
	ask    *askReq
}

// askReq is a drawn decision requested by the running instance; it is answered on the
// scheduler's goroutine (the test goroutine), so the property library is only ever
// used from there and its control-flow panics unwind the test, not an archetype.
type askReq struct {
	what  string
	n     int
	reply chan int
}

// Instance is one archetype instance under the scheduler.
type Instance struct {
	Name     string
	Self     tla.Value
	Ctx      *distsys.MPCalContext
	sim      *Sim
	grant    chan struct{}
	up       chan msg
	PC       string // label it is parked at
	Live     bool   // parked and can be stepped
	Err      error
	lastEv   *trace.Event
	Commits  int
	Aborts   int
	Crashed  bool // the scheduler will not step it any more (crash-stop)
	stopping bool
	pending  *askReq // a decision the instance is waiting for (set while the scheduler computes it)
}

func (in *Instance) String() string { return in.Name }

// Sim owns the instances and the hooks.
type Sim struct {
	Insts []*Instance
	// Choose resolves an either/with choice of the running instance.
	Choose func(in *Instance, id string, n uint) uint
	// Draw resolves environment nondeterminism requested through Ask: a number < n.
	Draw func(what string, n int) int
	// Begin / End bracket every attempt (End after all resources committed or aborted).
	Begin    func(in *Instance, pc string)
	End      func(in *Instance, pc string, ev trace.Event)
	Watchdog time.Duration
	Closing  bool // set during shutdown: environment resources should refuse everything
	running  *Instance
}

func New() *Sim { return &Sim{Watchdog: 30 * time.Second} }

type gate struct{ in *Instance }

func (g gate) BeginCriticalSection(pc string) {
	g.in.up <- msg{parked: true, pc: pc}
	<-g.in.grant
	if g.in.sim.Begin != nil && !g.in.sim.Closing {
		g.in.sim.Begin(g.in, pc)
	}
}

// Ask obtains a drawn number < n for the instance that is currently running. It must be
// called from that instance's goroutine (i.e. from inside a resource operation or a choice).
func (s *Sim) Ask(what string, n int) int {
	if s.Closing || n <= 1 {
		return 0
	}
	in := s.running
	if in == nil {
		panic("harness: Ask outside a granted attempt")
	}
	req := &askReq{what: what, n: n, reply: make(chan int, 1)}
	in.up <- msg{ask: req}
	return <-req.reply
}

func (g gate) NextFairnessCounter(id string, n uint) uint {
	if g.in.sim.Closing {
		return 0
	}
	v := uint(g.in.sim.Ask("choice:"+id, int(n)))
	if v >= n {
		panic(fmt.Sprintf("harness: choice %d out of range %d", v, n))
	}
	return v
}

type rec struct{ in *Instance }

func (r rec) RecordEvent(ev trace.Event) {
	ev.Elements = append([]trace.Element(nil), ev.Elements...)
	r.in.lastEv = &ev
	if ev.IsAbort {
		r.in.Aborts++
	} else {
		r.in.Commits++
	}
	if r.in.sim.End != nil && !r.in.sim.Closing {
		r.in.sim.End(r.in, r.in.PC, ev)
	}
}

// Add creates an instance; its context gets the gate and a recorder in addition to cfg.
func (s *Sim) Add(name string, self tla.Value, arch distsys.MPCalArchetype, cfg ...distsys.MPCalContextConfigFn) *Instance {
	in := &Instance{Name: name, Self: self, sim: s, grant: make(chan struct{}), up: make(chan msg, 4)}
	all := append([]distsys.MPCalContextConfigFn{}, cfg...)
	all = append(all, distsys.SetFairnessCounter(gate{in}), distsys.SetTraceRecorder(rec{in}))
	in.Ctx = distsys.NewMPCalContext(self, arch, all...)
	s.Insts = append(s.Insts, in)
	return in
}

// Start launches every instance and waits until each is parked at its first label (or has exited).
func (s *Sim) Start() error {
	for _, in := range s.Insts {
		in := in
		go func() {
			var err error
			defer func() {
				if r := recover(); r != nil {
					err = fmt.Errorf("panic in %s: %v\n%s", in.Name, r, debug.Stack())
				}
				in.up <- msg{exited: true, err: err}
			}()
			err = in.Ctx.Run()
		}()
		if st := s.await(in); st.Kind == Stuck {
			return fmt.Errorf("instance %s did not reach its first label", in.Name)
		}
	}
	return nil
}

func (s *Sim) await(in *Instance) Step {
	for {
		st, again := s.await1(in)
		if !again {
			return st
		}
	}
}

func (s *Sim) await1(in *Instance) (Step, bool) {
	select {
	case m := <-in.up:
		if m.ask != nil {
			in.pending = m.ask
			v := 0
			if !s.Closing {
				if len(m.ask.what) > 7 && m.ask.what[:7] == "choice:" && s.Choose != nil {
					v = int(s.Choose(in, m.ask.what[7:], uint(m.ask.n)))
				} else {
					v = s.Draw(m.ask.what, m.ask.n)
				}
			}
			in.pending = nil
			m.ask.reply <- v
			return Step{}, true
		}
		if m.exited {
			in.Live = false
			in.Err = m.err
			return Step{Kind: Exited, Err: m.err}, false
		}
		in.Live = true
		in.PC = m.pc
		return Step{Kind: Committed, PC: m.pc}, false
	case <-time.After(s.Watchdog):
		in.Live = false
		return Step{Kind: Stuck}, false
	}
}

// Step grants one attempt to the instance and waits until it is parked again or has exited.
func (s *Sim) Step(in *Instance) Step {
	if !in.Live {
		return Step{Kind: NotReady}
	}
	pc := in.PC
	in.lastEv = nil
	s.running = in
	in.grant <- struct{}{}
	st := s.await(in)
	s.running = nil
	if st.Kind == Stuck {
		return Step{Kind: Stuck, PC: pc}
	}
	out := Step{PC: pc}
	if in.lastEv != nil {
		out.Event = *in.lastEv
		if in.lastEv.IsAbort {
			out.Kind = Aborted
		} else {
			out.Kind = Committed
		}
		if st.Kind == Exited {
			// the attempt committed and the archetype then ended (Done)
			out.Err = st.Err
		}
		return out
	}
	if st.Kind == Exited {
		return Step{Kind: Exited, PC: pc, Err: st.Err}
	}
	// no event and not exited: the body returned before touching anything recordable
	out.Kind = Aborted
	return out
}

// Shutdown stops every live instance (each gets granted attempts, which environment
// resources should refuse because Closing is set, until its Run loop notices the stop request).
func (s *Sim) Shutdown() {
	s.Closing = true
	for _, in := range s.Insts {
		if in.pending != nil {
			// the scheduler was unwound (a control-flow panic of the property library) while
			// computing a decision for this instance: release it, then let it park again
			in.pending.reply <- 0
			in.pending = nil
			s.running = in
			s.await(in)
			s.running = nil
		}
	}
	for _, in := range s.Insts {
		if !in.Live {
			continue
		}
		in := in
		stopped := make(chan struct{})
		go func() { in.Ctx.Stop(); close(stopped) }()
		deadline := time.After(s.Watchdog)
	loop:
		for in.Live {
			select {
			case in.grant <- struct{}{}:
				s.running = in
				s.await(in)
				s.running = nil
			case <-deadline:
				break loop
			}
		}
		select {
		case <-stopped:
		case <-time.After(s.Watchdog):
		}
	}
}

// Adopt puts an already constructed context under the scheduler: its fairness counter becomes the
// gate and its recorder the scheduler's. Whoever runs the context (a deployment's own Run code)
// reports the end of Run with NoteExit. AwaitFirst waits until the instance parks at its first label.
func (s *Sim) Adopt(name string, ctx *distsys.MPCalContext) *Instance {
	in := &Instance{Name: name, Self: ctx.IFace().Self(), Ctx: ctx, sim: s, grant: make(chan struct{}), up: make(chan msg, 4)}
	distsys.SetFairnessCounter(gate{in})(ctx)
	distsys.SetTraceRecorder(rec{in})(ctx)
	s.Insts = append(s.Insts, in)
	return in
}

// NoteExit reports that the adopted instance's Run returned.
func (in *Instance) NoteExit(err error) { in.up <- msg{exited: true, err: err} }

// AwaitFirst waits for an adopted instance to reach its first label.
func (s *Sim) AwaitFirst(in *Instance) error {
	if st := s.await(in); st.Kind == Stuck {
		return fmt.Errorf("instance %s did not reach its first label", in.Name)
	} else if st.Kind == Exited {
		return fmt.Errorf("instance %s ended before its first label: %v", in.Name, st.Err)
	}
	return nil
}

// ShutdownParallel stops all live instances at once (for deployments whose clean-up is slow: TCP
// mailboxes sleep in Close). Environment decisions are no longer drawn (Closing); attempts granted
// here run concurrently, so every check must be finished before this is called.
func (s *Sim) ShutdownParallel() {
	s.Closing = true
	for _, in := range s.Insts {
		if in.pending != nil {
			in.pending.reply <- 0
			in.pending = nil
		}
	}
	done := make(chan struct{}, len(s.Insts))
	k := 0
	for _, in := range s.Insts {
		if !in.Live {
			continue
		}
		k++
		in := in
		go func() {
			defer func() { done <- struct{}{} }()
			stopped := make(chan struct{})
			go func() { in.Ctx.Stop(); close(stopped) }()
			deadline := time.After(s.Watchdog)
			for {
				select {
				case <-stopped:
					// Stop returns once Run has ended and cleaned up (whoever runs the context may report later or never)
					in.Live = false
					return
				case in.grant <- struct{}{}:
				case m := <-in.up:
					if m.ask != nil {
						m.ask.reply <- 0
					}
					if m.exited {
						in.Live = false
						in.Err = m.err
						return
					}
				case <-deadline:
					return
				}
			}
		}()
	}
	for ; k > 0; k-- {
		<-done
	}
}
