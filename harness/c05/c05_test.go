// C05 — value equality, hashing, printing and wire encoding are coherent.
package c05

import (
	"bytes"
	"encoding/gob"
	"fmt"
	"os"
	"strings"
	"testing"

	"github.com/DistCompiler/pgo/distsys/hashmap"
	"github.com/DistCompiler/pgo/distsys/resources"
	"github.com/DistCompiler/pgo/distsys/tla"
	"github.com/benbjohnson/immutable"
	"pgregory.net/rapid"

	"verif/harness/hx"
	"verif/harness/tlcx"
	"verif/harness/tlx"
	"verif/harness/vstat"
)

func TestMain(m *testing.M) { vstat.Main(m, "C05") }

var wrapping = os.Getenv("PGO_TRACE_DIR") != ""

func permFn(t *rapid.T) func(n int) []int {
	return func(n int) []int {
		idx := make([]int, n)
		for i := range idx {
			idx[i] = i
		}
		if n < 2 {
			return idx
		}
		return rapid.Permutation(idx).Draw(t, "perm")
	}
}

// viaOps builds the value with TLA+ operators instead of constructors.
func viaOps(v tlx.Val, perm func(int) []int) tla.Value {
	switch v.K {
	case tlx.KSet:
		acc := tla.MakeSet()
		for _, i := range perm(len(v.E)) {
			acc = tla.ModuleUnionSymbol(acc, tla.MakeSet(viaOps(v.E[i], perm)))
		}
		return acc
	case tlx.KTup:
		acc := tla.MakeTuple()
		for _, x := range v.E {
			acc = tla.ModuleAppend(acc, viaOps(x, perm))
		}
		return acc
	case tlx.KFn:
		if len(v.Ks) == 0 {
			return tla.MakeRecord(nil)
		}
		var acc tla.Value
		for n, i := range perm(len(v.Ks)) {
			one := tla.ModuleColonGreaterThanSymbol(viaOps(v.Ks[i], perm), viaOps(v.Vs[i], perm))
			if n == 0 {
				acc = one
			} else {
				acc = tla.ModuleDoubleAtSignSymbol(acc, one)
			}
		}
		return acc
	}
	return tlx.ToTLA(v, nil)
}

func gobRoundTrip(v tla.Value) (tla.Value, error) {
	var buf bytes.Buffer
	if err := gob.NewEncoder(&buf).Encode(&v); err != nil {
		return tla.Value{}, err
	}
	var out tla.Value
	err := gob.NewDecoder(&buf).Decode(&out)
	return out, err
}

func maybeWrap(t *rapid.T, v tla.Value, label string) tla.Value {
	if !wrapping || rapid.IntRange(0, 2).Draw(t, label+".wrap") == 0 {
		return v
	}
	clk := tla.VClock{}
	n := rapid.IntRange(0, 3).Draw(t, label+".clk")
	for i := 0; i < n; i++ {
		clk = clk.Inc("A", tla.MakeNumber(int32(rapid.IntRange(0, 2).Draw(t, label+".self"))))
	}
	return tla.WrapCausal(v, clk)
}

// realise draws one of the ways of building v.
func realise(t *rapid.T, v tlx.Val, label string) tla.Value {
	var out tla.Value
	switch rapid.IntRange(0, 3).Draw(t, label+".how") {
	case 0:
		out = tlx.ToTLA(v, nil)
	case 1:
		out = tlx.ToTLA(v, permFn(t))
	case 2:
		out = viaOps(v, permFn(t))
	default:
		var err error
		out, err = gobRoundTrip(tlx.ToTLA(v, permFn(t)))
		if err != nil {
			t.Fatalf("gob round trip of %s failed: %v", v, err)
		}
	}
	return maybeWrap(t, out, label)
}

// mutate returns a value one edit away from v (never equal to it).
func mutate(t *rapid.T, v tlx.Val) tlx.Val {
	switch v.K {
	case tlx.KBool:
		return tlx.Bool(!v.B)
	case tlx.KInt:
		if v.I >= 2147483647 {
			return tlx.Int(v.I - 1)
		}
		return tlx.Int(v.I + 1)
	case tlx.KStr:
		return tlx.Str(v.S + "'")
	case tlx.KSet:
		if len(v.E) > 0 && rapid.Bool().Draw(t, "mut.drop") {
			i := rapid.IntRange(0, len(v.E)-1).Draw(t, "mut.i")
			es := append(append([]tlx.Val{}, v.E[:i]...), v.E[i+1:]...)
			return tlx.Set(es...)
		}
		if len(v.E) > 0 {
			i := rapid.IntRange(0, len(v.E)-1).Draw(t, "mut.i")
			m := mutate(t, v.E[i])
			if !v.Has(m) {
				es := append([]tlx.Val{}, v.E...)
				es[i] = m
				return tlx.Set(es...)
			}
		}
		extra := tlx.Str("#fresh#")
		return tlx.Set(append(append([]tlx.Val{}, v.E...), extra)...)
	case tlx.KTup:
		if len(v.E) > 0 && rapid.Bool().Draw(t, "mut.inner") {
			i := rapid.IntRange(0, len(v.E)-1).Draw(t, "mut.i")
			es := append([]tlx.Val{}, v.E...)
			es[i] = mutate(t, es[i])
			return tlx.Tup(es...)
		}
		return tlx.Tup(append(append([]tlx.Val{}, v.E...), tlx.Int(0))...)
	default:
		if len(v.Ks) > 0 && rapid.Bool().Draw(t, "mut.inner") {
			i := rapid.IntRange(0, len(v.Ks)-1).Draw(t, "mut.i")
			vs := append([]tlx.Val{}, v.Vs...)
			vs[i] = mutate(t, vs[i])
			return tlx.Fn(v.Ks, vs)
		}
		return tlx.Fn(append(append([]tlx.Val{}, v.Ks...), tlx.Str("#fresh#")), append(append([]tlx.Val{}, v.Vs...), tlx.Int(0)))
	}
}

func genVal(t *rapid.T) tlx.Val {
	g := &tlx.Gen{T: t}
	return g.GenVal(g.GenType(rapid.IntRange(0, 3).Draw(t, "typedepth")), 3)
}

func nontrivial(v tlx.Val) bool {
	if v.Depth() < 2 {
		return false
	}
	big := false
	var walk func(x tlx.Val)
	walk = func(x tlx.Val) {
		if (x.K == tlx.KSet && len(x.E) >= 2) || (x.K == tlx.KFn && len(x.Ks) >= 2) {
			big = true
		}
		for _, y := range x.E {
			walk(y)
		}
		for i := range x.Ks {
			walk(x.Ks[i])
			walk(x.Vs[i])
		}
	}
	walk(v)
	return big
}

func mustNotPanic(t *rapid.T, what string, f func()) {
	if p := hx.Catch(f); p != nil {
		t.Fatalf("%s panicked: %v\n%s", what, p.Value, p.Stack)
	}
}

// TestC05EqualHash: Equal is an equivalence agreeing with structural equality and
// ignoring construction order; equal values hash equally; unequal ones compare unequal.
func TestC05EqualHash(t *testing.T) {
	rapid.Check(t, func(t *rapid.T) {
		if vstat.OverBudget() {
			return
		}
		vstat.Case()
		v := genVal(t)
		a := realise(t, v, "a")
		b := realise(t, v, "b")
		c := realise(t, v, "c")
		w := mutate(t, v)
		d := realise(t, w, "d")
		mustNotPanic(t, "Equal/Hash", func() {
			for _, p := range [][2]tla.Value{{a, a}, {a, b}, {b, a}, {b, c}, {a, c}, {c, a}} {
				if !p[0].Equal(p[1]) {
					t.Fatalf("two realisations of %s are not Equal:\n  %v\n  %v", v, p[0], p[1])
				}
				if p[0].Hash() != p[1].Hash() {
					t.Fatalf("Equal values hash differently (%d vs %d): %s\n  %v\n  %v", p[0].Hash(), p[1].Hash(), v, p[0], p[1])
				}
			}
			for _, x := range []tla.Value{a, b, c} {
				if x.Equal(d) || d.Equal(x) {
					t.Fatalf("Equal says %s = %s", v, w)
				}
			}
		})
		back, err := tlx.FromTLA(a.StripVClock())
		if err != nil || !tlx.Equal(back, v) {
			t.Fatalf("value read back through accessors differs: built %s, read %s (%v)", v, back, err)
		}
		// membership and function lookup find equal keys however they were built
		mustNotPanic(t, "\\in / application", func() {
			set := tla.MakeSet(a, d)
			if !tla.ModuleInSymbol(b, set).AsBool() || !tla.ModuleInSymbol(c, set).AsBool() {
				t.Fatalf("%s \\in {itself, other} is FALSE for an equal value built differently", v)
			}
			if set.AsSet().Len() != 2 || tla.MakeSet(a, b, c).AsSet().Len() != 1 {
				t.Fatalf("set of equal values built differently has the wrong cardinality: %v", tla.MakeSet(a, b, c))
			}
			f := tla.MakeRecord([]tla.RecordField{{Key: a, Value: tla.MakeNumber(1)}, {Key: d, Value: tla.MakeNumber(2)}})
			if got := f.ApplyFunction(b); !got.Equal(tla.MakeNumber(1)) {
				t.Fatalf("f[%s] found %v", v, got)
			}
			if got := f.ApplyFunction(realise(t, w, "d2")); !got.Equal(tla.MakeNumber(2)) {
				t.Fatalf("f[%s] found %v", w, got)
			}
		})
		if nontrivial(v) {
			s := v.TLA()
			vstat.NonTrivial(s, func() string { return fmt.Sprintf("%s  vs one edit away  %s", s, w) })
		}
	})
}

// TestC05Maps: hashmap.HashMap and immutable.Map{ValueHasher} agree with a Go map
// keyed by canonical text under Set/Get/overwrite sequences.
func TestC05Maps(t *testing.T) {
	rapid.Check(t, func(t *rapid.T) {
		if vstat.OverBudget() {
			return
		}
		vstat.Case()
		pool := make([]tlx.Val, rapid.IntRange(1, 6).Draw(t, "pool"))
		for i := range pool {
			if i > 0 && rapid.IntRange(0, 3).Draw(t, "near") == 0 {
				pool[i] = mutate(t, pool[rapid.IntRange(0, i-1).Draw(t, "of")])
			} else {
				pool[i] = genVal(t)
			}
		}
		hm := hashmap.New[int]()
		im := immutable.NewMap[tla.Value, int](tla.ValueHasher{})
		model := map[string]int{}
		var hist strings.Builder
		nt := false
		t.Repeat(map[string]func(*rapid.T){
			"set": func(t *rapid.T) {
				k := pool[rapid.IntRange(0, len(pool)-1).Draw(t, "k")]
				x := rapid.IntRange(0, 99).Draw(t, "x")
				kv := realise(t, k, "key")
				fmt.Fprintf(&hist, "set %s := %d\n", k, x)
				if _, had := model[k.TLA()]; had && nontrivial(k) {
					nt = true
				}
				mustNotPanic(t, "Set", func() { hm.Set(kv, x); im = im.Set(kv, x) })
				model[k.TLA()] = x
			},
			"get": func(t *rapid.T) {
				k := pool[rapid.IntRange(0, len(pool)-1).Draw(t, "k")]
				kv := realise(t, k, "key")
				want, wok := model[k.TLA()]
				mustNotPanic(t, "Get", func() {
					got, ok := hm.Get(kv)
					if ok != wok || (ok && got != want) {
						t.Fatalf("HashMap.Get(%s) = %d,%v want %d,%v\n%s", k, got, ok, want, wok, hist.String())
					}
					got, ok = im.Get(kv)
					if ok != wok || (ok && got != want) {
						t.Fatalf("immutable.Map.Get(%s) = %d,%v want %d,%v\n%s", k, got, ok, want, wok, hist.String())
					}
				})
			},
			"": func(t *rapid.T) {
				if len(hm.Keys()) != len(model) || im.Len() != len(model) {
					t.Fatalf("HashMap has %d keys, immutable.Map %d, model %d\n%s", len(hm.Keys()), im.Len(), len(model), hist.String())
				}
			},
		})
		if nt {
			h := hist.String()
			vstat.NonTrivial(h, func() string { return h })
		}
	})
}

type envelope struct {
	Tag   string
	V     tla.Value
	Multi []tla.Value
}

func init() { gob.Register(envelope{}) }

// TestC05Gob: what goes through gob (bare, in structs and interfaces, several on
// one stream as a mailbox connection does, wrapped with a clock) comes out Equal.
func TestC05Gob(t *testing.T) {
	rapid.Check(t, func(t *rapid.T) {
		if vstat.OverBudget() {
			return
		}
		vstat.Case()
		n := rapid.IntRange(1, 4).Draw(t, "n")
		vals := make([]tlx.Val, n)
		tvs := make([]tla.Value, n)
		for i := range vals {
			vals[i] = genVal(t)
			tvs[i] = realise(t, vals[i], fmt.Sprintf("v%d", i))
		}
		var buf bytes.Buffer
		enc := gob.NewEncoder(&buf)
		dec := gob.NewDecoder(&buf)
		check := func(what string, want tla.Value, got tla.Value) {
			mustNotPanic(t, what, func() {
				if !got.Equal(want) || !want.Equal(got) || got.Hash() != want.Hash() {
					t.Fatalf("%s: sent %v, received %v", what, want, got)
				}
				wc, gc := want.GetVClock(), got.GetVClock()
				if (wc == nil) != (gc == nil) || (wc != nil && wc.String() != gc.String()) {
					t.Fatalf("%s: clock changed in transit: sent %v received %v", what, wc, gc)
				}
			})
			back, err := tlx.FromTLA(got.StripVClock())
			sent, _ := tlx.FromTLA(want.StripVClock())
			if err != nil || !tlx.Equal(back, sent) {
				t.Fatalf("%s: decoded value reads back as %s, sent %s (%v)", what, back, sent, err)
			}
		}
		// several values on one stream, as tcpmailboxes does with Encode(&value)
		for i := range tvs {
			v := tvs[i]
			if err := enc.Encode(&v); err != nil {
				t.Fatalf("encode %s: %v", vals[i], err)
			}
		}
		for i := range tvs {
			var got tla.Value
			if err := dec.Decode(&got); err != nil {
				t.Fatalf("decode %s: %v", vals[i], err)
			}
			check("stream", tvs[i], got)
		}
		// inside the structs the runtime ships
		req := resources.TwoPCRequest{RequestType: resources.PreCommit, Value: tvs[0], Sender: tvs[n-1], Version: 3, SenderTime: 9}
		if err := enc.Encode(&req); err != nil {
			t.Fatalf("encode TwoPCRequest: %v", err)
		}
		var gotReq resources.TwoPCRequest
		if err := dec.Decode(&gotReq); err != nil {
			t.Fatalf("decode TwoPCRequest: %v", err)
		}
		check("TwoPCRequest.Value", tvs[0], gotReq.Value)
		check("TwoPCRequest.Sender", tvs[n-1], gotReq.Sender)
		env := envelope{Tag: "x", V: tvs[0], Multi: tvs}
		if err := enc.Encode(&env); err != nil {
			t.Fatalf("encode envelope: %v", err)
		}
		var gotEnv envelope
		if err := dec.Decode(&gotEnv); err != nil {
			t.Fatalf("decode envelope: %v", err)
		}
		check("struct field", tvs[0], gotEnv.V)
		for i := range tvs {
			check("slice element", tvs[i], gotEnv.Multi[i])
		}
		for _, v := range vals {
			if nontrivial(v) {
				s := v.TLA()
				vstat.NonTrivial("gob:"+s, func() string { return "gob round trip of " + s })
			}
		}
	})
}

func genClock(t *rapid.T, label string) tla.VClock {
	c := tla.VClock{}
	n := rapid.IntRange(0, 6).Draw(t, label+".n")
	for i := 0; i < n; i++ {
		name := rapid.SampledFrom([]string{"A", "B"}).Draw(t, label+".arch")
		self := rapid.SampledFrom([]tla.Value{tla.MakeNumber(1), tla.MakeNumber(2), tla.MakeString("s")}).Draw(t, label+".self")
		c = c.Inc(name, self)
	}
	return c
}

var clockIDs = func() (out [][2]interface{}) {
	for _, n := range []string{"A", "B"} {
		for _, s := range []tla.Value{tla.MakeNumber(1), tla.MakeNumber(2), tla.MakeString("s")} {
			out = append(out, [2]interface{}{n, s})
		}
	}
	return
}()

func clockVec(c tla.VClock) string {
	var b strings.Builder
	for _, id := range clockIDs {
		fmt.Fprintf(&b, "%d,", c.Get(id[0].(string), id[1].(tla.Value)))
	}
	return b.String()
}

// TestC05VClock: merge is a join (commutative, associative, idempotent, pointwise max),
// Inc bumps exactly one component, gob preserves the clock.
func TestC05VClock(t *testing.T) {
	rapid.Check(t, func(t *rapid.T) {
		if vstat.OverBudget() {
			return
		}
		vstat.Case()
		a, b, c := genClock(t, "a"), genClock(t, "b"), genClock(t, "c")
		if clockVec(a.Merge(b)) != clockVec(b.Merge(a)) {
			t.Fatalf("merge not commutative: %v %v", a, b)
		}
		if clockVec(a.Merge(b).Merge(c)) != clockVec(a.Merge(b.Merge(c))) {
			t.Fatalf("merge not associative: %v %v %v", a, b, c)
		}
		if clockVec(a.Merge(a)) != clockVec(a) {
			t.Fatalf("merge not idempotent: %v", a)
		}
		m := a.Merge(b)
		for _, id := range clockIDs {
			x, y := a.Get(id[0].(string), id[1].(tla.Value)), b.Get(id[0].(string), id[1].(tla.Value))
			want := x
			if y > x {
				want = y
			}
			if got := m.Get(id[0].(string), id[1].(tla.Value)); got != want {
				t.Fatalf("merge(%v,%v)[%v] = %d, want max(%d,%d)", a, b, id, got, x, y)
			}
		}
		id := clockIDs[rapid.IntRange(0, len(clockIDs)-1).Draw(t, "id")]
		inc := a.Inc(id[0].(string), id[1].(tla.Value))
		for _, o := range clockIDs {
			want := a.Get(o[0].(string), o[1].(tla.Value))
			if o[0] == id[0] && o[1].(tla.Value).Equal(id[1].(tla.Value)) {
				want++
			}
			if got := inc.Get(o[0].(string), o[1].(tla.Value)); got != want {
				t.Fatalf("Inc(%v) changed component %v from %d to %d", id, o, a.Get(o[0].(string), o[1].(tla.Value)), got)
			}
		}
		var buf bytes.Buffer
		if err := gob.NewEncoder(&buf).Encode(&m); err != nil {
			t.Fatalf("encode clock: %v", err)
		}
		var back tla.VClock
		if err := gob.NewDecoder(&buf).Decode(&back); err != nil {
			t.Fatalf("decode clock: %v", err)
		}
		if clockVec(back) != clockVec(m) {
			t.Fatalf("clock changed over gob: %v -> %v", m, back)
		}
		vstat.NonTrivial(clockVec(a)+"|"+clockVec(b)+"|"+clockVec(c), func() string { return fmt.Sprintf("%v ⊔ %v ⊔ %v", a, b, c) })
	})
}

// TestC05String: the printed form is a TLA+ expression denoting the same value
// (harness parser here; TLC in TestC05StringTLC).
func TestC05String(t *testing.T) {
	rapid.Check(t, func(t *rapid.T) {
		if vstat.OverBudget() {
			return
		}
		vstat.Case()
		v := genVal(t)
		tv := realise(t, v, "v")
		var printed string
		mustNotPanic(t, "String", func() { printed = tv.String() })
		e, err := tlx.ParseExpr(printed)
		if err != nil {
			t.Fatalf("String() of %s does not parse as TLA+: %q: %v", v, printed, err)
		}
		o := (&tlx.Evaluator{Strict: true}).Eval(e, map[string]tlx.Val{})
		if o.C != tlx.CValue || !tlx.Equal(tlx.Norm(o.V), tlx.Norm(v)) {
			t.Fatalf("String() of %s is %q, which denotes %s", v, printed, o)
		}
		if nontrivial(v) {
			vstat.NonTrivial("str:"+v.TLA(), func() string { return fmt.Sprintf("String() = %s", printed) })
		}
	})
}

// TestC05StringTLC puts `printed = canonical` to TLC for a batch of values.
func TestC05StringTLC(t *testing.T) {
	var qs, descr []string
	seen := map[string]bool{}
	rapid.Check(t, func(t *rapid.T) {
		if vstat.OverBudget() {
			return
		}
		vstat.Case()
		v := genVal(t)
		tv := realise(t, v, "v")
		printed := tv.String()
		if seen[printed] || strings.Contains(printed, "-2147483648") || strings.ContainsAny(printed, "!^") || !tlx.Homogeneous(v) {
			return // TLC cannot lex 2147483648; jline mangles ! and ^; TLC refuses heterogeneous sets
		}
		seen[printed] = true
		qs = append(qs, "("+printed+") = ("+tlx.Norm(v).TLA()+")")
		descr = append(descr, v.TLA())
	})
	if t.Failed() || len(qs) == 0 {
		return
	}
	ans, err := tlcx.EvalParallel(qs, 16)
	if err != nil {
		t.Fatalf("INCONCLUSIVE: TLC infrastructure: %v", err)
	}
	for i, a := range ans {
		if a.Timeout {
			continue
		}
		vstat.Class("tlc.checked")
		if a.Error || strings.TrimSpace(a.Text) != "TRUE" {
			t.Errorf("TLC does not agree that the printed form denotes the value %s:\n  query: %s\n  TLC: %s", descr[i], qs[i], a.Text)
		}
	}
}

// TestC05ZeroValue: the runtime stores the zero Value in stack frames (procedure
// variables without initialiser); Equal/Hash/String on values containing it must
// behave (no panic, equivalence).
func TestC05ZeroValue(t *testing.T) {
	rapid.Check(t, func(t *rapid.T) {
		if vstat.OverBudget() {
			return
		}
		vstat.Case()
		build := func() tla.Value {
			return tla.Value{}
		}
		n := rapid.IntRange(1, 3).Draw(t, "frames")
		mk := func() tla.Value {
			var frames []tla.Value
			for i := 0; i < n; i++ {
				b := immutable.NewMapBuilder[tla.Value, tla.Value](tla.ValueHasher{})
				b.Set(tla.MakeString(".pc"), tla.MakeString("L"))
				b.Set(tla.MakeString("P.x"), build())
				b.Set(tla.MakeString("P.y"), tla.MakeNumber(int32(i)))
				frames = append(frames, tla.MakeRecordFromMap(b.Map()))
			}
			return tla.MakeTuple(frames...)
		}
		a, b := mk(), mk()
		mustNotPanic(t, "Equal/Hash/String on a stack holding defaultInitValue", func() {
			if !a.Equal(b) || !b.Equal(a) || a.Hash() != b.Hash() || a.String() != b.String() {
				t.Fatalf("two identical stacks are not Equal / hash differently")
			}
			z1, z2 := tla.MakeTuple(tla.Value{}), tla.MakeTuple(tla.Value{})
			if !z1.Equal(z2) {
				t.Fatalf("<<defaultInitValue>> is not Equal to itself")
			}
			if z1.Equal(tla.MakeTuple(tla.MakeNumber(0))) || tla.MakeTuple(tla.MakeNumber(0)).Equal(z1) {
				t.Fatalf("<<defaultInitValue>> Equal <<0>>")
			}
		})
		vstat.NonTrivial(fmt.Sprint(n), func() string { return a.String() })
	})
}
