package c18

import (
	"bufio"
	"bytes"
	"encoding/json"
	"fmt"
	"os"
	"path/filepath"
	"sort"
	"strings"

	"github.com/DistCompiler/pgo/distsys/tla"
	"github.com/DistCompiler/pgo/distsys/trace"
)

// lEvent is one logged event in a form common to the in-memory recorder and the JSON file:
// everything printed. In-memory events keep the original for comparisons with Equal.
type lElem struct {
	write        bool
	prefix, name string
	self         string // JSON only
	indices      []string
	value        string
	hasOld       bool
	old          string
	mem          trace.Element // nil for JSON
}

type lEvent struct {
	arch, self string
	elems      []lElem
	clock      map[string]int // "archetype|self printed" -> component
	isAbort    bool
	mem        *trace.Event
	line       string // JSON text
}

func (e lElem) String() string {
	ix := ""
	for _, i := range e.indices {
		ix += "[" + i + "]"
	}
	n := e.name
	if e.prefix != "" {
		n = e.prefix + "." + e.name
	}
	if !e.write {
		return fmt.Sprintf("read %s%s = %s", n, ix, e.value)
	}
	if e.hasOld {
		return fmt.Sprintf("write %s%s := %s (old value hint %s)", n, ix, e.value, e.old)
	}
	return fmt.Sprintf("write %s%s := %s (no old value hint)", n, ix, e.value)
}

func clockString(c map[string]int) string {
	ks := make([]string, 0, len(c))
	for k := range c {
		ks = append(ks, k)
	}
	sort.Strings(ks)
	var p []string
	for _, k := range ks {
		p = append(p, fmt.Sprintf("%s:%d", k, c[k]))
	}
	return "{" + strings.Join(p, ", ") + "}"
}

func (e lEvent) String() string {
	var b strings.Builder
	fmt.Fprintf(&b, "event archetype=%s self=%s isAbort=%v clock=%s\n", e.arch, e.self, e.isAbort, clockString(e.clock))
	for _, el := range e.elems {
		fmt.Fprintf(&b, "      %s\n", el)
	}
	return b.String()
}

func parseClock(raw []byte) (map[string]int, error) {
	var pairs [][2]json.RawMessage
	if err := json.Unmarshal(raw, &pairs); err != nil {
		return nil, fmt.Errorf("clock is not a list of pairs: %v", err)
	}
	out := map[string]int{}
	for _, p := range pairs {
		var key []string
		var n int
		if err := json.Unmarshal(p[0], &key); err != nil || len(key) != 2 {
			return nil, fmt.Errorf("clock key %s is not [archetype, self]", p[0])
		}
		if err := json.Unmarshal(p[1], &n); err != nil {
			return nil, fmt.Errorf("clock component %s is not a number", p[1])
		}
		k := key[0] + "|" + key[1]
		if _, dup := out[k]; dup {
			return nil, fmt.Errorf("clock lists %s twice", k)
		}
		out[k] = n
	}
	return out, nil
}

func printIdx(ix []tla.Value) []string {
	out := make([]string, len(ix))
	for i, v := range ix {
		out[i] = v.StripVClock().String()
	}
	return out
}

func fromMemory(ev *trace.Event) (lEvent, error) {
	le := lEvent{arch: ev.ArchetypeName, self: ev.Self.String(), isAbort: ev.IsAbort, mem: ev}
	raw, err := json.Marshal(ev.Clock)
	if err != nil {
		return le, fmt.Errorf("the event's clock cannot be marshalled: %v", err)
	}
	if le.clock, err = parseClock(raw); err != nil {
		return le, err
	}
	for _, el := range ev.Elements {
		switch el := el.(type) {
		case trace.ReadElement:
			le.elems = append(le.elems, lElem{prefix: el.Prefix, name: el.Name, indices: printIdx(el.Indices), value: el.Value.StripVClock().String(), mem: el})
		case trace.WriteElement:
			x := lElem{write: true, prefix: el.Prefix, name: el.Name, indices: printIdx(el.Indices), value: el.Value.StripVClock().String(), mem: el}
			if el.OldValueHint != nil {
				x.hasOld, x.old = true, el.OldValueHint.StripVClock().String()
			}
			le.elems = append(le.elems, x)
		default:
			return le, fmt.Errorf("element of unknown type %T", el)
		}
	}
	return le, nil
}

type jName struct {
	Prefix string `json:"prefix"`
	Name   string `json:"name"`
	Self   string `json:"self"`
}
type jElem struct {
	Tag      string   `json:"tag"`
	Name     *jName   `json:"name"`
	Indices  []string `json:"indices"`
	Value    *string  `json:"value"`
	OldValue *string  `json:"oldValue"`
}
type jEvent struct {
	ArchetypeName *string         `json:"archetypeName"`
	Self          *string         `json:"self"`
	CsElements    []jElem         `json:"csElements"`
	Clock         json.RawMessage `json:"clock"`
	StartTime     *string         `json:"startTime"`
	EndTime       *string         `json:"endTime"`
	IsAbort       *bool           `json:"isAbort"`
}

func fromJSON(line string) (lEvent, error) {
	le := lEvent{line: line}
	dec := json.NewDecoder(strings.NewReader(line))
	dec.DisallowUnknownFields()
	var j jEvent
	if err := dec.Decode(&j); err != nil {
		return le, fmt.Errorf("does not parse: %v", err)
	}
	if j.ArchetypeName == nil || j.Self == nil || j.IsAbort == nil || j.Clock == nil || j.CsElements == nil || j.StartTime == nil || j.EndTime == nil {
		return le, fmt.Errorf("a field is missing (archetypeName, self, csElements, clock, startTime, endTime, isAbort)")
	}
	le.arch, le.self, le.isAbort = *j.ArchetypeName, *j.Self, *j.IsAbort
	var err error
	if le.clock, err = parseClock(j.Clock); err != nil {
		return le, err
	}
	for _, el := range j.CsElements {
		if el.Name == nil || el.Value == nil || el.Indices == nil {
			return le, fmt.Errorf("an element lacks name, indices or value")
		}
		x := lElem{prefix: el.Name.Prefix, name: el.Name.Name, self: el.Name.Self, indices: el.Indices, value: *el.Value}
		switch el.Tag {
		case "read":
			if el.OldValue != nil {
				return le, fmt.Errorf("a read element carries oldValue")
			}
		case "write":
			x.write = true
			if el.OldValue != nil {
				x.hasOld, x.old = true, *el.OldValue
			}
		default:
			return le, fmt.Errorf("element tag %q", el.Tag)
		}
		le.elems = append(le.elems, x)
	}
	return le, nil
}

// collect gathers the logged events of one archetype: from the harness's recorder, or from the file
// the context created for itself in PGO_TRACE_DIR.
func (pr *progRun) collect() error {
	pr.logged = nil
	if !pr.fileMode {
		for i := range pr.res.Events {
			e := &pr.res.Events[i]
			if !e.Traced {
				continue // reported by oracle (1) through prog's anomaly list
			}
			le, err := fromMemory(&e.Trace)
			if err != nil {
				return fmt.Errorf("C18: %s self=%s event of attempt #%d: %v", pr.name, pr.self, e.Seq, err)
			}
			pr.logged = append(pr.logged, le)
		}
		return nil
	}
	clean := strings.ReplaceAll(pr.self.String(), "\"", "")
	fs, err := filepath.Glob(filepath.Join(traceDir, "trace-"+clean+"-*.log"))
	if err != nil || len(fs) != 1 {
		return fmt.Errorf("INCONCLUSIVE: expected exactly one trace file for self=%s in %s, found %v (%v)", pr.self, traceDir, fs, err)
	}
	raw, err := os.ReadFile(fs[0])
	if err != nil {
		return fmt.Errorf("INCONCLUSIVE: %v", err)
	}
	if len(raw) > 0 && raw[len(raw)-1] != '\n' {
		return fmt.Errorf("C18 (7): the trace file of %s self=%s does not end with a complete line", pr.name, pr.self)
	}
	sc := bufio.NewScanner(bytes.NewReader(raw))
	sc.Buffer(make([]byte, 1<<20), 1<<26)
	n := 0
	for sc.Scan() {
		n++
		le, err := fromJSON(sc.Text())
		if err != nil {
			return fmt.Errorf("C18 (7): line %d of the trace file of %s self=%s %v\nline: %s", n, pr.name, pr.self, err, sc.Text())
		}
		pr.logged = append(pr.logged, le)
	}
	return sc.Err()
}
