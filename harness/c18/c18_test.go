// C18 — execution traces are faithful and causally consistent.
//
// The test binary must be started with PGO_TRACE_DIR set (vector clocks are switched on in an
// init() of package tla). Ground truth is the interpreter's own log (package prog): every
// iface.Read / iface.Write it issued, per attempt, and the attempt's outcome as told by the control
// flow (same label again = aborted, next label = committed) — never by the trace under test.
package c18

import (
	"fmt"
	"io"
	"log"
	"os"
	"path/filepath"
	"strings"
	"sync"
	"testing"
	"time"

	"github.com/DistCompiler/pgo/distsys/tla"
	"pgregory.net/rapid"

	"verif/harness/prog"
	"verif/harness/vstat"
)

var traceDir string // this process's own directory below PGO_TRACE_DIR

func TestMain(m *testing.M) {
	if os.Getenv("VERIF_KEEP_LOG") == "" {
		log.SetOutput(io.Discard)
	}
	base := os.Getenv("PGO_TRACE_DIR")
	if base == "" {
		fmt.Println("INCONCLUSIVE: C18 needs the test process to be started with PGO_TRACE_DIR set (vector clocks are decided at package init)")
		os.Exit(2)
	}
	probe := tla.WrapCausal(tla.MakeNumber(1), tla.VClock{}.Inc("probe", tla.MakeNumber(1)))
	if probe.GetVClock() == nil {
		fmt.Println("INCONCLUSIVE: PGO_TRACE_DIR is set but causal wrapping is off")
		os.Exit(2)
	}
	if err := os.MkdirAll(base, 0750); err != nil {
		fmt.Printf("INCONCLUSIVE: cannot create %s: %v\n", base, err)
		os.Exit(2)
	}
	// one directory per process: contexts read the variable again when they are created
	d, err := os.MkdirTemp(base, "c18-")
	if err != nil {
		fmt.Printf("INCONCLUSIVE: cannot create a directory below %s: %v\n", base, err)
		os.Exit(2)
	}
	traceDir = d
	os.Setenv("PGO_TRACE_DIR", d)
	vstat.Main(m, "C18")
}

func cleanTraceDir() {
	fs, _ := filepath.Glob(filepath.Join(traceDir, "trace-*.log"))
	for _, f := range fs {
		os.Remove(f)
	}
}

// progRun is one archetype of a case: its program, bindings, and everything seen.
type progRun struct {
	id       int
	name     string
	self     tla.Value
	p        *prog.Program
	insts    []prog.Instance
	async    map[int]bool
	fileMode bool
	res      prog.Result
	logged   []lEvent
}

func (pr *progRun) key() string { return pr.name + "|" + pr.self.String() }

func (pr *progRun) render() string {
	mode := "in-memory recorder"
	if pr.fileMode {
		mode = "file recorder"
	}
	return fmt.Sprintf("archetype %s self=%s (%s)\n%s", pr.name, pr.self, mode, pr.p.String(pr.insts))
}

type caseRun struct {
	runs   []*progRun
	shared []*prog.SharedLog
	owner  map[string]tokRef // base token -> where it is written
}

type tokRef struct{ prog, label, op int }

func (c *caseRun) render() string {
	var b strings.Builder
	for _, pr := range c.runs {
		b.WriteString(pr.render())
	}
	return b.String()
}

func (c *caseRun) history() string {
	var b strings.Builder
	for _, pr := range c.runs {
		fmt.Fprintf(&b, "-- %s self=%s\n", pr.name, pr.self)
		for i := range pr.res.Events {
			if n := len(pr.res.Events); n > 80 && i >= 40 && i < n-40 {
				if i == 40 {
					fmt.Fprintf(&b, "  ... %d attempts omitted ...\n", n-80)
				}
				continue
			}
			b.WriteString(renderAttempt(pr, i))
		}
	}
	return b.String()
}

func drawIdentity(t *rapid.T, i int) (string, tla.Value) {
	name := []string{prog.ArchName, "Node", "ARelay"}[rapid.IntRange(0, 2).Draw(t, "archname")]
	if rapid.Bool().Draw(t, "stringself") {
		return name, tla.MakeString(fmt.Sprintf("s%d", i+1))
	}
	return name, tla.MakeNumber(int32(i + 1))
}

func drawAsync(t *rapid.T, n int) map[int]bool {
	async := map[int]bool{}
	for i := 0; i < n; i++ {
		async[i] = rapid.IntRange(0, 3).Draw(t, "asyncwrapper") == 0
	}
	return async
}

// execute runs all archetypes of the case concurrently on the real Run loop and collects the logs.
func (c *caseRun) execute(t *rapid.T) {
	cleanTraceDir()
	var wg sync.WaitGroup
	cancel := make(chan struct{})
	var once sync.Once
	for _, pr := range c.runs {
		pr := pr
		wg.Add(1)
		go func() {
			defer wg.Done()
			pr.res = prog.Execute(pr.p, pr.insts, prog.Options{Self: pr.self, Name: pr.name, ProgID: pr.id, Async: pr.async,
				NoRecorder: pr.fileMode, ByControlFlow: true, StickyPlan: len(c.runs) > 1, RunTimeout: 90 * time.Second, Cancel: cancel})
			if pr.res.Failure != "" {
				once.Do(func() { close(cancel) }) // the others may be waiting for values that will never come
			}
		}()
	}
	wg.Wait()
	for _, pr := range c.runs {
		if f := pr.res.Failure; f != "" && !strings.Contains(f, "cancelled (a peer had already failed)") {
			if strings.HasPrefix(f, "INCONCLUSIVE") {
				t.Fatalf("%s\n%s\n%s", f, c.render(), c.history())
			}
			t.Fatalf("the run itself failed before the trace could be judged (a panic in the runtime, atomicity — C01's business —, or the harness): %s\nprograms:\n%s\nhistory:\n%s", f, c.render(), c.history())
		}
	}
	for _, pr := range c.runs {
		if f := pr.res.Failure; f != "" {
			t.Fatalf("%s\n%s\n%s", f, c.render(), c.history())
		}
		if !pr.res.Finished {
			t.Fatalf("INCONCLUSIVE: archetype %s self=%s did not reach Done\n%s\n%s", pr.name, pr.self, c.render(), c.history())
		}
	}
	for _, pr := range c.runs {
		if err := pr.collect(); err != nil {
			t.Fatalf("%v\nprograms:\n%s\nhistory:\n%s", err, c.render(), c.history())
		}
	}
	cleanTraceDir()
}

func (c *caseRun) teardown() {
	for _, pr := range c.runs {
		for _, in := range pr.insts {
			in.Teardown()
		}
	}
}

func (c *caseRun) stats() {
	for _, pr := range c.runs {
		for _, in := range pr.insts {
			vstat.Class("kind." + in.Kind())
		}
		vstat.ClassN("attempts", int64(len(pr.res.Events)))
		for _, e := range pr.res.Events {
			if e.Outcome == prog.OutcomeAborted {
				vstat.Class("attempts.aborted")
				if e.Fired {
					vstat.Class("abort.injected." + e.Injected.Mode.String())
				} else {
					vstat.Class("abort.not-injected")
				}
			}
		}
		if pr.fileMode {
			vstat.Class("archetypes.file-recorder")
		} else {
			vstat.Class("archetypes.in-memory-recorder")
		}
	}
}

// ---------------------------------------------------------------------------------------------
// TestC18Single: one archetype over a generated resource mix.

func genSingleMix(t *rapid.T) []prog.Instance {
	n := rapid.IntRange(2, 6).Draw(t, "resources")
	var out []prog.Instance
	for len(out) < n {
		switch rapid.IntRange(0, 13).Draw(t, "kind") {
		case 0, 1, 2:
			out = append(out, prog.NewLocal())
		case 3, 4:
			out = append(out, prog.NewLocalFn())
		case 5:
			out = append(out, prog.NewIncMapOfLocals())
		case 6:
			out = append(out, prog.NewHashMapOfLocals())
		case 7, 8:
			out = append(out, prog.NewInChan(rapid.IntRange(0, 6).Draw(t, "prefill")))
		case 9, 10:
			out = append(out, prog.NewOutChan())
		case 11:
			out = append(out, prog.NewShared(false))
		case 12:
			if rapid.IntRange(0, 7).Draw(t, "persistent") == 0 { // opening a store is slow
				out = append(out, prog.NewShared(true))
			}
		case 13:
			if rapid.IntRange(0, 2).Draw(t, "files") == 0 {
				out = append(out, prog.NewFiles())
			}
		}
	}
	return out
}

func TestC18Single(t *testing.T) {
	t.Cleanup(cleanTraceDir)
	rapid.Check(t, func(t *rapid.T) {
		if vstat.OverBudget() {
			return
		}
		vstat.Case()
		insts := genSingleMix(t)
		p := prog.GenProgram(t, insts, 3)
		name, self := drawIdentity(t, 0)
		pr := &progRun{id: 0, name: name, self: self, p: p, insts: insts, async: drawAsync(t, len(insts)),
			fileMode: rapid.IntRange(0, 5).Draw(t, "filerecorder") == 0}
		c := &caseRun{runs: []*progRun{pr}, owner: map[string]tokRef{}}
		c.indexTokens()
		defer c.teardown()
		c.execute(t)
		c.judge(t)
		c.stats()
		// non-trivial: an aborted attempt that had performed >= 1 write and, later in the same attempt, a
		// chained write (a second write to the same local, or to the same key of a function-valued local)
		abortedAfterWrite, chained, both := false, false, false
		for _, e := range pr.res.Events {
			seen := map[string]bool{}
			for _, o := range e.Ops {
				if o.Kind != prog.OpWrite || !o.OK {
					continue
				}
				if e.Outcome == prog.OutcomeAborted {
					abortedAfterWrite = true
				}
				if k := insts[o.Res].Kind(); k == "local" || k == "local-function" {
					key := fmt.Sprintf("%d/%d", o.Res, o.Idx)
					if seen[key] {
						chained = true
						if e.Outcome == prog.OutcomeAborted {
							both = true
						}
					}
					seen[key] = true
				}
			}
		}
		if abortedAfterWrite {
			vstat.Class("single.aborted-after-write")
		}
		if chained {
			vstat.Class("single.chained-local-write")
		}
		if both {
			desc := c.render()
			vstat.NonTrivial(desc, func() string { return desc + "history:\n" + c.history() })
		}
	})
}

// ---------------------------------------------------------------------------------------------
// TestC18Relay / TestC18RelayTCP: 2-4 archetypes in a chain A -> B -> C -> D; each hop is a Go
// channel, a shared variable or (TCP variant) a TCP mailbox; extra shared variables carry
// knowledge in any direction.

type role int

const (
	rolePrivate role = iota
	roleSend         // sending end of the hop to the next archetype (blocking for the reader)
	roleRecv         // receiving end of the hop from the previous archetype
	roleShared       // shared variable (never blocks; readable and writable by every sharer)
)

type binding struct {
	role role
	link int  // hop number for roleSend / roleRecv
	tcp  bool // the receiving end closes its listener when its archetype ends: it must read everything
}

func genRelay(t *rapid.T, tcp bool) *caseRun {
	n := rapid.IntRange(2, 4).Draw(t, "archetypes")
	c := &caseRun{owner: map[string]tokRef{}}
	binds := make([][]binding, n)
	for i := 0; i < n; i++ {
		name, self := drawIdentity(t, i)
		c.runs = append(c.runs, &progRun{id: i, name: name, self: self})
	}
	add := func(i int, in prog.Instance, b binding) {
		c.runs[i].insts = append(c.runs[i].insts, in)
		binds[i] = append(binds[i], b)
	}
	for i := 0; i < n; i++ {
		for k := rapid.IntRange(1, 2).Draw(t, "privates"); k > 0; k-- {
			switch rapid.IntRange(0, 5).Draw(t, "private") {
			case 0, 1, 2:
				add(i, prog.NewLocal(), binding{role: rolePrivate})
			case 3:
				add(i, prog.NewLocalFn(), binding{role: rolePrivate})
			case 4:
				add(i, prog.NewIncMapOfLocals(), binding{role: rolePrivate})
			case 5:
				add(i, prog.NewHashMapOfLocals(), binding{role: rolePrivate})
			}
		}
	}
	tcpAt := -1
	if tcp {
		tcpAt = rapid.IntRange(0, n-2).Draw(t, "tcphop")
	}
	for h := 0; h < n-1; h++ {
		kind := rapid.IntRange(0, 2).Draw(t, "hopkind")
		if h == tcpAt || (tcp && kind == 2 && rapid.Bool().Draw(t, "moretcp")) {
			s, r := prog.NewTCPLink()
			add(h, s, binding{role: roleSend, link: h})
			add(h+1, r, binding{role: roleRecv, link: h, tcp: true})
		} else if kind == 0 {
			ends, lg := prog.NewSharedLink(2, 20*time.Millisecond)
			c.shared = append(c.shared, lg)
			add(h, ends[0], binding{role: roleShared})
			add(h+1, ends[1], binding{role: roleShared})
		} else {
			s, r := prog.NewChanLink(5 * time.Millisecond)
			add(h, s, binding{role: roleSend, link: h})
			add(h+1, r, binding{role: roleRecv, link: h})
		}
	}
	for k := rapid.IntRange(0, 2).Draw(t, "extrashared"); k > 0; k-- {
		var members []int
		for i := 0; i < n; i++ {
			if rapid.Bool().Draw(t, "sharer") {
				members = append(members, i)
			}
		}
		if len(members) < 2 {
			a := rapid.IntRange(0, n-2).Draw(t, "sharerA")
			members = []int{a, rapid.IntRange(a+1, n-1).Draw(t, "sharerB")}
		}
		ends, lg := prog.NewSharedLink(len(members), 20*time.Millisecond)
		c.shared = append(c.shared, lg)
		for j, i := range members {
			add(i, ends[j], binding{role: roleShared})
		}
	}
	// programs, upstream first: a read of a blocking hop is only placed while the upstream program
	// sends enough (all its labels commit eventually), so the chain cannot starve
	sent := make([]int, n) // tokens sent into hop h by archetype h
	for i := 0; i < n; i++ {
		pr := c.runs[i]
		p := &prog.Program{}
		tok, used := 0, 0
		nLabels := rapid.IntRange(1, 4).Draw(t, "labels")
		tcpIn := -1
		for ri, b := range binds[i] {
			if b.role == roleRecv && b.tcp {
				tcpIn = ri
			}
		}
		for li := 0; li < nLabels; li++ {
			nOps := rapid.IntRange(1, 6).Draw(t, "ops")
			var ops []prog.Op
			if li == nLabels-1 && tcpIn >= 0 {
				// the listener of a TCP hop goes away with its archetype: read whatever the sender still sends
				for ; used < sent[i-1]; used++ {
					ops = append(ops, prog.Op{Kind: prog.OpRead, Res: tcpIn, Idx: 0})
				}
				nOps += len(ops)
			}
			for tries := 0; len(ops) < nOps && tries < 40; tries++ {
				ri := rapid.IntRange(0, len(pr.insts)-1).Draw(t, "res")
				afterLinkWrite := len(ops) > 0 && ops[len(ops)-1].Kind == prog.OpWrite && binds[i][ops[len(ops)-1].Res].role != rolePrivate
				if afterLinkWrite && binds[i][ri].role == rolePrivate && rapid.Bool().Draw(t, "learnafterwrite") {
					// favour the shape "write to a link, then learn something from another link in the same section"
					ri = rapid.IntRange(0, len(pr.insts)-1).Draw(t, "res2")
				}
				in, b := pr.insts[ri], binds[i][ri]
				idx := -1
				if in.NumIdx() > 0 {
					idx = rapid.IntRange(0, in.NumIdx()-1).Draw(t, "idx")
				}
				wantRead := rapid.Bool().Draw(t, "read") || (afterLinkWrite && b.role == roleShared)
				switch {
				case b.role == roleRecv:
					if used < sent[b.link] {
						used++
						ops = append(ops, prog.Op{Kind: prog.OpRead, Res: ri, Idx: idx})
					}
				case wantRead && in.CanRead():
					ops = append(ops, prog.Op{Kind: prog.OpRead, Res: ri, Idx: idx})
				case in.CanWrite():
					tok++
					fwd := rapid.IntRange(0, 3).Draw(t, "forward") // 1: relay the last value read, tagged; 2: ... keeping the clock it carried
					ops = append(ops, prog.Op{Kind: prog.OpWrite, Res: ri, Idx: idx, Tok: fmt.Sprintf("p%dt%d", i, tok), Fwd: fwd == 1 || fwd == 2, Raw: fwd == 2})
					if b.role == roleSend {
						sent[b.link]++
					}
				}
			}
			if len(ops) == 0 {
				ops = append(ops, prog.Op{Kind: prog.OpRead, Res: 0, Idx: firstIdx(pr.insts[0])}) // r0 is a private, readable binding
			}
			p.Labels = append(p.Labels, prog.Label{Ops: ops})
			var plan []prog.Fault
			for a := rapid.IntRange(0, 2).Draw(t, "faults"); a > 0; a-- {
				f := prog.Fault{Mode: prog.FaultMode(rapid.IntRange(0, 3).Draw(t, "faultmode"))}
				switch f.Mode {
				case prog.FAwait:
					f.Pos = rapid.IntRange(0, len(ops)).Draw(t, "faultpos")
				case prog.FRefuse, prog.FFailAfter:
					f.Pos = rapid.IntRange(0, len(ops)-1).Draw(t, "faultpos")
					if !pr.insts[ops[f.Pos].Res].Wrappable() {
						f.Mode = prog.FAwait
						f.Pos++
					}
				case prog.FPreCommit:
					f.Res = ops[rapid.IntRange(0, len(ops)-1).Draw(t, "faultres")].Res
					if !pr.insts[f.Res].Wrappable() {
						f.Mode = prog.FAwait
						f.Pos = len(ops)
					}
				}
				plan = append(plan, f)
			}
			p.Plan = append(p.Plan, plan)
		}
		pr.p = p
		pr.async = drawAsync(t, len(pr.insts))
	}
	fileMode := rapid.IntRange(0, 5).Draw(t, "filerecorder") == 0
	for _, pr := range c.runs {
		pr.fileMode = fileMode
	}
	c.indexTokens()
	return c
}

func firstIdx(in prog.Instance) int {
	if in.NumIdx() > 0 {
		return 0
	}
	return -1
}

// indexTokens: every written value is a unique token; remember where each is written.
func (c *caseRun) indexTokens() {
	for _, pr := range c.runs {
		for li, l := range pr.p.Labels {
			for j, o := range l.Ops {
				if o.Kind == prog.OpWrite {
					if _, dup := c.owner[o.Tok]; dup {
						panic("harness: token " + o.Tok + " is not unique")
					}
					c.owner[o.Tok] = tokRef{prog: pr.id, label: li, op: j}
				}
			}
		}
	}
}

func runRelay(t *rapid.T, tcp bool) {
	if vstat.OverBudget() {
		return
	}
	vstat.Case()
	c := genRelay(t, tcp)
	defer c.teardown()
	c.execute(t)
	st := c.judge(t)
	c.stats()
	vstat.Class(fmt.Sprintf("relay.archetypes.%d", len(c.runs)))
	// non-trivial: >= 3 archetypes, a middle one has an attempt that aborted after reading a value
	// written by another archetype, and some writer read something after a write to a link in the
	// same section
	if len(c.runs) >= 3 && st.middleAbortAfterForeignRead && st.writerReadsAfterLinkWrite {
		desc := c.render()
		vstat.NonTrivial(desc, func() string { return desc + "history:\n" + c.history() })
	}
}

func TestC18Relay(t *testing.T) {
	t.Cleanup(cleanTraceDir)
	rapid.Check(t, func(t *rapid.T) { runRelay(t, false) })
}

func TestC18RelayTCP(t *testing.T) {
	t.Cleanup(cleanTraceDir)
	rapid.Check(t, func(t *rapid.T) { runRelay(t, true) })
}
