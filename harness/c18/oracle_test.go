package c18

import (
	"fmt"
	"sort"
	"strings"

	"github.com/DistCompiler/pgo/distsys/tla"
	"github.com/DistCompiler/pgo/distsys/trace"
	"pgregory.net/rapid"

	"verif/harness/hx"
	"verif/harness/prog"
	"verif/harness/vstat"
)

type caseStats struct {
	middleAbortAfterForeignRead bool
	writerReadsAfterLinkWrite   bool
}

func renderAttempt(pr *progRun, i int) string {
	e := pr.res.Events[i]
	var b strings.Builder
	fmt.Fprintf(&b, "  attempt #%d %s (attempt %d of the label), by the control flow: %s", e.Seq, e.LabelName, e.Attempt,
		[...]string{"unknown", "COMMITTED", "ABORTED"}[e.Outcome])
	if e.Fired {
		fmt.Fprintf(&b, " (injected: %s)", e.Injected.Mode)
	}
	b.WriteString("\n    interpreter: ")
	for _, o := range e.Ops {
		ix := ""
		if o.Idx >= 0 {
			ix = fmt.Sprintf("[%d]", o.Idx)
		}
		st := ""
		if !o.OK {
			st = " FAILED"
			if o.Performed {
				st = " PERFORMED-THEN-FAILED"
			}
		}
		if o.Kind == prog.OpRead {
			fmt.Fprintf(&b, "read r%d%s=%q%s; ", o.Res, ix, o.Tok, st)
		} else {
			fmt.Fprintf(&b, "r%d%s:=%q%s; ", o.Res, ix, o.Tok, st)
		}
	}
	if e.PCWrite != "" {
		fmt.Fprintf(&b, "goto %s", e.PCWrite)
	}
	b.WriteString("\n")
	if len(pr.logged) == len(pr.res.Events) {
		fmt.Fprintf(&b, "    logged: %s", pr.logged[i])
	}
	return b.String()
}

func (c *caseRun) failf(t *rapid.T, pr *progRun, attempt int, format string, a ...any) {
	msg := fmt.Sprintf(format, a...)
	where := ""
	if pr != nil && attempt >= 0 && attempt < len(pr.res.Events) {
		where = fmt.Sprintf("\noffending attempt of %s self=%s:\n%s", pr.name, pr.self, renderAttempt(pr, attempt))
	}
	t.Fatalf("C18 %s%s\nprograms:\n%s\nhistory:\n%s", msg, where, c.render(), c.history())
}

// ---- expected elements ----------------------------------------------------------------------------

type hintKind int

const (
	hintMust      hintKind = iota // must be present and equal
	hintIfPresent                 // absent, or present and equal
	hintUnjudged                  // write-only resource: there is no previous value to compare with
)

type xElem struct {
	write        bool
	prefix, name string
	indices      []tla.Value
	value        tla.Value
	hk           hintKind
	hint         tla.Value
}

func (x xElem) String() string {
	ix := ""
	for _, i := range x.indices {
		ix += "[" + i.String() + "]"
	}
	n := x.name
	if x.prefix != "" {
		n = x.prefix + "." + x.name
	}
	if !x.write {
		return fmt.Sprintf("read %s%s = %s", n, ix, x.value)
	}
	switch x.hk {
	case hintMust:
		return fmt.Sprintf("write %s%s := %s (old value hint %s)", n, ix, x.value, x.hint)
	case hintIfPresent:
		return fmt.Sprintf("write %s%s := %s (old value hint absent or %s)", n, ix, x.value, x.hint)
	}
	return fmt.Sprintf("write %s%s := %s", n, ix, x.value)
}

func safeEqual(a, b tla.Value) (eq bool) {
	if p := hx.Catch(func() { eq = a.StripVClock().Equal(b) }); p != nil {
		return false
	}
	return eq
}

// sharedFold replays one shared variable's access log in lock order: the value each read must
// have returned and the value in place just before each write.
func (c *caseRun) sharedFold(t *rapid.T, lg *prog.SharedLog) map[int]string {
	prev := map[int]string{}
	committed := lg.Init
	entries := lg.Entries()
	type grp struct{ p, s int }
	closed := map[grp]bool{}
	for i := 0; i < len(entries); {
		g := grp{entries[i].ProgID, entries[i].Seq}
		if closed[g] {
			c.failf(t, c.runs[g.p], g.s-1, "harness/C07: the accesses of one attempt to a shared variable are interleaved with another attempt's (the variable's lock did not serialise them)")
		}
		closed[g] = true
		cur := committed
		j := i
		for ; j < len(entries) && entries[j].ProgID == g.p && entries[j].Seq == g.s; j++ {
			a := entries[j]
			if a.Write {
				prev[j] = cur
				cur = a.Tok
			} else if a.OK && a.Tok != cur {
				c.failf(t, c.runs[g.p], g.s-1, "before the trace can be judged (C07's business): a shared variable returned %q where the serial replay of its accesses in lock order holds %q", a.Tok, cur)
			}
		}
		if c.runs[g.p].res.Events[g.s-1].Outcome == prog.OutcomeCommitted {
			committed = cur
		}
		i = j
	}
	return prev
}

func (c *caseRun) expected(pr *progRun, e *prog.Event, sharedPrev map[*prog.SharedLog]map[int]string) []xElem {
	out := []xElem{{name: ".pc", value: tla.MakeString(e.LabelName)}}
	for _, o := range e.Ops {
		if !o.OK {
			continue
		}
		in := pr.insts[o.Res]
		x := xElem{write: o.Kind == prog.OpWrite, prefix: pr.name, name: fmt.Sprintf("r%d", o.Res), value: tla.MakeString(o.Tok), hk: hintUnjudged}
		if o.Idx >= 0 {
			x.indices = []tla.Value{in.IdxVal(o.Idx)}
		}
		if x.write {
			switch k := in.Kind(); {
			case k == "local" || k == "local-function":
				x.hk, x.hint = hintMust, tla.MakeString(o.Prev)
			case o.HasPrev:
				x.hk, x.hint = hintIfPresent, tla.MakeString(o.Prev)
			case o.LinkPos >= 0:
				if sl, ok := in.(*prog.SharedLinkEnd); ok {
					x.hk, x.hint = hintIfPresent, tla.MakeString(sharedPrev[sl.Log()][o.LinkPos])
				}
			}
		}
		out = append(out, x)
	}
	if e.PCWrite != "" {
		out = append(out, xElem{write: true, name: ".pc", value: tla.MakeString(e.PCWrite), hk: hintMust, hint: tla.MakeString(e.LabelName)})
	}
	return out
}

// match compares one logged element with the expected one; "" = agree.
func match(pr *progRun, g lElem, x xElem) string {
	if g.write != x.write || g.prefix != x.prefix || g.name != x.name {
		return "kind or resource name differ"
	}
	if g.mem == nil && g.self != pr.self.String() {
		return fmt.Sprintf("name.self is %s, the archetype's self prints as %s", g.self, pr.self.String())
	}
	if len(g.indices) != len(x.indices) {
		return fmt.Sprintf("%d indices logged, %d used", len(g.indices), len(x.indices))
	}
	for i := range x.indices {
		if g.indices[i] != x.indices[i].String() {
			return fmt.Sprintf("index %d is logged as %s, used %s", i, g.indices[i], x.indices[i])
		}
	}
	if g.value != x.value.String() {
		return fmt.Sprintf("value is logged as %s, the interpreter saw %s", g.value, x.value)
	}
	var memHint *tla.Value
	switch m := g.mem.(type) {
	case trace.ReadElement:
		for i := range x.indices {
			if !safeEqual(m.Indices[i], x.indices[i]) {
				return fmt.Sprintf("index %d is not Equal to the one used", i)
			}
		}
		if !safeEqual(m.Value, x.value) {
			return "value (clock stripped) is not Equal to what the interpreter saw"
		}
	case trace.WriteElement:
		for i := range x.indices {
			if !safeEqual(m.Indices[i], x.indices[i]) {
				return fmt.Sprintf("index %d is not Equal to the one used", i)
			}
		}
		if !safeEqual(m.Value, x.value) {
			return "value (clock stripped) is not Equal to what the interpreter wrote"
		}
		memHint = m.OldValueHint
	}
	if !x.write {
		return ""
	}
	switch x.hk {
	case hintMust:
		if !g.hasOld {
			return fmt.Sprintf("(3) no old-value hint on a write to archetype-local state; the value just before the write was %s", x.hint)
		}
		fallthrough
	case hintIfPresent:
		if g.hasOld {
			if g.old != x.hint.String() {
				return fmt.Sprintf("(3) old-value hint is %s, the value just before the write was %s", g.old, x.hint)
			}
			if memHint != nil && !safeEqual(*memHint, x.hint) {
				return "(3) old-value hint is not Equal to the value just before the write"
			}
		}
	case hintUnjudged:
		if g.hasOld {
			vstat.Class("hint.present-on-write-only-resource(unjudged)")
		}
	}
	return ""
}

// ---- vector-clock models ---------------------------------------------------------------------------

type vc map[int]int

func (a vc) clone() vc {
	b := vc{}
	for k, v := range a {
		b[k] = v
	}
	return b
}
func (a vc) merge(b vc) {
	for k, v := range b {
		if v > a[k] {
			a[k] = v
		}
	}
}

// firstExcess returns a component in which a exceeds b (lowest program first), or -1.
func (a vc) firstExcess(b vc) int {
	ks := make([]int, 0, len(a))
	for k := range a {
		ks = append(ks, k)
	}
	sort.Ints(ks)
	for _, k := range ks {
		if a[k] > b[k] {
			return k
		}
	}
	return -1
}

func (c *caseRun) vcString(v vc) string {
	ks := make([]int, 0, len(v))
	for k := range v {
		ks = append(ks, k)
	}
	sort.Ints(ks)
	var p []string
	for _, k := range ks {
		p = append(p, fmt.Sprintf("%s:%d", c.runs[k].key(), v[k]))
	}
	return "{" + strings.Join(p, ", ") + "}"
}

type writer struct {
	prog, seq, op int
}

type models struct {
	c         *caseRun
	committed []map[int]int // [prog] label -> Seq of the attempt that committed it
	// lower model: what an attempt certainly knows, clocks being stamped on values at the write
	lowBefore [][][]vc // [prog][seq-1][k] = knowledge just before op k (k = len(ops): at the end)
	lowAcc    []vc     // knowledge carried over from committed attempts
	lowDone   []int
	lowBusy   []int
	// upper model: the most an attempt can causally know
	up     [][]vc
	upDone []int
	upBusy []int
	err    string
}

func base(tok string) string {
	if i := strings.IndexByte(tok, '~'); i >= 0 {
		return tok[:i]
	}
	return tok
}

// writerOf identifies the attempt that wrote the value a read returned (nil: an initial value, or
// one of the reader's own).
func (m *models) writerOf(reader int, tok string) *writer {
	ref, ok := m.c.owner[base(tok)]
	if !ok || ref.prog == reader {
		return nil
	}
	seq, ok := m.committed[ref.prog][ref.label]
	if !ok {
		if m.err == "" {
			m.err = fmt.Sprintf("a read returned %q, written by label l%d of %s, but no attempt of that label committed (atomicity, not the trace, is broken)", tok, ref.label, m.c.runs[ref.prog].key())
		}
		return nil
	}
	return &writer{prog: ref.prog, seq: seq, op: ref.op}
}

func (m *models) ensureLow(p, s int) {
	if m.lowBusy[p] != 0 && s >= m.lowBusy[p] {
		if m.err == "" {
			m.err = fmt.Sprintf("causal cycle: attempt #%d of %s depends on a value written by itself or by a later attempt", m.lowBusy[p], m.c.runs[p].key())
		}
		return
	}
	for t := m.lowDone[p] + 1; t <= s; t++ {
		m.lowBusy[p] = t
		e := &m.c.runs[p].res.Events[t-1]
		know := m.lowAcc[p].clone()
		know[p] = t
		var before []vc
		for _, o := range e.Ops {
			before = append(before, know.clone())
			if o.Kind == prog.OpRead && o.OK {
				if w := m.writerOf(p, o.Tok); w != nil {
					m.ensureLow(w.prog, w.seq)
					if m.err != "" {
						return
					}
					know.merge(m.lowBefore[w.prog][w.seq-1][w.op])
				}
			}
		}
		before = append(before, know.clone())
		m.lowBefore[p][t-1] = before
		if e.Outcome == prog.OutcomeCommitted {
			m.lowAcc[p].merge(know)
		}
		m.lowBusy[p] = 0
		m.lowDone[p] = t
	}
}

func (m *models) ensureUp(p, s int) {
	if m.upBusy[p] != 0 && s >= m.upBusy[p] {
		if m.err == "" {
			m.err = fmt.Sprintf("causal cycle: attempt #%d of %s depends on itself or on a later attempt", m.upBusy[p], m.c.runs[p].key())
		}
		return
	}
	for t := m.upDone[p] + 1; t <= s; t++ {
		m.upBusy[p] = t
		pr := m.c.runs[p]
		e := &pr.res.Events[t-1]
		know := vc{}
		if t > 1 {
			know = m.up[p][t-2].clone()
		}
		know[p] = t
		for _, o := range e.Ops {
			if o.Kind == prog.OpRead && o.OK {
				if w := m.writerOf(p, o.Tok); w != nil {
					m.ensureUp(w.prog, w.seq)
					if m.err != "" {
						return
					}
					know.merge(m.up[w.prog][w.seq-1])
				}
			}
			if sl, ok := pr.insts[o.Res].(*prog.SharedLinkEnd); ok && o.Performed && o.LinkPos >= 0 {
				// a shared variable keeps a clock of its own, fed by every access (read or write,
				// committed or not) of every sharer, and hands it to whoever touches it next
				last := map[int]int{}
				for _, a := range sl.Log().Entries()[:o.LinkPos] {
					if a.ProgID != p && a.Seq > last[a.ProgID] {
						last[a.ProgID] = a.Seq
					}
				}
				qs := make([]int, 0, len(last))
				for q := range last {
					qs = append(qs, q)
				}
				sort.Ints(qs)
				for _, q := range qs {
					m.ensureUp(q, last[q])
					if m.err != "" {
						return
					}
					know.merge(m.up[q][last[q]-1])
				}
			}
		}
		m.up[p][t-1] = know
		m.upBusy[p] = 0
		m.upDone[p] = t
	}
}

// ---- the oracles ------------------------------------------------------------------------------------

func (c *caseRun) judge(t *rapid.T) caseStats {
	var st caseStats
	// (1) one event per attempt, in order, outcome flagged correctly
	for _, pr := range c.runs {
		if len(pr.res.Anomalies) > 0 {
			c.failf(t, pr, -1, "(1) %s self=%s: %s", pr.name, pr.self, strings.Join(pr.res.Anomalies, "; "))
		}
		if len(pr.logged) != len(pr.res.Events) {
			c.failf(t, pr, -1, "(1) %s self=%s made %d attempts, %d events are logged", pr.name, pr.self, len(pr.res.Events), len(pr.logged))
		}
		for i, e := range pr.res.Events {
			if e.Seq != i+1 {
				c.failf(t, pr, i, "harness: attempt ordinals out of step")
			}
			if e.Outcome == prog.OutcomeUnknown {
				c.failf(t, pr, i, "INCONCLUSIVE: the outcome of an attempt is not known from the control flow")
			}
			g := pr.logged[i]
			if g.arch != pr.name || g.self != pr.self.String() {
				c.failf(t, pr, i, "(1) event %d is logged for archetype %s self=%s", i+1, g.arch, g.self)
			}
			if g.isAbort != (e.Outcome == prog.OutcomeAborted) {
				c.failf(t, pr, i, "(1) isAbort=%v is logged for an attempt that %s (the next attempt ran %s)", g.isAbort,
					map[bool]string{true: "aborted", false: "committed"}[e.Outcome == prog.OutcomeAborted],
					map[bool]string{true: "the same label again", false: "the next label"}[e.Outcome == prog.OutcomeAborted])
			}
		}
	}
	// shared variables: replay in lock order (gives the value in place before each write)
	sharedPrev := map[*prog.SharedLog]map[int]string{}
	for _, lg := range c.shared {
		sharedPrev[lg] = c.sharedFold(t, lg)
	}
	// (2) (3) elements
	for _, pr := range c.runs {
		for i := range pr.res.Events {
			e := &pr.res.Events[i]
			want := c.expected(pr, e, sharedPrev)
			got := pr.logged[i].elems
			for k := 0; k < len(want) || k < len(got); k++ {
				switch {
				case k >= len(got):
					c.failf(t, pr, i, "(2) the event lacks element %d: %s", k, want[k])
				case k >= len(want):
					c.failf(t, pr, i, "(2) the event has an element the attempt did not perform: %s", got[k])
				}
				if d := match(pr, got[k], want[k]); d != "" {
					c.failf(t, pr, i, "(2) element %d: %s\n  logged:   %s\n  expected: %s", k, d, got[k], want[k])
				}
			}
		}
	}
	// (4) folding the committed writes of the log reproduces every logged read of local state
	for _, pr := range c.runs {
		state := map[string]string{".pc": tla.MakeString(pr.res.Events[0].LabelName).String()}
		local := map[string]bool{}
		for ri, in := range pr.insts {
			name := fmt.Sprintf("r%d", ri)
			switch in.Kind() {
			case "local":
				local[name] = true
				state[name] = tla.MakeString("init").String()
			case "local-function":
				local[name] = true
				for k := 0; k < in.NumIdx(); k++ {
					state[name+"["+in.IdxVal(k).String()+"]"] = tla.MakeString(fmt.Sprintf("init%d", k)).String()
				}
			}
		}
		for i, g := range pr.logged {
			scratch := map[string]string{}
			for k, v := range state {
				scratch[k] = v
			}
			for _, el := range g.elems {
				var key string
				switch {
				case el.prefix == "" && el.name == ".pc":
					key = ".pc"
				case el.prefix == pr.name && local[el.name]:
					key = el.name
					for _, ix := range el.indices {
						key += "[" + ix + "]"
					}
				default:
					continue
				}
				if el.write {
					scratch[key] = el.value
					continue
				}
				have, ok := scratch[key]
				if !ok {
					c.failf(t, pr, i, "(4) logged read of %s, which the replay of the logged writes does not know", key)
				}
				if have != el.value {
					c.failf(t, pr, i, "(4) logged read %s, but replaying the committed writes logged so far (and this attempt's own) gives %s = %s", el, key, have)
				}
			}
			if !g.isAbort {
				state = scratch
			}
		}
	}
	// (5) own component = ordinal of the attempt
	keyOf := map[string]int{}
	for _, pr := range c.runs {
		keyOf[pr.key()] = pr.id
	}
	logged := make([][]vc, len(c.runs))
	for _, pr := range c.runs {
		for i, g := range pr.logged {
			v := vc{}
			for k, n := range g.clock {
				q, ok := keyOf[k]
				if !ok {
					c.failf(t, pr, i, "(6) the clock has a component for %s, which is not an archetype of this run", k)
				}
				v[q] = n
			}
			if v[pr.id] != i+1 {
				c.failf(t, pr, i, "(5) own clock component is %d at the archetype's attempt #%d (it must grow by exactly one per logged attempt)", v[pr.id], i+1)
			}
			if g.mem != nil && g.mem.Clock.Get(pr.name, pr.self) != i+1 {
				c.failf(t, pr, i, "(5) Clock.Get(%s, %s) = %d at attempt #%d", pr.name, pr.self, g.mem.Clock.Get(pr.name, pr.self), i+1)
			}
			logged[pr.id] = append(logged[pr.id], v)
		}
	}
	// (6) causality
	commitStamped := map[string]bool{"channel-link-receive": true} // kinds whose values carry the writer's clock as of its commit (measured on the unchanged tree: 0 of 469 such reads fell short)
	m := &models{c: c}
	n := len(c.runs)
	m.committed = make([]map[int]int, n)
	m.lowBefore, m.up = make([][][]vc, n), make([][]vc, n)
	m.lowAcc, m.lowDone, m.lowBusy, m.upDone, m.upBusy = make([]vc, n), make([]int, n), make([]int, n), make([]int, n), make([]int, n)
	for _, pr := range c.runs {
		m.committed[pr.id] = map[int]int{}
		for _, e := range pr.res.Events {
			if e.Outcome == prog.OutcomeCommitted && e.Label < len(pr.p.Labels) {
				m.committed[pr.id][e.Label] = e.Seq
			}
		}
		m.lowBefore[pr.id] = make([][]vc, len(pr.res.Events))
		m.up[pr.id] = make([]vc, len(pr.res.Events))
		m.lowAcc[pr.id] = vc{}
	}
	for _, pr := range c.runs {
		m.ensureLow(pr.id, len(pr.res.Events))
		m.ensureUp(pr.id, len(pr.res.Events))
		if m.err != "" {
			c.failf(t, pr, -1, "(6) %s", m.err)
		}
	}
	restrictedReads, shapeReads, foreignReads := 0, 0, 0
	for _, pr := range c.runs {
		for i := range pr.res.Events {
			e := &pr.res.Events[i]
			lc := logged[pr.id][i]
			foreignSeen, linkWritten := false, false
			for _, o := range e.Ops {
				if !o.OK {
					continue
				}
				if o.Kind == prog.OpWrite {
					if strings.Contains(pr.insts[o.Res].Kind(), "link") {
						linkWritten = true
					}
					continue
				}
				if linkWritten {
					st.writerReadsAfterLinkWrite = true
				}
				w := m.writerOf(pr.id, o.Tok)
				if w == nil {
					continue
				}
				foreignSeen = true
				foreignReads++
				wpr := c.runs[w.prog]
				stamp := m.lowBefore[w.prog][w.seq-1][w.op]
				if k := stamp.firstExcess(lc); k >= 0 {
					c.failf(t, pr, i, "(6) the attempt read %q, written by attempt #%d of %s (op %d of %s); at that write the writer's clock was at least %s, but the reader's logged clock %s does not dominate it (component %s: %d < %d)\nwriter:\n%s",
						o.Tok, w.seq, wpr.key(), w.op, wpr.res.Events[w.seq-1].LabelName, c.vcString(stamp), c.vcString(lc), c.runs[k].key(), lc[k], stamp[k], renderAttempt(wpr, w.seq-1))
				}
				ops := m.lowBefore[w.prog][w.seq-1]
				end := ops[len(ops)-1]
				if end.firstExcess(stamp) >= 0 {
					shapeReads++ // the writer learnt something after this write, in the same section
					via := pr.insts[o.Res].Kind()
					vstat.Class("reads.writer-learnt-more-after-the-write.via." + via)
					if k := end.firstExcess(lc); k >= 0 {
						restrictedReads++
						vstat.Class("reads.restricted.via." + via)
						if commitStamped[via] {
							// Go-channel hops: OutputChan publishes at Commit and stamps what it publishes with the clock of the
							// committing attempt, so here the statement's "dominates the writer's" holds for the writer's whole
							// attempt, and is asserted
							c.failf(t, pr, i, "(6) the attempt read %q over a Go channel, published by the commit of attempt #%d of %s, whose clock at the end of its section was at least %s; the reader's logged clock %s does not dominate it (component %s: %d < %d)\nwriter:\n%s",
								o.Tok, w.seq, wpr.key(), c.vcString(end), c.vcString(lc), c.runs[k].key(), lc[k], end[k], renderAttempt(wpr, w.seq-1))
						}
					}
				}
			}
			if foreignSeen && e.Outcome == prog.OutcomeAborted && pr.id > 0 && pr.id < n-1 {
				st.middleAbortAfterForeignRead = true
			}
			if k := lc.firstExcess(m.up[pr.id][i]); k >= 0 {
				c.failf(t, pr, i, "(6) the logged clock %s claims knowledge of %s up to its attempt #%d, but nothing the attempt (or an earlier one) read or touched can carry more than %s",
					c.vcString(lc), c.runs[k].key(), lc[k], c.vcString(m.up[pr.id][i]))
			}
		}
	}
	vstat.ClassN("reads.of-another-archetypes-value", int64(foreignReads))
	vstat.ClassN("reads.writer-learnt-more-after-the-write", int64(shapeReads))
	vstat.ClassN("reads.restricted.reader-misses-writer-post-write-knowledge", int64(restrictedReads))
	if shapeReads > 0 {
		vstat.Class("cases.with-writer-learning-after-write-then-read-by-another")
	}
	if restrictedReads > 0 {
		vstat.Class("restricted.reader-misses-writer-post-write-knowledge")
	}
	if st.middleAbortAfterForeignRead {
		vstat.Class("relay.middle-abort-after-foreign-read")
	}
	if st.writerReadsAfterLinkWrite {
		vstat.Class("relay.writer-reads-after-link-write")
	}
	return st
}
