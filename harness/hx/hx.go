// Package hx holds small helpers shared by the per-property test packages.
package hx

import (
	"errors"
	"fmt"
	"runtime/debug"
	"time"

	"github.com/DistCompiler/pgo/distsys"
)

// PanicError is what SafeRun returns when Run panicked.
type PanicError struct {
	Value any
	Stack string
}

func (p *PanicError) Error() string { return fmt.Sprintf("panic: %v\n%s", p.Value, p.Stack) }

func (p *PanicError) Unwrap() error {
	if e, ok := p.Value.(error); ok {
		return e
	}
	return nil
}

// SafeRun runs the context and turns a panic into an error so that a failing
// case can be reported, shrunk and replayed instead of killing the process.
func SafeRun(ctx *distsys.MPCalContext) (err error) {
	defer func() {
		if r := recover(); r != nil {
			err = &PanicError{Value: r, Stack: string(debug.Stack())}
		}
	}()
	return ctx.Run()
}

// Catch runs f and returns the recovered panic (nil if none).
func Catch(f func()) (p *PanicError) {
	defer func() {
		if r := recover(); r != nil {
			p = &PanicError{Value: r, Stack: string(debug.Stack())}
		}
	}()
	f()
	return nil
}

var ErrTimeout = errors.New("timed out")

// Wait waits for ch up to d.
func Wait[T any](ch <-chan T, d time.Duration) (T, error) {
	select {
	case v := <-ch:
		return v, nil
	case <-time.After(d):
		var z T
		return z, ErrTimeout
	}
}
