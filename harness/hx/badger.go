package hx

import (
	"github.com/dgraph-io/badger/v3"
)

// MemBadger opens a small in-memory badger (the default options allocate and zero a 64 MB
// arena per database, which would dominate the cost of a generated case).
func MemBadger() *badger.DB {
	opt := badger.DefaultOptions("").WithInMemory(true).WithLogger(nil).
		WithMemTableSize(8 << 20).WithValueThreshold(256 << 10).WithNumMemtables(2).
		WithBlockCacheSize(1 << 20).WithIndexCacheSize(0).WithNumCompactors(2).WithDetectConflicts(false)
	db, err := badger.Open(opt)
	if err != nil {
		panic(err)
	}
	return db
}
