// Package vstat collects what a check actually covered (cases, classes, distinct
// non-trivial cases, samples, set-aside known findings) and writes it as JSON
// for the driver (/verif/check) to merge into evidence/<id>.json.
//
// It also carries the known-findings list: oracles ask Known(sig) before
// failing, so that a listed finding is counted and the search continues.
package vstat

import (
	"encoding/json"
	"fmt"
	"hash/fnv"
	"os"
	"sort"
	"strconv"
	"sync"
	"testing"
	"time"
)

type finding struct {
	Property  string `json:"property"`
	Signature string `json:"signature"`
	Status    string `json:"status"` // "open" or "fixed"
	What      string `json:"what"`
}

type Stats struct {
	mu          sync.Mutex
	Property    string            `json:"property"`
	Cases       int64             `json:"cases"`
	Classes     map[string]int64  `json:"classes"`
	NonTrivial  map[string]bool   `json:"-"`
	NTList      []string          `json:"nontrivial_hashes"`
	NTTotal     int64             `json:"nontrivial_total"`
	Samples     []string          `json:"samples"`
	Excluded    map[string]int64  `json:"excluded_known"`
	Notes       map[string]string `json:"notes"`
	maxSamples  int
	maxHashes   int
	sampleEvery int64
	ntSeen      int64
	known       map[string]finding
}

var global = &Stats{
	Classes:     map[string]int64{},
	NonTrivial:  map[string]bool{},
	Excluded:    map[string]int64{},
	Notes:       map[string]string{},
	maxSamples:  6,
	maxHashes:   400000,
	sampleEvery: 1,
	known:       map[string]finding{},
}

func init() {
	if p := os.Getenv("VERIF_KNOWN"); p != "" {
		b, err := os.ReadFile(p)
		if err == nil {
			var fs struct {
				Findings []finding `json:"findings"`
			}
			if json.Unmarshal(b, &fs) == nil {
				for _, f := range fs.Findings {
					if f.Status == "open" {
						global.known[f.Property+"|"+f.Signature] = f
					}
				}
			}
		}
	}
}

// Main is to be called from TestMain: runs tests, flushes stats.
func Main(m *testing.M, property string) {
	global.Property = property
	code := m.Run()
	Flush()
	os.Exit(code)
}

func Flush() {
	p := os.Getenv("VERIF_STATS_OUT")
	if p == "" {
		return
	}
	global.mu.Lock()
	defer global.mu.Unlock()
	global.NTList = global.NTList[:0]
	for h := range global.NonTrivial {
		global.NTList = append(global.NTList, h)
	}
	sort.Strings(global.NTList)
	b, err := json.Marshal(global)
	if err != nil {
		fmt.Fprintf(os.Stderr, "vstat: %v\n", err)
		return
	}
	_ = os.WriteFile(p, b, 0644)
}

// Case counts one generated case.
func Case() {
	global.mu.Lock()
	global.Cases++
	global.mu.Unlock()
}

// Class bumps a named counter (operator hit, resource kind, outcome class ...).
func Class(name string) { ClassN(name, 1) }

func ClassN(name string, n int64) {
	global.mu.Lock()
	global.Classes[name] += n
	global.mu.Unlock()
}

// NonTrivial records a case that meets the property's non-triviality rule,
// keyed by a rendering that identifies the case; sample is kept for a few.
func NonTrivial(key string, sample func() string) {
	h := fnv.New64a()
	h.Write([]byte(key))
	hs := fmt.Sprintf("%016x", h.Sum64())
	global.mu.Lock()
	defer global.mu.Unlock()
	global.NTTotal++
	if !global.NonTrivial[hs] {
		if len(global.NonTrivial) < global.maxHashes {
			global.NonTrivial[hs] = true
		}
		global.ntSeen++
		// keep samples spread across the run: 1st, 2nd, 4th, 8th ... distinct case
		if sample != nil && global.ntSeen >= global.sampleEvery && len(global.Samples) < global.maxSamples*4 {
			global.sampleEvery *= 3
			s := sample()
			if len(s) > 4000 {
				s = s[:4000] + " …(truncated)"
			}
			global.Samples = append(global.Samples, s)
		}
	}
}

// Sample stores a rendering unconditionally (bounded).
func Sample(s string) {
	global.mu.Lock()
	defer global.mu.Unlock()
	if len(global.Samples) < global.maxSamples*4 {
		if len(s) > 4000 {
			s = s[:4000] + " …(truncated)"
		}
		global.Samples = append(global.Samples, s)
	}
}

func Note(k, v string) {
	global.mu.Lock()
	global.Notes[k] = v
	global.mu.Unlock()
}

// Known reports whether a disagreement with this signature is a listed open
// finding for the property under test; if so it is counted and the caller
// must carry on as if the case passed.
func Known(sig string) bool {
	global.mu.Lock()
	defer global.mu.Unlock()
	if _, ok := global.known[global.Property+"|"+sig]; ok {
		global.Excluded[sig]++
		return true
	}
	return false
}

// SetProperty is for packages that serve several properties from one binary.
func SetProperty(p string) {
	global.mu.Lock()
	global.Property = p
	global.mu.Unlock()
}

// ---- wall-clock budget ---------------------------------------------------------------------
// The driver gives every shard a budget (VERIF_BUDGET_S, seconds from process start, a fraction of
// the shard's watchdog). A property that finds the budget spent returns at once, so the remaining
// cases are counted as "not run" (class budget.cases-not-run) instead of the shard running into its
// watchdog: a slow machine means "explored less", never a failure. On an idle machine the budget
// is never reached, so a run stays a function of the code and VERIF_SEED.
var started = time.Now()

func budget() time.Duration {
	f, err := strconv.ParseFloat(os.Getenv("VERIF_BUDGET_S"), 64)
	if err != nil || f <= 0 {
		return 0
	}
	return time.Duration(f * float64(time.Second))
}

// OverBudget is asked at the top of every generated case.
func OverBudget() bool {
	b := budget()
	if b == 0 || time.Since(started) < b {
		return false
	}
	ClassN("budget.cases-not-run", 1)
	return true
}

// DeadlineAt returns the instant at which frac (>1 allowed) of the budget is spent; zero if there is none.
func DeadlineAt(frac float64) time.Time {
	b := budget()
	if b == 0 {
		return time.Time{}
	}
	return started.Add(time.Duration(float64(b) * frac))
}
