// C16 — the other generated systems keep their specs' safety invariants.
package c16

import (
	"fmt"
	"io"
	"log"
	"strings"
	"testing"

	"github.com/DistCompiler/pgo/distsys/tla"
	"github.com/DistCompiler/pgo/distsys/trace"
	"pgregory.net/rapid"

	"verif/harness/sched"
	"verif/harness/sysbind"
	"verif/harness/tlx"
	"verif/harness/vstat"
)

func TestMain(m *testing.M) {
	log.SetOutput(io.Discard)
	vstat.Main(m, "C16")
}

func draws(t *rapid.T) (func(string, int) int, func(*sched.Instance, string, uint) uint) {
	return func(what string, k int) int { return rapid.IntRange(0, k-1).Draw(t, what) },
		func(_ *sched.Instance, id string, k uint) uint { return uint(rapid.IntRange(0, int(k)-1).Draw(t, id)) }
}

// drive steps uniformly drawn live instances; onCommit returns a violation or "".
func drive(t *rapid.T, s *sysbind.Sys, steps int, hist *strings.Builder, onCommit func(in *sched.Instance, pc string, st sched.Step) string) {
	if err := s.Sim.Start(); err != nil {
		t.Fatalf("INCONCLUSIVE: %v", err)
	}
	defer s.Sim.Shutdown()
	for step := 0; step < steps; step++ {
		var live []*sched.Instance
		for _, x := range s.Sim.Insts {
			if x.Live {
				live = append(live, x)
			}
		}
		if len(live) == 0 {
			return
		}
		x := live[rapid.IntRange(0, len(live)-1).Draw(t, "who")]
		pc := x.PC
		st := s.Sim.Step(x)
		switch st.Kind {
		case sched.Committed:
			fmt.Fprintf(hist, "%d: %s commits %s\n", step, x.Name, pc)
			if st.Err != nil {
				t.Fatalf("%s ended with %v\n%s", x.Name, st.Err, hist.String())
			}
			if m := onCommit(x, pc, st); m != "" {
				t.Fatalf("%s\n%s", m, hist.String())
			}
		case sched.Exited:
			if st.Err != nil {
				t.Fatalf("%s failed: %v\n%s", x.Name, st.Err, hist.String())
			}
		case sched.Stuck:
			t.Fatalf("INCONCLUSIVE: %s stuck at %s\n%s", x.Name, pc, hist.String())
		}
	}
}

func buffersOK(s *sysbind.Sys, bound int) (string, bool) {
	full := false
	net := s.Store.Vars["network"]
	for i := range net.Ks {
		if n := len(net.Vs[i].E); n > bound {
			return fmt.Sprintf("buffer of node %s holds %d messages, bound is %d", net.Ks[i], n, bound), full
		} else if n == bound {
			full = true
		}
	}
	return "", full
}

func reads(st sched.Step, name string) []tla.Value {
	var out []tla.Value
	for _, el := range st.Event.Elements {
		if r, ok := el.(trace.ReadElement); ok && r.Name == name {
			out = append(out, r.Value)
		}
	}
	return out
}

func writes(st sched.Step, name string) []trace.WriteElement {
	var out []trace.WriteElement
	for _, el := range st.Event.Elements {
		if w, ok := el.(trace.WriteElement); ok && w.Name == name {
			out = append(out, w)
		}
	}
	return out
}

func TestC16DQueue(t *testing.T) {
	rapid.Check(t, func(t *rapid.T) {
		if vstat.OverBudget() {
			return
		}
		vstat.Case()
		n := rapid.IntRange(1, 4).Draw(t, "consumers")
		buf := rapid.IntRange(1, 3).Draw(t, "buffer")
		d, c := draws(t)
		s := sysbind.NewDQueue(n, buf, d, c)
		s.Store.RefuseWritePct = rapid.SampledFrom([]int{0, 0, 10, 30}).Draw(t, "write-refusals")
		s.Store.RefusePct = rapid.SampledFrom([]int{0, 0, 5, 20}).Draw(t, "precommit-refusals")
		var hist strings.Builder
		var requests []int          // requesters in the order the producer received them
		served := 0                 // how many of them have been served
		lastItem := int32(-1)       // production order
		sentTo := map[int][]int32{} // items sent to each consumer, not yet consumed
		outstanding := map[int]int{}
		consumed := map[int32]bool{}
		everFull := false
		drive(t, s, rapid.IntRange(20, 400).Draw(t, "steps"), &hist, func(in *sched.Instance, pc string, st sched.Step) string {
			self := int(in.Self.AsNumber())
			if m, full := buffersOK(s, buf); m != "" {
				return m
			} else if full {
				everFull = true
			}
			switch pc {
			case "AConsumer.c1":
				outstanding[self]++
			case "AProducer.p1":
				for _, r := range reads(st, "net") {
					requests = append(requests, int(r.AsNumber()))
				}
			case "AProducer.p2":
				for _, w := range writes(st, "net") {
					to, item := int(w.Indices[0].AsNumber()), w.Value.AsNumber()
					if served >= len(requests) || requests[served] != to {
						return fmt.Sprintf("item %d was sent to consumer %d, but requests arrived in order %v (%d served)", item, to, requests, served)
					}
					served++
					if item <= lastItem {
						return fmt.Sprintf("item %d handed out after item %d: not in production order / produced twice", item, lastItem)
					}
					lastItem = item
					sentTo[to] = append(sentTo[to], item)
				}
			case "AConsumer.c2":
				for _, r := range reads(st, "net") {
					item := r.AsNumber()
					if outstanding[self] == 0 {
						return fmt.Sprintf("consumer %d obtained item %d without an outstanding request", self, item)
					}
					outstanding[self]--
					if consumed[item] {
						return fmt.Sprintf("item %d was consumed twice", item)
					}
					consumed[item] = true
					if len(sentTo[self]) == 0 || sentTo[self][0] != item {
						return fmt.Sprintf("consumer %d obtained item %d, the producer sent it %v", self, item, sentTo[self])
					}
					sentTo[self] = sentTo[self][1:]
				}
			}
			return ""
		})
		vstat.ClassN("dqueue.items", int64(len(consumed)))
		if n >= 2 && everFull && len(consumed) >= 2 {
			h := fmt.Sprintf("dqueue consumers=%d buffer=%d\n%s", n, buf, hist.String())
			vstat.NonTrivial(h, func() string { return h })
		}
	})
}

func TestC16LoadBalancer(t *testing.T) {
	rapid.Check(t, func(t *rapid.T) {
		if vstat.OverBudget() {
			return
		}
		vstat.Case()
		ns := rapid.IntRange(1, 3).Draw(t, "servers")
		nc := rapid.IntRange(1, 3).Draw(t, "clients")
		buf := rapid.IntRange(1, 3).Draw(t, "buffer")
		d, c := draws(t)
		s := sysbind.NewLoadBalancer(ns, nc, buf, d, c)
		s.Store.RefuseWritePct = rapid.SampledFrom([]int{0, 0, 10, 30}).Draw(t, "write-refusals")
		s.Store.RefusePct = rapid.SampledFrom([]int{0, 0, 5, 20}).Draw(t, "precommit-refusals")
		var hist strings.Builder
		open := map[int]int32{}       // client -> path of its open request
		answered := map[int32]int{}   // path -> number of pages sent for it
		forwarded := map[int32]int{}  // path -> number of servers it was forwarded to
		everFull := false
		done := 0
		drive(t, s, rapid.IntRange(20, 500).Draw(t, "steps"), &hist, func(in *sched.Instance, pc string, st sched.Step) string {
			self := int(in.Self.AsNumber())
			if m, full := buffersOK(s, buf); m != "" {
				return "BuffersOk: " + m
			} else if full {
				everFull = true
			}
			switch pc {
			case "AClient.clientRequest":
				for _, r := range reads(st, "instream") {
					if _, dup := open[self]; dup {
						return fmt.Sprintf("client %d issued a second request while one is open", self)
					}
					open[self] = r.AsNumber()
				}
			case "ALoadBalancer.sendServer":
				for _, w := range writes(st, "mailboxes") {
					forwarded[w.Value.ApplyFunction(tla.MakeString("path")).AsNumber()]++
				}
			case "AServer.sendPage":
				for _, w := range writes(st, "mailboxes") {
					path := w.Value.ApplyFunction(tla.MakeString("path")).AsNumber()
					answered[path]++
					if answered[path] > 1 {
						return fmt.Sprintf("request %d was answered %d times", path, answered[path])
					}
					if forwarded[path] != 1 {
						return fmt.Sprintf("request %d was forwarded to %d servers", path, forwarded[path])
					}
					if want, ok := open[int(w.Indices[0].AsNumber())]; !ok || want != path {
						return fmt.Sprintf("page for request %d sent to client %v, whose open request is %v", path, w.Indices[0], open[int(w.Indices[0].AsNumber())])
					}
				}
			case "AClient.clientReceive":
				for _, r := range reads(st, "mailboxes") {
					path := r.ApplyFunction(tla.MakeString("path")).AsNumber()
					if want, ok := open[self]; !ok || want != path {
						return fmt.Sprintf("client %d received the page of request %d, its open request is %v", self, path, open[self])
					}
					delete(open, self)
					done++
				}
			}
			return ""
		})
		vstat.ClassN("loadbalancer.requests-answered", int64(done))
		if nc >= 2 && everFull && done >= 2 {
			h := fmt.Sprintf("loadbalancer servers=%d clients=%d buffer=%d\n%s", ns, nc, buf, hist.String())
			vstat.NonTrivial(h, func() string { return h })
		}
	})
}

func TestC16Proxy(t *testing.T) {
	rapid.Check(t, func(t *rapid.T) {
		if vstat.OverBudget() {
			return
		}
		vstat.Case()
		ns := rapid.IntRange(1, 3).Draw(t, "servers")
		nc := rapid.IntRange(1, 2).Draw(t, "clients")
		crashPct := rapid.SampledFrom([]int{0, 3, 10, 30}).Draw(t, "crashpct")
		d, _ := draws(t)
		s := sysbind.NewProxy(ns, nc, d, func(_ *sched.Instance, id string, k uint) uint {
			if sysbind.ProxyFailChoice(id) {
				if rapid.IntRange(0, 99).Draw(t, "crash?") < crashPct {
					return 1
				}
				return 0
			}
			return uint(rapid.IntRange(0, int(k)-1).Draw(t, id))
		})
		s.Store.RefuseWritePct = rapid.SampledFrom([]int{0, 0, 10, 30}).Draw(t, "write-refusals")
		s.Store.RefusePct = rapid.SampledFrom([]int{0, 0, 5, 20}).Draw(t, "precommit-refusals")
		var hist strings.Builder
		px := s.Named["proxy"][0]
		crashBeforeAnswer, fails, answers := false, 0, 0
		drive(t, s, rapid.IntRange(20, 500).Draw(t, "steps"), &hist, func(in *sched.Instance, pc string, st sched.Step) string {
			if in.PC == "AServer.failLabel" && pc != "AServer.failLabel" {
				fmt.Fprintf(&hist, "   -- %s crashes\n", in.Name)
				if px.PC == "AProxy.serversLoop" || px.PC == "AProxy.proxyRcvMsg" {
					crashBeforeAnswer = true
				}
			}
			if px.Live && px.PC == "AProxy.sendMsgToClient" {
				resp := px.Ctx.IFace().ReadArchetypeResourceLocal("AProxy.proxyResp")
				if resp.ApplyFunction(tla.MakeString("body")).AsNumber() == 100 {
					for _, sv := range s.Named["server"] {
						if sv.Live && sv.PC != "AServer.failLabel" && sv.PC != "AServer.Done" {
							return fmt.Sprintf("ProxyOK: the proxy is about to report failure to the client while %s is alive at %s", sv.Name, sv.PC)
						}
					}
				}
			}
			if pc == "AProxy.sendMsgToClient" {
				answers++
				for _, w := range writes(st, "net") {
					if w.Value.ApplyFunction(tla.MakeString("body")).AsNumber() == 100 {
						fails++
					}
				}
			}
			return ""
		})
		vstat.ClassN("proxy.answers", int64(answers))
		vstat.ClassN("proxy.failure-answers", int64(fails))
		if crashBeforeAnswer && answers > 0 {
			h := fmt.Sprintf("proxy servers=%d clients=%d\n%s", ns, nc, hist.String())
			vstat.NonTrivial(h, func() string { return h })
		}
	})
}

var _ = tlx.Int

// TestC16GCounter: the generated gcounter node archetypes over real GCounter values with harness-scheduled merges.
func TestC16GCounter(t *testing.T) {
	rapid.Check(t, func(t *rapid.T) {
		if vstat.OverBudget() {
			return
		}
		vstat.Case()
		n := rapid.IntRange(1, 5).Draw(t, "nodes")
		rounds := 0
		if rapid.Bool().Draw(t, "bench") {
			rounds = rapid.IntRange(1, 3).Draw(t, "rounds")
		}
		d, c := draws(t)
		s, env := sysbind.NewGCounterSys(n, rounds, d, c)
		if err := s.Sim.Start(); err != nil {
			t.Fatalf("INCONCLUSIVE: %v", err)
		}
		defer s.Sim.Shutdown()
		var hist strings.Builder
		// knowledge: how many increments of each node a node has seen (state-based merge carries prefixes)
		know := map[int]map[int]int{}
		incs := map[int]int{}
		last := map[int]int32{}
		for i := 1; i <= n; i++ {
			know[i] = map[int]int{}
		}
		mergedBetweenIncs := false
		sinceInc := false
		check := func(when string) {
			for i := 1; i <= n; i++ {
				got := env.Vals[i].Read().AsNumber()
				want := 0
				for _, k := range know[i] {
					want += k
				}
				if int(got) != want {
					t.Fatalf("%s: node %d reads %d, the increments it has received sum to %d\n%s", when, i, got, want, hist.String())
				}
				if got < last[i] {
					t.Fatalf("%s: node %d's counter went down from %d to %d\n%s", when, i, last[i], got, hist.String())
				}
				last[i] = got
			}
		}
		for step, budget := 0, rapid.IntRange(10, 300).Draw(t, "steps"); step < budget; step++ {
			if n > 1 && rapid.IntRange(0, 3).Draw(t, "merge?") == 0 {
				i := rapid.IntRange(1, n).Draw(t, "i")
				j := rapid.IntRange(1, n).Draw(t, "j")
				if i != j {
					env.Merge(i, j)
					for w := 1; w <= n; w++ {
						m := know[i][w]
						if know[j][w] > m {
							m = know[j][w]
						}
						know[i][w], know[j][w] = m, m
					}
					fmt.Fprintf(&hist, "%d: merge %d <-> %d\n", step, i, j)
					if sinceInc {
						mergedBetweenIncs = true
					}
					check("after merge")
				}
				continue
			}
			var live []*sched.Instance
			for _, x := range s.Sim.Insts {
				if x.Live {
					live = append(live, x)
				}
			}
			if len(live) == 0 {
				break
			}
			x := live[rapid.IntRange(0, len(live)-1).Draw(t, "who")]
			pc := x.PC
			st := s.Sim.Step(x)
			if st.Kind == sched.Committed {
				self := int(x.Self.AsNumber())
				fmt.Fprintf(&hist, "%d: %s commits %s\n", step, x.Name, pc)
				if st.Err != nil {
					t.Fatalf("%s ended with %v\n%s", x.Name, st.Err, hist.String())
				}
				if len(writes(st, "cntr")) > 0 {
					incs[self]++
					know[self][self] = incs[self]
					sinceInc = true
				}
				check("after " + pc)
			} else if st.Kind == sched.Exited && st.Err != nil {
				t.Fatalf("%s failed: %v\n%s", x.Name, st.Err, hist.String())
			} else if st.Kind == sched.Stuck {
				t.Fatalf("INCONCLUSIVE: %s stuck\n%s", x.Name, hist.String())
			}
		}
		if n >= 2 && mergedBetweenIncs {
			h := fmt.Sprintf("gcounter nodes=%d bench-rounds=%d\n%s", n, rounds, hist.String())
			vstat.NonTrivial(h, func() string { return h })
		}
	})
}
