package c16

// systems/nestedcrdtimpl: the generated ACRDTResource archetype (a CRDT resource written in MPCal: it serves the
// nested-archetype request protocol on `in`/`out` and gossips its state over `network`). 1-4 instances run under the
// step scheduler on the spec's environment; the harness plays the resources' users: per instance a drawn stream of
// sections (READ / WRITE v ... then PRECOMMIT+COMMIT, or ABORT at any point). Which instance steps, which either-branch
// it takes (serve a request / merge a received state / send its state to a drawn peer) and when requests are posted and
// acknowledgements collected are all draws.
//
// Oracle (a grow-only counter; C16: "replicas with equal knowledge read equal values and counters never decrease"):
// after every committed step of instance i its committed state, as a vector of per-node counts, never decreases in
// any component, holds exactly the increments i has committed in its own component and never more than node k has
// committed in component k; every READ_ACK carries (state at the start of the section) + (the section's own writes);
// when no user is active any more and every pending state has been sent and merged, all instances hold the vector of
// all committed increments.

import (
	"fmt"
	"strings"
	"testing"

	"github.com/DistCompiler/pgo/distsys/tla"
	"pgregory.net/rapid"

	"verif/harness/sched"
	"verif/harness/specenv"
	"verif/harness/sysbind"
	"verif/harness/tlx"
	"verif/harness/vstat"
)

type crdtUser struct {
	open      bool   // a section is in progress (from the user's side)
	pending   string // request posted and not yet consumed by the archetype: "", READ, WRITE, PRECOMMIT, COMMIT, ABORT
	pendingV  int
	awaitAck  bool // request consumed, acknowledgement not yet collected
	precommit bool // PRECOMMIT acknowledged: the next request is COMMIT
	sections  int
}

func vecOf(v tla.Value, n int) ([]int, error) {
	out := make([]int, n+1)
	v = v.StripVClock()
	if !v.IsFunction() {
		return nil, fmt.Errorf("state is not a function: %v", v)
	}
	it := v.AsFunction().Iterator()
	for !it.Done() {
		k, c, _ := it.Next()
		if !k.IsNumber() || !c.IsNumber() || int(k.AsNumber()) < 1 || int(k.AsNumber()) > n {
			return nil, fmt.Errorf("state has an entry %v :> %v", k, c)
		}
		out[k.AsNumber()] = int(c.AsNumber())
	}
	return out, nil
}

func TestC16NestedCRDT(t *testing.T) {
	rapid.Check(t, func(t *rapid.T) {
		if vstat.OverBudget() {
			return
		}
		vstat.Case()
		n := rapid.IntRange(1, 4).Draw(t, "instances")
		buf := rapid.SampledFrom([]int{1, 2, 5}).Draw(t, "buffer")
		d, c := draws(t)
		s := sysbind.NewNestedCRDT(n, buf, d, c)
		s.Store.RefuseWritePct = rapid.SampledFrom([]int{0, 0, 10, 30}).Draw(t, "write-refusals")
		s.Store.RefusePct = rapid.SampledFrom([]int{0, 0, 5, 20}).Draw(t, "precommit-refusals")
		if err := s.Sim.Start(); err != nil {
			t.Fatalf("INCONCLUSIVE: %v", err)
		}
		defer s.Sim.Shutdown()
		var hist strings.Builder
		fail := func(f string, a ...interface{}) {
			t.Fatalf("%s\n%s", fmt.Sprintf(f, a...), hist.String())
		}
		inst := s.Named["resource"]
		users := make([]*crdtUser, n+1)
		committedOwn := make([]int, n+1) // increments committed by node k
		sectionInc := make([]int, n+1)
		snapshot := make([][]int, n+1) // state at the start of the open section (as the archetype saw it)
		inProgress := make([]bool, n+1)
		last := make([][]int, n+1)
		mergedInSection := make([]bool, n+1)
		nontrivial := false
		for i := 1; i <= n; i++ {
			users[i] = &crdtUser{}
			last[i] = make([]int, n+1)
		}
		cell := func(name string, i int) tlx.Val { return specenv.FnGet(s.Store.Vars[name], tlx.Int(int64(i))) }
		setCell := func(name string, i int, v tlx.Val) {
			s.Store.Vars[name] = specenv.FnSet(s.Store.Vars[name], tlx.Int(int64(i)), v)
		}
		empty := func(v tlx.Val) bool { return v.K == tlx.KStr && v.S == sysbind.EmptyCell.S }
		state := func(i int) []int {
			v, err := vecOf(inst[i-1].Ctx.IFace().ReadArchetypeResourceLocal("ACRDTResource.state"), n)
			if err != nil {
				fail("instance %d: %v", i, err)
			}
			return v
		}
		post := func(i int, tpe string, v int) {
			m := map[string]tlx.Val{"tpe": tlx.Str(tpe)}
			if tpe == "write_req" {
				m["value"] = tlx.Int(int64(v))
			}
			setCell("in", i, tlx.Rec(m))
			users[i].pending, users[i].pendingV = tpe, v
			fmt.Fprintf(&hist, "   user %d posts %s %d\n", i, tpe, v)
		}
		// userAct: one action of instance i's user, if any is possible
		userAct := func(i int, finishing bool) bool {
			u := users[i]
			if u.awaitAck {
				ack := cell("out", i)
				if empty(ack) {
					return false
				}
				setCell("out", i, sysbind.EmptyCell)
				u.awaitAck = false
				tpe := specenv.FnGet(ack, tlx.Str("tpe"))
				fmt.Fprintf(&hist, "   user %d collects %s\n", i, ack.TLA())
				want := map[string]string{"read_req": "read_ack", "write_req": "write_ack", "precommit_req": "precommit_ack", "commit_req": "commit_ack", "abort_req": "abort_ack"}[u.pending]
				if tpe.S != want {
					fail("instance %d answered %s to %s", i, ack.TLA(), u.pending)
				}
				if u.pending == "read_req" {
					sum := sectionInc[i]
					for _, x := range snapshot[i] {
						sum += x
					}
					if got := specenv.FnGet(ack, tlx.Str("value")); got.K != tlx.KInt || int(got.I) != sum {
						fail("instance %d: READ_ACK carries %s; the state at the start of the section %v plus the section's own writes (%d) gives %d", i, got.TLA(), snapshot[i][1:], sectionInc[i], sum)
					}
				}
				switch u.pending {
				case "precommit_req":
					u.precommit = true
				case "commit_req", "abort_req":
					u.open, u.precommit = false, false
					u.sections++
				}
				u.pending = ""
				return true
			}
			if u.pending != "" || !empty(cell("in", i)) {
				return false
			}
			switch {
			case u.precommit:
				post(i, "commit_req", 0)
			case !u.open && finishing:
				return false
			case !u.open:
				u.open = true
				if rapid.Bool().Draw(t, "start-with-write") {
					post(i, "write_req", rapid.IntRange(1, 3).Draw(t, "inc"))
				} else {
					post(i, "read_req", 0)
				}
			default:
				k := rapid.IntRange(0, 9).Draw(t, "next-request")
				switch {
				case finishing || k >= 7:
					post(i, "precommit_req", 0)
				case k == 6:
					post(i, "abort_req", 0)
				case k >= 3:
					post(i, "write_req", rapid.IntRange(1, 3).Draw(t, "inc"))
				default:
					post(i, "read_req", 0)
				}
			}
			return true
		}
		// step: one attempt of a drawn instance, judged
		step := func() {
			x := inst[rapid.IntRange(0, n-1).Draw(t, "who")]
			if !x.Live {
				fail("%s is not live", x.Name)
			}
			i := int(x.Self.AsNumber())
			before := state(i)
			hadReq := !empty(cell("in", i))
			netBefore := len(specenv.FnGet(s.Store.Vars["network"], tlx.Int(int64(i))).E)
			st := s.Sim.Step(x)
			switch st.Kind {
			case sched.Committed:
				if st.Err != nil {
					fail("%s ended with %v", x.Name, st.Err)
				}
			case sched.Aborted:
				return
			case sched.Exited:
				fail("%s exited: %v", x.Name, st.Err)
			default:
				fail("INCONCLUSIVE: %s stuck", x.Name)
			}
			u := users[i]
			consumed := hadReq && empty(cell("in", i))
			merged := len(specenv.FnGet(s.Store.Vars["network"], tlx.Int(int64(i))).E) < netBefore
			what := "sends its state"
			if merged {
				what = "merges a received state"
				if inProgress[i] {
					mergedInSection[i] = true
				}
			}
			if consumed {
				what = "serves " + u.pending
				u.awaitAck = true
				switch u.pending {
				case "read_req", "write_req":
					if !inProgress[i] {
						inProgress[i], snapshot[i], mergedInSection[i] = true, before, false
					}
					if u.pending == "write_req" {
						sectionInc[i] += u.pendingV
					}
				case "commit_req":
					committedOwn[i] += sectionInc[i]
					if mergedInSection[i] && n > 1 {
						nontrivial = true
					}
					sectionInc[i], inProgress[i] = 0, false
				case "abort_req":
					sectionInc[i], inProgress[i] = 0, false
				}
			}
			after := state(i)
			fmt.Fprintf(&hist, "%s %s: state %v -> %v\n", x.Name, what, before[1:], after[1:])
			for k := 1; k <= n; k++ {
				if after[k] < last[i][k] || after[k] < before[k] {
					fail("instance %d's committed count for node %d went down from %d to %d (%s)", i, k, before[k], after[k], what)
				}
				if k != i && after[k] > committedOwn[k] {
					fail("instance %d holds %d increments of node %d, which has committed only %d", i, after[k], k, committedOwn[k])
				}
			}
			if after[i] != committedOwn[i] {
				fail("instance %d holds %d of its own increments after it %s; it has committed %d", i, after[i], what, committedOwn[i])
			}
			last[i] = after
		}
		budget := rapid.IntRange(20, 400).Draw(t, "steps")
		for k := 0; k < budget; k++ {
			if rapid.IntRange(0, 3).Draw(t, "user?") == 0 {
				userAct(rapid.IntRange(1, n).Draw(t, "user"), false)
				continue
			}
			step()
		}
		// wind down: sections end (commit), then everything owed is sent and merged
		quiet := func() bool {
			for i := 1; i <= n; i++ {
				u := users[i]
				if u.open || u.pending != "" || u.awaitAck {
					return false
				}
				if len(specenv.FnGet(s.Store.Vars["network"], tlx.Int(int64(i))).E) > 0 {
					return false
				}
				rem := inst[i-1].Ctx.IFace().ReadArchetypeResourceLocal("ACRDTResource.remainingPeersToUpdate")
				if rem.AsSet().Len() > 0 {
					return false
				}
			}
			return true
		}
		converged := false
		for k := 0; k < 6000; k++ {
			if quiet() {
				converged = true
				break
			}
			acted := false
			for i := 1; i <= n && !acted; i++ {
				acted = userAct(i, true)
			}
			if !acted || k%2 == 0 {
				step()
			}
		}
		if !converged {
			vstat.Class("nestedcrdt.not-quiescent-within-the-step-budget")
		} else {
			vstat.Class("nestedcrdt.converged")
			for i := 1; i <= n; i++ {
				got := state(i)
				for k := 1; k <= n; k++ {
					if got[k] != committedOwn[k] {
						fail("nothing is in flight any more, yet instance %d holds %v; the committed increments are %v", i, got[1:], committedOwn[1:])
					}
				}
			}
		}
		if nontrivial {
			key := hist.String()
			vstat.NonTrivial("nestedcrdt|"+key, func() string { return "nestedcrdtimpl, " + fmt.Sprint(n) + " instances:\n" + tailOf(key, 3000) })
		}
	})
}

func tailOf(s string, n int) string {
	if len(s) > n {
		return "…" + s[len(s)-n:]
	}
	return s
}
