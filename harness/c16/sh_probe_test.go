package c16

import (
	"fmt"
	"os"
	"testing"
	"time"

	"github.com/DistCompiler/pgo/distsys"
	"github.com/DistCompiler/pgo/distsys/resources"
	"github.com/DistCompiler/pgo/distsys/tla"
	"github.com/DistCompiler/pgo/systems/shcounter"

	"verif/harness/hx"
)

func TestShProbe(t *testing.T) {
	if os.Getenv("SH_PROBE") == "" {
		t.Skip()
	}
	for _, rpc := range []bool{false, true} {
		for n := 3; n <= 6; n++ {
			ok, stuck := 0, 0
			for rep := 0; rep < 8; rep++ {
				addrs := make([]string, n)
				ids := make([]tla.Value, n)
				for i := range addrs {
					addrs[i] = freeAddr()
					ids[i] = tla.MakeString(fmt.Sprintf("node%d", i))
				}
				res := make([]*resources.TwoPCArchetypeResource, n)
				for i := 0; i < n; i++ {
					var reps []resources.ReplicaHandle
					if rpc {
						for j := 0; j < n; j++ {
							if j != i {
								h := resources.MakeRPCReplicaHandle(addrs[j], ids[j])
								reps = append(reps, &h)
							}
						}
					}
					res[i] = resources.NewTwoPC(tla.MakeNumber(0), addrs[i], reps, ids[i], nil).(*resources.TwoPCArchetypeResource)
				}
				if !rpc {
					for i := 0; i < n; i++ {
						var reps []resources.ReplicaHandle
						for j := 0; j < n; j++ {
							if j != i {
								reps = append(reps, resources.VerifMakeLocalReplicaHandle(res[j]))
							}
						}
						res[i].SetReplicas(reps)
					}
				}
				errs := make(chan error, n)
				var ctxs []*distsys.MPCalContext
				for i := 0; i < n; i++ {
					ctx := distsys.NewMPCalContext(tla.MakeNumber(int32(i+1)), shcounter.ANode,
						distsys.DefineConstantValue("NUM_NODES", tla.MakeNumber(int32(n))),
						distsys.EnsureArchetypeRefParam("cntr", res[i]))
					ctxs = append(ctxs, ctx)
					go func() { errs <- hx.SafeRun(ctx) }()
				}
				done := 0
				dl := time.After(30 * time.Second)
			loop:
				for done < n {
					select {
					case <-errs:
						done++
					case <-dl:
						break loop
					}
				}
				if done == n {
					ok++
				} else {
					stuck++
					if !rpc {
						time.Sleep(2 * time.Second)
						for i, r := range res {
							fmt.Printf("   node%d: %s\n", i, resources.VerifTwoPCState(r))
						}
					}
					for _, c := range ctxs {
						go c.Stop()
					}
				}
			}
			fmt.Printf("rpc=%v n=%d ok=%d stuck=%d\n", rpc, n, ok, stuck)
		}
	}
}
