package c16

import (
	"fmt"
	"net"
	"os"
	"runtime"
	"testing"
	"time"

	"github.com/DistCompiler/pgo/distsys"
	"github.com/DistCompiler/pgo/distsys/resources"
	"github.com/DistCompiler/pgo/distsys/tla"
	"github.com/DistCompiler/pgo/systems/shcounter"
	"pgregory.net/rapid"

	"verif/harness/hx"
	"verif/harness/vstat"
)

func init() { os.Setenv("PGO_TWOPC_LOG", "off") }

func freeAddr() string {
	l, err := net.Listen("tcp", "127.0.0.1:0")
	if err != nil {
		panic(err)
	}
	defer l.Close()
	return l.Addr().String()
}

// TestC16ShCounter: the generated shared-counter nodes over real 2PC resources, real time, both
// shipped transports: every node's run ends (its await cntr = NUM_NODES held) and every node reads NUM_NODES.
func TestC16ShCounter(t *testing.T) {
	rapid.Check(t, func(t *rapid.T) {
		if vstat.OverBudget() {
			return
		}
		vstat.Case()
		n := rapid.IntRange(1, 5).Draw(t, "nodes")
		rpc := rapid.Bool().Draw(t, "rpc-transport")
		addrs := make([]string, n)
		for i := range addrs {
			addrs[i] = freeAddr()
		}
		ids := make([]tla.Value, n)
		for i := range ids {
			ids[i] = tla.MakeString(fmt.Sprintf("node%d", i))
		}
		res := make([]*resources.TwoPCArchetypeResource, n)
		rcv := make([]*resources.TwoPCReceiver, n)
		for i := 0; i < n; i++ {
			i := i
			var reps []resources.ReplicaHandle
			if rpc {
				for j := 0; j < n; j++ {
					if j != i {
						h := resources.MakeRPCReplicaHandle(addrs[j], ids[j])
						reps = append(reps, &h)
					}
				}
			}
			res[i] = resources.NewTwoPC(tla.MakeNumber(0), addrs[i], reps, ids[i], func(r *resources.TwoPCReceiver) { rcv[i] = r }).(*resources.TwoPCArchetypeResource)
		}
		if !rpc {
			for i := 0; i < n; i++ {
				var reps []resources.ReplicaHandle
				for j := 0; j < n; j++ {
					if j != i {
						reps = append(reps, resources.VerifMakeLocalReplicaHandle(res[j]))
					}
				}
				res[i].SetReplicas(reps)
			}
		}
		ctxs := make([]*distsys.MPCalContext, n)
		errs := make(chan error, n)
		for i := 0; i < n; i++ {
			ctxs[i] = distsys.NewMPCalContext(tla.MakeNumber(int32(i+1)), shcounter.ANode,
				distsys.DefineConstantValue("NUM_NODES", tla.MakeNumber(int32(n))),
				distsys.EnsureArchetypeRefParam("cntr", res[i]))
			ctx := ctxs[i]
			go func() { errs <- hx.SafeRun(ctx) }()
		}
		deadline := time.After(120 * time.Second)
		for i := 0; i < n; i++ {
			select {
			case err := <-errs:
				if err != nil {
					t.Fatalf("a node failed: %v (nodes=%d rpc=%v)", err, n, rpc)
				}
			case <-deadline:
				buf := make([]byte, 1<<16)
				buf = buf[:runtime.Stack(buf, true)]
				for _, c := range ctxs {
					go c.Stop()
				}
				t.Fatalf("the shared counter did not reach %d on every node within 120 s (nodes=%d rpc=%v): contenders are not making progress\n%s", n, n, rpc, buf)
			}
		}
		// every Run ended normally, i.e. each node saw cntr = NUM_NODES; the replicas must agree on it
		// (had an increment been lost or applied twice, some node's await cntr = NUM_NODES would never hold)
		_ = rcv
		vstat.Class(fmt.Sprintf("shcounter.rpc=%v", rpc))
		if n >= 2 {
			key := fmt.Sprintf("shcounter nodes=%d rpc=%v", n, rpc)
			vstat.NonTrivial(key, func() string { return key + ": all nodes ended with cntr = NUM_NODES" })
		}
	})
}
