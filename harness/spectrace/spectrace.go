// Package spectrace turns scheduled runs of a shipped spec/Go pair into a TLA+ module that
// EXTENDS the checked-in spec and lets TLC judge every committed Go step against the label's
// action of the PlusCal translation (DESIGN.md E2b). TLC is the oracle; nothing here explores.
package spectrace

import (
	"bytes"
	"context"
	"fmt"
	"os"
	"os/exec"
	"path/filepath"
	"sort"
	"strings"
	"time"

	"github.com/DistCompiler/pgo/distsys/tla"

	"verif/harness/sched"
	"verif/harness/specenv"
	"verif/harness/tlcx"
	"verif/harness/tlx"
	"verif/harness/vstat"
)

// Local is a process-local variable of the translation (a function from process id to value).
type Local struct {
	TLA    string // name in the translation (PlusCal renames clashes: req0, idx0, ...)
	Go     string // resource name in the Go archetype, e.g. "AServer.msg"
	Owners []*sched.Instance
}

// Pair describes one spec/Go pair bound to the scheduler.
type Pair struct {
	Module    string   // TLA+ module name
	SpecPath  string   // the checked-in .tla
	Constants []string // cfg lines, e.g. "NumClients = 3"
	Store     *specenv.Store
	Globals   []string
	Procs     []*sched.Instance
	Locals    []Local
	Actions   []string // label operators of the translation that take (self)
	CheckInit bool     // the first state of every trace must satisfy the spec's Init
	// Extra renders further variables (named in ExtraVars) that do not live in the store or in a context.
	Extra     func() State
	ExtraVars []string
}

// DefaultInit: a global holding this string stands for PlusCal's defaultInitValue.
const DefaultInit = "@@defaultInitValue@@"

type State map[string]string

type Step struct {
	Lbl, Who string
	Post     State
}

type Trace struct {
	Init  State
	Steps []Step
	Note  string
}

// RenderValue prints a runtime value as TLA+; the zero Value is PlusCal's defaultInitValue.
func RenderValue(v tla.Value) string {
	x, err := tlx.FromTLA(v.StripVClock())
	if err != nil {
		return "defaultInitValue"
	}
	return x.TLA()
}

func Label(pc string) string {
	if i := strings.IndexByte(pc, '.'); i >= 0 {
		return pc[i+1:]
	}
	return pc
}

func procID(in *sched.Instance) string { return RenderValue(in.Self) }

func fnText(keys, vals []string) string {
	if len(keys) == 0 {
		return "<<>>"
	}
	p := make([]string, len(keys))
	for i := range keys {
		p[i] = "(" + keys[i] + ") :> (" + vals[i] + ")"
	}
	return "(" + strings.Join(p, " @@ ") + ")"
}

// Snapshot renders the whole spec state: globals from the store, pc and locals from the contexts.
func (p *Pair) Snapshot() State {
	s := State{}
	for _, g := range p.Globals {
		s[g] = p.Store.Vars[g].TLA()
		if v := p.Store.Vars[g]; v.K == tlx.KStr && v.S == DefaultInit {
			s[g] = "defaultInitValue"
		}
	}
	var ks, vs []string
	for _, in := range p.Procs {
		ks = append(ks, procID(in))
		pc := "Done"
		if in.Live {
			pc = Label(in.PC)
		}
		vs = append(vs, fmt.Sprintf("%q", pc))
	}
	s["pc"] = fnText(ks, vs)
	for _, l := range p.Locals {
		var ks, vs []string
		for _, in := range l.Owners {
			ks = append(ks, procID(in))
			vs = append(vs, RenderValue(in.Ctx.IFace().ReadArchetypeResourceLocal(l.Go)))
		}
		s[l.TLA] = fnText(ks, vs)
	}
	if p.Extra != nil {
		for k, v := range p.Extra() {
			s[k] = v
		}
	}
	return s
}

func (p *Pair) vars() []string {
	vs := append([]string{}, p.Globals...)
	vs = append(vs, p.ExtraVars...)
	vs = append(vs, "pc")
	for _, l := range p.Locals {
		vs = append(vs, l.TLA)
	}
	return vs
}

func stateRec(vars []string, s State, lbl, who string) string {
	p := make([]string, 0, len(vars)+2)
	for _, v := range vars {
		p = append(p, "v_"+v+" |-> "+s[v])
	}
	p = append(p, fmt.Sprintf("lbl |-> %q", lbl), "who |-> "+who)
	return "[" + strings.Join(p, ", ") + "]"
}

// Emit writes <Module>_trace.tla and .cfg for the traces.
func (p *Pair) Emit(traces []Trace) (mod, cfg string) {
	vars := p.vars()
	var b strings.Builder
	name := p.Module + "_trace"
	fmt.Fprintf(&b, "---- MODULE %s ----\nEXTENDS %s\nVARIABLES tno, tstep\n\n", name, p.Module)
	// every state is a constant definition; a step's state is written as its predecessor EXCEPT what changed
	for ti, t := range traces {
		fmt.Fprintf(&b, "T%d_0 == %s\n", ti+1, stateRec(vars, t.Init, "-", "0"))
		prev := t.Init
		for si, st := range t.Steps {
			if (si+1)%40 == 0 {
				// a full record now and then keeps the chain of definitions short: TLC's level analysis walks the
				// whole chain for every definition and does not finish on chains of a thousand
				fmt.Fprintf(&b, "T%d_%d == %s\n", ti+1, si+1, stateRec(vars, st.Post, st.Lbl, st.Who))
				prev = st.Post
				continue
			}
			ch := []string{fmt.Sprintf("!.lbl = %q", st.Lbl), "!.who = " + st.Who}
			for _, v := range vars {
				if st.Post[v] != prev[v] {
					ch = append(ch, "!.v_"+v+" = "+st.Post[v])
				}
			}
			fmt.Fprintf(&b, "T%d_%d == [T%d_%d EXCEPT %s]\n", ti+1, si+1, ti+1, si, strings.Join(ch, ", "))
			prev = st.Post
		}
	}
	b.WriteString("Traces == <<\n")
	for ti, t := range traces {
		names := make([]string, 0, len(t.Steps)+1)
		for si := 0; si <= len(t.Steps); si++ {
			names = append(names, fmt.Sprintf("T%d_%d", ti+1, si))
		}
		b.WriteString("  <<" + strings.Join(names, ", ") + ">>")
		if ti+1 < len(traces) {
			b.WriteString(",")
		}
		b.WriteString("\n")
	}
	b.WriteString(">>\n\n")
	eq := func(prime string, idx string) string {
		var c []string
		for _, v := range vars {
			c = append(c, fmt.Sprintf("%s%s = Traces[tno%s][%s].v_%s", v, prime, "", idx, v))
		}
		return strings.Join(c, "\n  /\\ ")
	}
	// initial states: one per trace
	b.WriteString("TInit ==\n  /\\ tno \\in 1..Len(Traces)\n  /\\ tstep = 1\n  /\\ ")
	b.WriteString(eq("", "1") + "\n\n")
	b.WriteString("TNext ==\n  /\\ tstep < Len(Traces[tno])\n  /\\ tstep' = tstep + 1\n  /\\ tno' = tno\n  /\\ ")
	b.WriteString(eq("'", "tstep + 1") + "\n\n")
	b.WriteString("Act ==\n  LET l == Traces[tno][tstep + 1].lbl\n      w == Traces[tno][tstep + 1].who IN\n")
	for i, a := range p.Actions {
		sep := "  \\/ "
		if i == 0 {
			sep = "  \\/ "
		}
		fmt.Fprintf(&b, "%s(l = %q /\\ %s(w))\n", sep, a, a)
	}
	b.WriteString("\nallvars == <<vars, tno, tstep>>\nTSpec == TInit /\\ [][TNext]_allvars\nStepsFollowSpec == [][Act]_allvars\nInitHolds == (tstep = 1) => Init\n====\n")
	var c strings.Builder
	c.WriteString("SPECIFICATION TSpec\nPROPERTY StepsFollowSpec\nCONSTANT defaultInitValue = defaultInitValue\n")
	if p.CheckInit {
		c.WriteString("INVARIANT InitHolds\n")
	}
	for _, k := range p.Constants {
		c.WriteString("CONSTANT " + k + "\n")
	}
	return b.String(), c.String()
}

// Verdict of a TLC run over a trace module.
type Verdict struct {
	OK         bool
	Budget     bool // the shard's time budget ran out before TLC finished: not judged
	Infra      bool // TLC could not judge (parse error, JVM trouble): a harness problem, never a violation
	Output     string
	BadTrace   int // 1-based, when TLC's counterexample could be read
	BadStep    int
	ModulePath string
}

// Check runs TLC on the traces in a scratch directory; keepDir (optional) receives a copy of the module on failure.
func (p *Pair) Check(traces []Trace, keepDir string) Verdict {
	base := os.Getenv("TMPDIR")
	if base == "" {
		base = os.TempDir()
	}
	dir, err := os.MkdirTemp(base, "verif-spectrace-")
	if err != nil {
		return Verdict{Infra: true, Output: err.Error()}
	}
	defer os.RemoveAll(dir)
	spec, err := os.ReadFile(p.SpecPath)
	if err != nil {
		return Verdict{Infra: true, Output: err.Error()}
	}
	mod, cfg := p.Emit(traces)
	name := p.Module + "_trace"
	_ = os.WriteFile(filepath.Join(dir, p.Module+".tla"), spec, 0644)
	_ = os.WriteFile(filepath.Join(dir, name+".tla"), []byte(mod), 0644)
	_ = os.WriteFile(filepath.Join(dir, name+".cfg"), []byte(cfg), 0644)
	limit := time.Now().Add(10 * time.Minute)
	if dl := vstat.DeadlineAt(1.8); !dl.IsZero() && dl.Before(limit) {
		limit = dl
	}
	if time.Until(limit) < 20*time.Second {
		return Verdict{Budget: true}
	}
	ctx, cancel := context.WithDeadline(context.Background(), limit)
	defer cancel()
	cmd := exec.CommandContext(ctx, "java", "-XX:+UseSerialGC", "-Xmx3g", "-Xss16m", "-Djava.io.tmpdir="+dir, "-Duser.home="+dir, "-cp", tlcx.Jar, "tlc2.TLC",
		"-workers", "1", "-deadlock", "-nowarning", "-metadir", filepath.Join(dir, "states"), "-config", name+".cfg", name+".tla")
	cmd.Dir = dir
	var out bytes.Buffer
	cmd.Stdout, cmd.Stderr = &out, &out
	runErr := cmd.Run()
	o := out.String()
	v := Verdict{Output: o}
	switch {
	case ctx.Err() != nil:
		v.Budget = true
		return v
	case strings.Contains(o, "Model checking completed. No error has been found"):
		v.OK = true
	case strings.Contains(o, "is violated") || strings.Contains(o, "Error: The following behavior constitutes a counter-example") || strings.Contains(o, "The first argument of Assert evaluated to FALSE") || strings.Contains(o, "Error: The behavior up to this point is"):
		// a step TLC does not accept (action property violated, or an Assert of the spec failed on a committed step)
		v.BadTrace, v.BadStep = lastTraceStep(o)
	default:
		v.Infra = true
		if runErr != nil {
			v.Output += "\n" + runErr.Error()
		}
	}
	if !v.OK && keepDir != "" {
		_ = os.MkdirAll(keepDir, 0755)
		v.ModulePath = filepath.Join(keepDir, name+".tla")
		_ = os.WriteFile(v.ModulePath, []byte(mod), 0644)
		_ = os.WriteFile(filepath.Join(keepDir, name+".cfg"), []byte(cfg), 0644)
		_ = os.WriteFile(filepath.Join(keepDir, name+".out"), []byte(o), 0644)
	}
	return v
}

// lastTraceStep reads tno / tstep of the last state TLC printed.
func lastTraceStep(o string) (int, int) {
	tno, tstep := 0, 0
	for _, line := range strings.Split(o, "\n") {
		line = strings.TrimSpace(line)
		if strings.HasPrefix(line, "/\\ tno = ") {
			fmt.Sscanf(line, "/\\ tno = %d", &tno)
		}
		if strings.HasPrefix(line, "/\\ tstep = ") {
			fmt.Sscanf(line, "/\\ tstep = %d", &tstep)
		}
	}
	return tno, tstep
}

var _ = sort.Strings
