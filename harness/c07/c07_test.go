// C07 — variables shared between archetypes of a process are serializable.
//
// Two checks against resources.LocalSharedManager (and its Persistent wrapper):
//
//	TestC07Model       one goroutine drives 2-5 logical sharers over 1-4 managers exactly as
//	                   MPCalContext would (ops ..., then Commit or Abort on every handle the
//	                   section touched); a conflicting access therefore times out
//	                   deterministically. Oracle: lock table + value model.
//	TestC07Concurrent  2-6 real MPCalContexts run generated bank-style programs concurrently
//	                   over 2-4 shared integer cells. Oracle: the run ends, conservation,
//	                   and a serial replay of the committed sections in the order of a
//	                   lock-protected logical clock cell.
package c07

import (
	"bytes"
	"encoding/gob"
	"errors"
	"fmt"
	"io"
	"log"
	"runtime"
	"sort"
	"strings"
	"sync"
	"sync/atomic"
	"testing"
	"time"

	"github.com/DistCompiler/pgo/distsys"
	"github.com/DistCompiler/pgo/distsys/resources"
	"github.com/DistCompiler/pgo/distsys/tla"
	"github.com/DistCompiler/pgo/distsys/trace"
	"github.com/dgraph-io/badger/v3"
	"pgregory.net/rapid"

	"verif/harness/hx"
	"verif/harness/vstat"
)

func TestMain(m *testing.M) {
	log.SetOutput(io.Discard)
	vstat.Main(m, "C07")
}

// ---- shared helpers ----------------------------------------------------------------------

var (
	dbOnce sync.Once
	dbInst *badger.DB
	dbErr  error
	caseNo atomic.Int64
)

// sharedDB is one in-memory badger for the whole test binary; every case uses its own keys.
func sharedDB() (*badger.DB, error) {
	dbOnce.Do(func() {
		dbInst, dbErr = badger.Open(badger.DefaultOptions("").WithInMemory(true).WithLogger(nil))
	})
	return dbInst, dbErr
}

// spuriousRetries: how often a refused access to a lock that must be free is repeated before
// the refusal is believed (see mcase.access).
const spuriousRetries = 5

// hangLimit is how long a single resource call may take before it is reported as blocked
// for ever. Lock time-outs are at most 50 ms, so this is a margin of >= 200x.
const hangLimit = 10 * time.Second

// guarded runs f on a helper goroutine and waits for it, so that a call that blocks for ever
// becomes a reportable failure instead of a dead test binary. The caller does nothing else
// in the meantime: calls stay strictly sequential.
func guarded(f func()) (elapsed time.Duration, p *hx.PanicError, hung bool) {
	type res struct {
		d time.Duration
		p *hx.PanicError
	}
	ch := make(chan res, 1)
	go func() {
		t0 := time.Now()
		pe := hx.Catch(f)
		ch <- res{time.Since(t0), pe}
	}()
	tm := time.NewTimer(hangLimit)
	defer tm.Stop()
	select {
	case r := <-ch:
		return r.d, r.p, false
	case <-tm.C:
		return hangLimit, nil, true
	}
}

func decodeState(b []byte) (tla.Value, error) {
	var v tla.Value
	if err := gob.NewDecoder(bytes.NewReader(b)).Decode(&v); err != nil {
		return tla.Value{}, err
	}
	return v.StripVClock(), nil
}

func throwAwayIFace(i int) distsys.ArchetypeInterface {
	return distsys.NewMPCalContext(tla.MakeNumber(int32(i)), distsys.MPCalArchetype{
		Name: "X", Label: "X.l",
		JumpTable: distsys.MakeMPCalJumpTable(),
		ProcTable: distsys.MakeMPCalProcTable(),
		PreAmble:  func(distsys.ArchetypeInterface) {},
	}).IFace()
}

func allStacks() string {
	buf := make([]byte, 1<<20)
	n := runtime.Stack(buf, true)
	s := string(buf[:n])
	if len(s) > 48000 {
		s = s[:48000] + "\n…(goroutine dump truncated)"
	}
	return s
}

// ==========================================================================================
// (a) deterministic two-phase-locking model test
// ==========================================================================================

const (
	kScalar = iota
	kRecord // function with domain 0..K-1
	kTuple  // tuple of length K (indices 1..K)
)

var kindName = []string{"scalar", "record", "tuple"}

// mval is the model's value of a variable: one number for a scalar, K numbers otherwise.
type mval []int32

func (m mval) clone() mval { return append(mval(nil), m...) }

func (m mval) toTLA(kind int) tla.Value {
	switch kind {
	case kScalar:
		return tla.MakeNumber(m[0])
	case kRecord:
		fields := make([]tla.RecordField, len(m))
		for i, x := range m {
			fields[i] = tla.RecordField{Key: tla.MakeNumber(int32(i)), Value: tla.MakeNumber(x)}
		}
		return tla.MakeRecord(fields)
	default:
		elems := make([]tla.Value, len(m))
		for i, x := range m {
			elems[i] = tla.MakeNumber(x)
		}
		return tla.MakeTuple(elems...)
	}
}

func keyVal(kind, i int) tla.Value {
	if kind == kTuple {
		return tla.MakeNumber(int32(i + 1))
	}
	return tla.MakeNumber(int32(i))
}

type mvar struct {
	kind       int
	timeout    time.Duration
	persistent bool
	mgr        *resources.LocalSharedManager
	handles    []distsys.ArchetypeResource // what sharer a calls (possibly a Persistent wrapper)
	raw        []resources.Persistable     // the MakeLocalShared() handle underneath
	obs        resources.Persistable       // the harness's own handle, used between sections
	committed  mval
	pending    mval // the holder's view; meaningful iff holder >= 0
	holder     int  // -1 = free
}

type mcase struct {
	n       int
	vars    []*mvar
	ifaces  []distsys.ArchetypeInterface
	obsIF   distsys.ArchetypeInterface
	touched [][]int // per sharer: variables touched by its open section, in first-touch order
	tok     int32
	hist    strings.Builder
	nontriv bool
	fnVars  []int
}

func (c *mcase) logf(format string, args ...any) {
	fmt.Fprintf(&c.hist, format+"\n", args...)
}

func (c *mcase) fatalf(t *rapid.T, format string, args ...any) {
	t.Helper()
	t.Fatalf("%s\n--- history ---\n%s--- model ---\n%s", fmt.Sprintf(format, args...), c.hist.String(), c.render())
}

func (c *mcase) render() string {
	var b strings.Builder
	for i, v := range c.vars {
		fmt.Fprintf(&b, "v%d kind=%s timeout=%v persistent=%v committed=%v holder=%d", i, kindName[v.kind], v.timeout, v.persistent, v.committed, v.holder)
		if v.holder >= 0 {
			fmt.Fprintf(&b, " pending=%v", v.pending)
		}
		b.WriteString("\n")
	}
	return b.String()
}

func (c *mcase) fresh() int32 { c.tok++; return c.tok }

func (v *mvar) bound() time.Duration { return 50*v.timeout + 200*time.Millisecond }

// retries: how often a refusal of a free lock is repeated before it counts. With a time-out of zero the lock is a
// try-lock whose timer is already due when the select is entered, so a free lock is refused about every other time
// (the select picks among two ready cases); a lock that was not released is refused every time.
func (v *mvar) retries() int {
	if v.timeout == 0 {
		return 60
	}
	return spuriousRetries
}

func deadlineClass(el, timeout time.Duration) string {
	if timeout == 0 {
		return "zero-timeout"
	}
	r := float64(el) / float64(timeout)
	switch {
	case r < 1.5:
		return "<1.5x"
	case r < 3:
		return "<3x"
	case r < 10:
		return "<10x"
	case r < 50:
		return "<50x"
	}
	return ">=50x"
}

// call performs one resource call. It fails the case if the call panics or blocks for ever;
// if the call merely took far longer than the variable's time-out allows, the same call is
// repeated once (it is idempotent in every place this is used: a refused access is refused
// again, a granted one is granted again to the same holder) and only a second miss fails.
func (c *mcase) call(t *rapid.T, v *mvar, what string, conflict bool, f func()) {
	t.Helper()
	for try := 0; ; try++ {
		el, p, hung := guarded(f)
		if hung {
			c.fatalf(t, "%s: the call did not return within %v (lock time-out is %v): blocked for ever", what, hangLimit, v.timeout)
		}
		if p != nil {
			c.fatalf(t, "%s: panicked: %v\n%s", what, p.Value, p.Stack)
		}
		if conflict {
			vstat.Class("model.deadline.conflict." + deadlineClass(el, v.timeout))
		}
		if el <= v.bound() {
			return
		}
		vstat.Class("model.deadline.miss")
		if try == 1 {
			c.fatalf(t, "%s: took longer than allowed, and %v when repeated on its own; the lock time-out is %v (allowed: 50x + 200ms = %v)", what, el, v.timeout, v.bound())
		}
		c.logf("   (%s took %v > %v; repeating the call once in isolation)", what, el, v.bound())
	}
}

func (c *mcase) touch(a, v int) {
	for _, x := range c.touched[a] {
		if x == v {
			return
		}
	}
	c.touched[a] = append(c.touched[a], v)
}

func (c *mcase) holds(a int) int {
	k := 0
	for _, v := range c.vars {
		if v.holder == a {
			k++
		}
	}
	return k
}

func (c *mcase) orderOf(t *rapid.T, a int, label string) []int {
	if len(c.touched[a]) <= 1 {
		return append([]int(nil), c.touched[a]...)
	}
	// the Run loop walks a Go map: any order may occur
	return rapid.Permutation(c.touched[a]).Draw(t, label)
}

// checkHolderView: the holder's own handle must show its uncommitted value (GetState on a
// handle that has the lock does not acquire, so this cannot block on a correct tree).
func (c *mcase) checkHolderView(t *rapid.T, vi int, when string) {
	v := c.vars[vi]
	if v.holder < 0 {
		return
	}
	var b []byte
	var err error
	c.call(t, v, fmt.Sprintf("%s: GetState(v%d) through holder a%d", when, vi, v.holder), false, func() { b, err = v.raw[v.holder].GetState() })
	if err != nil {
		c.fatalf(t, "%s: GetState(v%d) through holder a%d: %v", when, vi, v.holder, err)
	}
	got, err := decodeState(b)
	if err != nil {
		c.fatalf(t, "%s: GetState(v%d) does not gob-decode into a tla.Value: %v", when, vi, err)
	}
	if want := v.pending.toTLA(v.kind); !got.Equal(want) {
		c.fatalf(t, "%s: a%d holds v%d with uncommitted value %v, but the variable now holds %v: another sharer's call changed it", when, v.holder, vi, want, got)
	}
}

// checkFree: a variable the model says is free must be obtainable at once, show the last
// committed value through ReadValue and GetState, and be released again by Abort and Commit.
func (c *mcase) checkFree(t *rapid.T, vi int, when string) {
	v := c.vars[vi]
	if v.holder >= 0 {
		return
	}
	want := v.committed.toTLA(v.kind)
	for round := 0; round < 2; round++ {
		var got tla.Value
		var err error
		c.call(t, v, fmt.Sprintf("%s: observer ReadValue(v%d)", when, vi), false, func() { got, err = v.obs.ReadValue(c.obsIF) })
		for try := 0; try < v.retries() && errors.Is(err, distsys.ErrCriticalSectionAborted); try++ {
			// see access: a stall longer than the time-out can refuse a free lock once
			vstat.Class("model.spurious-timeout-on-free-lock")
			c.call(t, v, fmt.Sprintf("%s: observer ReadValue(v%d), repeated", when, vi), false, func() { got, err = v.obs.ReadValue(c.obsIF) })
		}
		if err != nil {
			c.fatalf(t, "%s: v%d is free in the model (every section that touched it has committed or aborted) but cannot be obtained: %v — a lock was not released", when, vi, err)
		}
		if got = got.StripVClock(); !got.Equal(want) {
			c.fatalf(t, "%s: v%d reads %v between sections, last committed value is %v", when, vi, got, want)
		}
		if round == 0 {
			var b []byte
			c.call(t, v, fmt.Sprintf("%s: observer GetState(v%d)", when, vi), false, func() { b, err = v.obs.GetState() })
			if err != nil {
				c.fatalf(t, "%s: GetState(v%d): %v", when, vi, err)
			}
			st, err := decodeState(b)
			if err != nil {
				c.fatalf(t, "%s: GetState(v%d) does not gob-decode into a tla.Value: %v", when, vi, err)
			}
			if !st.Equal(want) {
				c.fatalf(t, "%s: GetState(v%d) = %v between sections, last committed value is %v", when, vi, st, want)
			}
			c.call(t, v, fmt.Sprintf("%s: observer Abort(v%d)", when, vi), false, func() { v.obs.Abort(c.obsIF) })
		} else {
			c.call(t, v, fmt.Sprintf("%s: observer Commit(v%d)", when, vi), false, func() { v.obs.Commit(c.obsIF) })
		}
	}
	// and through the path that takes the lock itself
	var b []byte
	var err error
	c.call(t, v, fmt.Sprintf("%s: GetState(v%d) on a handle without the lock", when, vi), false, func() { b, err = v.obs.GetState() })
	if err != nil {
		c.fatalf(t, "%s: GetState(v%d): %v", when, vi, err)
	}
	st, err := decodeState(b)
	if err != nil {
		c.fatalf(t, "%s: GetState(v%d) does not gob-decode into a tla.Value: %v", when, vi, err)
	}
	if !st.Equal(want) {
		c.fatalf(t, "%s: GetState(v%d) = %v between sections, last committed value is %v", when, vi, st, want)
	}
}

// endSection calls Abort or (PreCommit then) Commit on every handle the section touched.
func (c *mcase) endSection(t *rapid.T, a int, commit bool, why string) {
	if commit {
		for _, vi := range c.orderOf(t, a, "precommitOrder") {
			v := c.vars[vi]
			var ch chan error
			c.call(t, v, fmt.Sprintf("a%d PreCommit(v%d)", a, vi), false, func() { ch = v.handles[a].PreCommit(c.ifaces[a]) })
			if ch != nil {
				err, werr := hx.Wait(ch, hangLimit)
				if werr != nil {
					c.fatalf(t, "a%d PreCommit(v%d): no answer within %v", a, vi, hangLimit)
				}
				if err != nil {
					c.fatalf(t, "a%d PreCommit(v%d) refused: %v (the sharer holds every lock it needs)", a, vi, err)
				}
			}
		}
	}
	order := c.orderOf(t, a, "endOrder")
	verb := "Abort"
	if commit {
		verb = "Commit"
	}
	c.logf("a%d %s %v%s", a, verb, order, why)
	for _, vi := range order {
		v := c.vars[vi]
		var ch chan struct{}
		c.call(t, v, fmt.Sprintf("a%d %s(v%d)", a, verb, vi), false, func() {
			if commit {
				ch = v.handles[a].Commit(c.ifaces[a])
			} else {
				ch = v.handles[a].Abort(c.ifaces[a])
			}
		})
		if ch != nil {
			if _, werr := hx.Wait(ch, hangLimit); werr != nil {
				c.fatalf(t, "a%d %s(v%d): not complete after %v", a, verb, vi, hangLimit)
			}
		}
		if v.holder == a {
			if commit {
				v.committed = v.pending.clone()
			}
			v.holder, v.pending = -1, nil
		}
	}
	c.touched[a] = c.touched[a][:0]
	for _, vi := range order {
		c.checkFree(t, vi, fmt.Sprintf("after a%d %s", a, verb))
		c.checkHolderView(t, vi, fmt.Sprintf("after a%d %s", a, verb))
	}
}

// access performs one read / write / indexed access of sharer a on variable vi and judges it
// against the lock table. do returns the error of the resource call(s).
func (c *mcase) access(t *rapid.T, a, vi int, desc string, do func(h distsys.ArchetypeResource, iface distsys.ArchetypeInterface) error, onGranted func()) {
	v := c.vars[vi]
	c.touch(a, vi)
	expectOK := v.holder == -1 || v.holder == a
	var err error
	c.call(t, v, desc, !expectOK, func() { err = do(v.handles[a], c.ifaces[a]) })
	if expectOK {
		// The code takes the lock with `select { case lockCh <- x: ; case <-time.After(timeout): }`.
		// If the calling thread is descheduled for longer than the (1-3 ms) time-out between
		// arming the timer and entering the select, both cases are ready and Go may pick the
		// time-out although the lock is free. That is a needless abort, which the property
		// allows (the Run loop retries the section); a lock that was never released is refused
		// every time. So a refusal of a free variable is repeated in isolation before it counts.
		for try := 0; try < v.retries() && v.holder == -1 && errors.Is(err, distsys.ErrCriticalSectionAborted); try++ {
			vstat.Class("model.spurious-timeout-on-free-lock")
			c.logf("   (%s refused although v%d is free; repeating the call, %d)", desc, vi, try+1)
			c.call(t, v, desc, false, func() { err = do(v.handles[a], c.ifaces[a]) })
		}
		if err != nil {
			c.fatalf(t, "%s: refused with %v although v%d is %s", desc, err, vi, map[bool]string{true: "free", false: "held by the same sharer"}[v.holder == -1])
		}
		if v.holder == -1 {
			v.holder = a
			v.pending = v.committed.clone()
		}
		vstat.Class("model.access.granted")
		onGranted()
		return
	}
	// conflict: must be refused, and refused with the abort signal
	if err == nil {
		c.fatalf(t, "%s: succeeded although v%d is held by a%d's open section (isolation broken)", desc, vi, v.holder)
	}
	if !errors.Is(err, distsys.ErrCriticalSectionAborted) {
		c.fatalf(t, "%s: conflicting access returned %v, want ErrCriticalSectionAborted", desc, err)
	}
	vstat.Class("model.access.conflict")
	c.logf("%s -> ErrCriticalSectionAborted (held by a%d)", desc, v.holder)
	c.checkHolderView(t, vi, "after the refused access")
	held := c.holds(a)
	if held >= 1 {
		c.nontriv = true
		vstat.Class("model.abort.conflict.holding-locks")
	} else {
		vstat.Class("model.abort.conflict.holding-none")
	}
	// the Run loop aborts the section now
	c.endSection(t, a, false, fmt.Sprintf(" (conflict on v%d while holding %d other lock(s))", vi, held))
	c.checkHolderView(t, vi, "after the refused sharer's Abort")
}

func newModelCase(t *rapid.T) *mcase {
	c := &mcase{}
	c.n = rapid.IntRange(2, 5).Draw(t, "sharers")
	nv := rapid.IntRange(1, 4).Draw(t, "vars")
	id := caseNo.Add(1)
	for a := 0; a < c.n; a++ {
		c.ifaces = append(c.ifaces, throwAwayIFace(a))
	}
	c.obsIF = throwAwayIFace(99)
	c.touched = make([][]int, c.n)
	for vi := 0; vi < nv; vi++ {
		v := &mvar{holder: -1}
		v.kind = rapid.SampledFrom([]int{kScalar, kScalar, kRecord, kTuple}).Draw(t, fmt.Sprintf("v%d.kind", vi))
		// 0 is a legal setting (raftkvs' bootstrap passes it on when a configuration omits sharedResourceTimeout): a try-lock
		v.timeout = time.Duration(rapid.SampledFrom([]int{0, 1, 1, 2, 2, 3, 3}).Draw(t, fmt.Sprintf("v%d.timeoutMs", vi))) * time.Millisecond
		if v.timeout == 0 {
			vstat.Class("model.variable-with-zero-timeout")
		}
		v.persistent = rapid.IntRange(0, 3).Draw(t, fmt.Sprintf("v%d.persistent", vi)) == 0
		k := 1
		if v.kind != kScalar {
			k = rapid.IntRange(1, 3).Draw(t, fmt.Sprintf("v%d.size", vi))
			c.fnVars = append(c.fnVars, vi)
		}
		for i := 0; i < k; i++ {
			v.committed = append(v.committed, c.fresh())
		}
		v.mgr = resources.NewLocalSharedManager(v.committed.toTLA(v.kind), resources.WithLocalSharedResourceTimeout(v.timeout))
		for a := 0; a < c.n; a++ {
			raw := v.mgr.MakeLocalShared()
			v.raw = append(v.raw, raw)
			if v.persistent {
				db, err := sharedDB()
				if err != nil {
					t.Fatalf("harness: cannot open in-memory badger: %v", err)
				}
				v.handles = append(v.handles, resources.MakePersistent(fmt.Sprintf("c07.m%d.v%d", id, vi), db, raw))
			} else {
				v.handles = append(v.handles, raw)
			}
		}
		v.obs = v.mgr.MakeLocalShared()
		c.vars = append(c.vars, v)
		vstat.Class("model.var." + kindName[v.kind])
		if v.persistent {
			vstat.Class("model.var.persistent")
		}
		c.logf("v%d: %s, initial %v, lock time-out %v, persistent=%v", vi, kindName[v.kind], v.committed, v.timeout, v.persistent)
	}
	c.logf("%d sharers", c.n)
	return c
}

func TestC07Model(t *testing.T) {
	rapid.Check(t, func(t *rapid.T) {
		if vstat.OverBudget() {
			return
		}
		vstat.Case()
		c := newModelCase(t)
		// sharer of the next access: once two sections are open, two times out of three one of those,
		// so that sections reach several variables before they meet a conflict
		pickSharer := func(t *rapid.T) int {
			var open []int
			for a := 0; a < c.n; a++ {
				if len(c.touched[a]) > 0 {
					open = append(open, a)
				}
			}
			if len(open) >= 2 && rapid.IntRange(0, 2).Draw(t, "preferOpen") > 0 {
				return rapid.SampledFrom(open).Draw(t, "a")
			}
			return rapid.IntRange(0, c.n-1).Draw(t, "a")
		}
		pick := func(t *rapid.T) (int, int) {
			return pickSharer(t), rapid.IntRange(0, len(c.vars)-1).Draw(t, "v")
		}
		read := func(t *rapid.T) {
			a, vi := pick(t)
			v := c.vars[vi]
			key := -1
			if v.kind != kScalar {
				key = rapid.IntRange(-1, len(v.committed)-1).Draw(t, "key")
			}
			desc := fmt.Sprintf("a%d read v%d", a, vi)
			if key >= 0 {
				desc += fmt.Sprintf("[%v]", keyVal(v.kind, key))
			}
			var got tla.Value
			c.access(t, a, vi, desc, func(h distsys.ArchetypeResource, iface distsys.ArchetypeInterface) (err error) {
				if key >= 0 {
					if h, err = h.Index(iface, keyVal(v.kind, key)); err != nil {
						return err
					}
				}
				got, err = h.ReadValue(iface)
				return err
			}, func() {
				var want tla.Value
				if key >= 0 {
					want = tla.MakeNumber(v.pending[key])
				} else {
					want = v.pending.toTLA(v.kind)
				}
				got = got.StripVClock()
				c.logf("%s = %v", desc, got)
				if !got.Equal(want) {
					c.fatalf(t, "%s returned %v; the sharer's own writes / the last committed value give %v", desc, got, want)
				}
			})
		}
		write := func(t *rapid.T) {
			a, vi := pick(t)
			v := c.vars[vi]
			nv := make(mval, len(v.committed))
			for i := range nv {
				nv[i] = c.fresh()
			}
			desc := fmt.Sprintf("a%d write v%d := %v", a, vi, nv)
			c.access(t, a, vi, desc, func(h distsys.ArchetypeResource, iface distsys.ArchetypeInterface) error {
				return h.WriteValue(iface, nv.toTLA(v.kind))
			}, func() {
				v.pending = nv
				c.logf("%s", desc)
			})
		}
		indexWrite := func(t *rapid.T) {
			if len(c.fnVars) == 0 {
				t.Skip("no function-valued variable in this case")
			}
			a := pickSharer(t)
			vi := rapid.SampledFrom(c.fnVars).Draw(t, "v")
			v := c.vars[vi]
			key := rapid.IntRange(0, len(v.committed)-1).Draw(t, "key")
			tok := c.fresh()
			desc := fmt.Sprintf("a%d write v%d[%v] := %d", a, vi, keyVal(v.kind, key), tok)
			c.access(t, a, vi, desc, func(h distsys.ArchetypeResource, iface distsys.ArchetypeInterface) error {
				sub, err := h.Index(iface, keyVal(v.kind, key))
				if err != nil {
					return err
				}
				return sub.WriteValue(iface, tla.MakeNumber(tok))
			}, func() {
				v.pending[key] = tok
				c.logf("%s", desc)
			})
		}
		commit := func(t *rapid.T) {
			a := rapid.IntRange(0, c.n-1).Draw(t, "a")
			if len(c.touched[a]) == 0 {
				t.Skip("no open section")
			}
			vstat.Class("model.commit")
			c.endSection(t, a, true, "")
		}
		abort := func(t *rapid.T) {
			a := rapid.IntRange(0, c.n-1).Draw(t, "a")
			if len(c.touched[a]) == 0 {
				t.Skip("no open section")
			}
			vstat.Class("model.abort.voluntary")
			c.endSection(t, a, false, " (await failed)")
		}
		t.Repeat(map[string]func(*rapid.T){
			// accesses are listed twice so that sections grow to several variables before
			// they end (actions are drawn uniformly by name)
			"read":       read,
			"read'":      read,
			"write":      write,
			"write'":     write,
			"indexWrite": indexWrite,
			"commit":     commit,
			"abort":      abort,
		})
		// close every open section (commit or abort, drawn), then everything must be free
		for a := 0; a < c.n; a++ {
			if len(c.touched[a]) > 0 {
				c.endSection(t, a, rapid.Bool().Draw(t, "finalCommit"), " (end of case)")
			}
		}
		for vi := range c.vars {
			if c.vars[vi].holder != -1 {
				c.fatalf(t, "harness: v%d still held in the model after every section ended", vi)
			}
			c.checkFree(t, vi, "end of case")
		}
		if c.nontriv {
			h := c.hist.String()
			vstat.NonTrivial(h, func() string { return h })
		}
	})
}

// ==========================================================================================
// (b) real concurrency
// ==========================================================================================

const archName = "A"

type cop struct {
	cell  int
	write bool
	delta int32 // write: new value = value this section last read/wrote for the cell + delta
	think time.Duration
}

type csection struct {
	kind       string // "transfer", "readall", "incr"
	ops        []cop
	clockThink time.Duration
	volAbort   int // 0: none; 1: first attempt fails an await before the clock bump; 2: after it
	nReadAll   int // readall: how many leading reads make up the sum
}

func (s csection) String() string {
	var b strings.Builder
	b.WriteString(s.kind + "[")
	for i, o := range s.ops {
		if i > 0 {
			b.WriteString(" ")
		}
		if o.think > 0 {
			fmt.Fprintf(&b, "~%v ", o.think)
		}
		if o.write {
			fmt.Fprintf(&b, "c%d:=c%d%+d", o.cell, o.cell, o.delta)
		} else {
			fmt.Fprintf(&b, "r(c%d)", o.cell)
		}
	}
	if s.clockThink > 0 {
		fmt.Fprintf(&b, " ~%v", s.clockThink)
	}
	b.WriteString(" clock++]")
	switch s.volAbort {
	case 1:
		b.WriteString(" first attempt: await fails before clock++")
	case 2:
		b.WriteString(" first attempt: await fails after clock++")
	}
	return b.String()
}

// firstTouchOrder lists the cells of a section in the order their locks are taken.
func (s csection) firstTouchOrder() []int {
	var out []int
	seen := map[int]bool{}
	for _, o := range s.ops {
		if !seen[o.cell] {
			seen[o.cell] = true
			out = append(out, o.cell)
		}
	}
	return out
}

func cellName(i int) string { return fmt.Sprintf("c%d", i) }

var thinkChoices = []int{0, 0, 0, 0, 0, 50, 100, 200, 400}

func drawThink(t *rapid.T) time.Duration {
	return time.Duration(rapid.SampledFrom(thinkChoices).Draw(t, "thinkUs")) * time.Microsecond
}

func genSection(t *rapid.T, nCells int) csection {
	var s csection
	switch rapid.SampledFrom([]string{"transfer", "transfer", "transfer", "readall", "incr"}).Draw(t, "kind") {
	case "transfer":
		s.kind = "transfer"
		x := rapid.IntRange(0, nCells-1).Draw(t, "from")
		y := rapid.IntRange(0, nCells-2).Draw(t, "to")
		if y >= x {
			y++
		}
		k := int32(rapid.IntRange(1, 20).Draw(t, "amount"))
		a, da, b, db := x, -k, y, k
		if rapid.Bool().Draw(t, "creditFirst") {
			a, da, b, db = y, k, x, -k
		}
		ra, wa := cop{cell: a}, cop{cell: a, write: true, delta: da}
		rb, wb := cop{cell: b}, cop{cell: b, write: true, delta: db}
		switch rapid.IntRange(0, 2).Draw(t, "pattern") {
		case 0:
			s.ops = []cop{ra, wa, rb, wb}
		case 1:
			s.ops = []cop{ra, rb, wa, wb}
		default:
			s.ops = []cop{ra, rb, wb, wa}
		}
	case "readall":
		s.kind = "readall"
		cells := make([]int, nCells)
		for i := range cells {
			cells[i] = i
		}
		for _, cl := range rapid.Permutation(cells).Draw(t, "readOrder") {
			s.ops = append(s.ops, cop{cell: cl})
		}
		s.nReadAll = nCells
		if rapid.Bool().Draw(t, "reread") {
			// a second read of one cell in the same section must repeat the first
			s.ops = append(s.ops, cop{cell: rapid.IntRange(0, nCells-1).Draw(t, "rereadCell")})
		}
	default:
		s.kind = "incr"
		x := rapid.IntRange(0, nCells-1).Draw(t, "cell")
		u := int32(rapid.IntRange(1, 3).Draw(t, "units"))
		s.ops = []cop{{cell: x}, {cell: x, write: true, delta: 1000 * u}}
	}
	for i := range s.ops {
		s.ops[i].think = drawThink(t)
	}
	s.clockThink = drawThink(t)
	switch rapid.IntRange(0, 9).Draw(t, "await") {
	case 0:
		s.volAbort = 1
	case 1:
		s.volAbort = 2
	}
	return s
}

type celem struct {
	name  string // c0.., clock
	write bool
	val   tla.Value
}

type cevent struct {
	self  int
	abort bool
	elems []celem
}

func (e cevent) String() string {
	var b strings.Builder
	fmt.Fprintf(&b, "a%d ", e.self)
	if e.abort {
		b.WriteString("ABORT ")
	} else {
		b.WriteString("commit ")
	}
	for _, el := range e.elems {
		if el.write {
			fmt.Fprintf(&b, " %s:=%v", el.name, el.val)
		} else {
			fmt.Fprintf(&b, " %s=%v", el.name, el.val)
		}
	}
	return b.String()
}

type crecorder struct {
	mu      sync.Mutex
	events  []cevent
	commits atomic.Int64
}

func (r *crecorder) RecordEvent(e trace.Event) {
	ev := cevent{self: int(e.Self.AsNumber()), abort: e.IsAbort}
	// e.Elements is reused by the runtime: copy what is needed now
	for _, el := range e.Elements {
		switch el := el.(type) {
		case trace.ReadElement:
			if el.Prefix == archName {
				ev.elems = append(ev.elems, celem{name: el.Name, val: el.Value.StripVClock()})
			}
		case trace.WriteElement:
			if el.Prefix == archName {
				ev.elems = append(ev.elems, celem{name: el.Name, write: true, val: el.Value.StripVClock()})
			}
		}
	}
	r.mu.Lock()
	r.events = append(r.events, ev)
	r.mu.Unlock()
	if !e.IsAbort {
		r.commits.Add(1)
	}
}

const (
	runWatchdog = 60 * time.Second
	stallLimit  = 10 * time.Second // no section commits anywhere for this long (>= 200 lock time-outs)
)

func TestC07Concurrent(t *testing.T) {
	rapid.Check(t, func(t *rapid.T) {
		if vstat.OverBudget() {
			return
		}
		vstat.Case()
		nArch := rapid.IntRange(2, 6).Draw(t, "archetypes")
		nCells := rapid.IntRange(2, 4).Draw(t, "cells")
		id := caseNo.Add(1)
		var desc strings.Builder

		// cells 0..nCells-1 are the accounts, cell nCells is the logical clock
		names := make([]string, nCells+1)
		initVals := make([]int32, nCells+1)
		timeouts := make([]time.Duration, nCells+1)
		persistent := make([]bool, nCells+1)
		mgrs := make([]*resources.LocalSharedManager, nCells+1)
		var total int64
		for i := 0; i <= nCells; i++ {
			names[i] = cellName(i)
			if i == nCells {
				names[i] = "clock"
			} else {
				initVals[i] = int32(rapid.IntRange(0, 100).Draw(t, "init"))
				total += int64(initVals[i])
			}
			timeouts[i] = time.Duration(rapid.SampledFrom([]int{0, 2, 2, 3, 5, 8, 13, 21, 34, 50}).Draw(t, "timeoutMs")) * time.Millisecond
			persistent[i] = rapid.IntRange(0, 4).Draw(t, "persistent") == 0
			mgrs[i] = resources.NewLocalSharedManager(tla.MakeNumber(initVals[i]), resources.WithLocalSharedResourceTimeout(timeouts[i]))
			fmt.Fprintf(&desc, "%s: initial %d, lock time-out %v, persistent=%v\n", names[i], initVals[i], timeouts[i], persistent[i])
		}

		progs := make([][]csection, nArch)
		expected := append([]int32(nil), initVals[:nCells]...)
		var incUnits int64
		nSections := 0
		for a := range progs {
			n := rapid.IntRange(1, 6).Draw(t, "sections")
			for s := 0; s < n; s++ {
				sec := genSection(t, nCells)
				progs[a] = append(progs[a], sec)
				for _, o := range sec.ops {
					if o.write {
						expected[o.cell] += o.delta
						if sec.kind == "incr" {
							incUnits += int64(o.delta / 1000)
						}
					}
				}
				fmt.Fprintf(&desc, "a%d.l%d: %s\n", a, s, sec)
			}
			nSections += n
		}

		// non-triviality, static half: two archetypes take the locks of two cells in opposite orders
		type pair struct{ x, y int }
		orders := make([]map[pair]bool, nArch)
		for a, p := range progs {
			orders[a] = map[pair]bool{}
			for _, sec := range p {
				o := sec.firstTouchOrder()
				for i := range o {
					for j := i + 1; j < len(o); j++ {
						orders[a][pair{o[i], o[j]}] = true
					}
				}
			}
		}
		opposite := false
		for a := 0; a < nArch && !opposite; a++ {
			for b := 0; b < nArch && !opposite; b++ {
				if a == b {
					continue
				}
				for x := 0; x < nCells && !opposite; x++ {
					for y := 0; y < nCells; y++ {
						if x != y && orders[a][pair{x, y}] && orders[b][pair{y, x}] {
							opposite = true
							break
						}
					}
				}
			}
		}

		rec := &crecorder{}
		ctxs := make([]*distsys.MPCalContext, nArch)
		var volAbortsSeen atomic.Int64
		for a := range progs {
			prog := progs[a]
			attempts := make([]int, len(prog))
			label := func(i int) string {
				if i == len(prog) {
					return archName + ".Done"
				}
				return fmt.Sprintf("%s.l%d", archName, i)
			}
			var sections []distsys.MPCalCriticalSection
			for si := range prog {
				si := si
				sec := prog[si]
				sections = append(sections, distsys.MPCalCriticalSection{Name: label(si), Body: func(iface distsys.ArchetypeInterface) error {
					attempts[si]++
					last := make([]int32, nCells)
					for _, op := range sec.ops {
						if op.think > 0 {
							time.Sleep(op.think)
						}
						h, err := iface.RequireArchetypeResourceRef(archName + "." + cellName(op.cell))
						if err != nil {
							return err
						}
						if op.write {
							last[op.cell] += op.delta
							if err := iface.Write(h, nil, tla.MakeNumber(last[op.cell])); err != nil {
								return err
							}
						} else {
							v, err := iface.Read(h, nil)
							if err != nil {
								return err
							}
							last[op.cell] = v.AsNumber()
						}
					}
					if sec.volAbort == 1 && attempts[si] == 1 {
						volAbortsSeen.Add(1)
						return distsys.ErrCriticalSectionAborted
					}
					if sec.clockThink > 0 {
						time.Sleep(sec.clockThink)
					}
					// last op of every section: clock := clock + 1. The clock cell's lock is
					// taken while every other lock of the section is held and is kept until
					// commit, so the value written is the section's place in the commit order.
					h, err := iface.RequireArchetypeResourceRef(archName + ".clock")
					if err != nil {
						return err
					}
					cv, err := iface.Read(h, nil)
					if err != nil {
						return err
					}
					if err := iface.Write(h, nil, tla.MakeNumber(cv.AsNumber()+1)); err != nil {
						return err
					}
					if sec.volAbort == 2 && attempts[si] == 1 {
						volAbortsSeen.Add(1)
						return distsys.ErrCriticalSectionAborted
					}
					return iface.Goto(label(si + 1))
				}})
			}
			sections = append(sections, distsys.MPCalCriticalSection{Name: label(len(prog)), Body: func(distsys.ArchetypeInterface) error { return distsys.ErrDone }})
			arch := distsys.MPCalArchetype{
				Name: archName, Label: label(0),
				JumpTable: distsys.MakeMPCalJumpTable(sections...),
				ProcTable: distsys.MakeMPCalProcTable(),
				PreAmble:  func(distsys.ArchetypeInterface) {},
			}
			cfg := []distsys.MPCalContextConfigFn{distsys.SetTraceRecorder(rec)}
			for i := 0; i <= nCells; i++ {
				arch.RequiredRefParams = append(arch.RequiredRefParams, archName+"."+names[i])
				var res distsys.ArchetypeResource = mgrs[i].MakeLocalShared()
				if persistent[i] {
					db, err := sharedDB()
					if err != nil {
						t.Fatalf("harness: cannot open in-memory badger: %v", err)
					}
					res = resources.MakePersistent(fmt.Sprintf("c07.c%d.%s", id, names[i]), db, res.(resources.Persistable))
				}
				cfg = append(cfg, distsys.EnsureArchetypeRefParam(names[i], res))
			}
			ctxs[a] = distsys.NewMPCalContext(tla.MakeNumber(int32(a)), arch, cfg...)
		}

		render := func() string {
			var b strings.Builder
			b.WriteString("--- case ---\n" + desc.String() + "--- attempts in arrival order ---\n")
			rec.mu.Lock()
			for i, e := range rec.events {
				if n := len(rec.events); n > 400 && i >= 200 && i < n-200 {
					if i == 200 {
						fmt.Fprintf(&b, "… %d attempts omitted …\n", n-400)
					}
					continue
				}
				b.WriteString(e.String() + "\n")
			}
			rec.mu.Unlock()
			return b.String()
		}

		// ---- run ---------------------------------------------------------------------------
		start := make(chan struct{})
		done := make(chan int, nArch)
		errs := make([]error, nArch)
		for a := range ctxs {
			a := a
			go func() {
				<-start
				errs[a] = hx.SafeRun(ctxs[a])
				done <- a
			}()
		}
		began := time.Now()
		close(start)
		finished := make([]bool, nArch)
		nFinished := 0
		tick := time.NewTicker(100 * time.Millisecond)
		defer tick.Stop()
		lastCommits, lastProgress := int64(0), began
		stuck := ""
	wait:
		for nFinished < nArch {
			select {
			case a := <-done:
				finished[a] = true
				nFinished++
			case now := <-tick.C:
				if cm := rec.commits.Load(); cm != lastCommits {
					lastCommits, lastProgress = cm, now
				}
				if now.Sub(began) > runWatchdog {
					stuck = fmt.Sprintf("the run did not finish within %v", runWatchdog)
					break wait
				}
				if now.Sub(lastProgress) > stallLimit {
					stuck = fmt.Sprintf("no section committed anywhere for %v (longest lock time-out is 50ms)", stallLimit)
					break wait
				}
			}
		}
		probeLeaks := func() []string {
			var leaked []string
			for i := range mgrs {
				h := mgrs[i].MakeLocalShared()
				var err error
				hung := false
				// every archetype has ended: a held lock is refused every time; a single
				// refusal may be a scheduling stall longer than the time-out (see mcase.access)
				tries := spuriousRetries
				if timeouts[i] == 0 {
					tries = 60 // a try-lock: a free lock is refused about every other time (see mvar.retries)
				}
				for try := 0; try <= tries && !hung; try++ {
					_, _, hung = guarded(func() {
						_, err = h.ReadValue(throwAwayIFace(90 + i))
						h.Abort(throwAwayIFace(90 + i))
					})
					if err == nil {
						break
					}
				}
				if hung || err != nil {
					leaked = append(leaked, names[i])
				}
			}
			return leaked
		}
		if stuck != "" {
			dump := allStacks()
			var unfinished []int
			for a, f := range finished {
				if !f {
					unfinished = append(unfinished, a)
				}
			}
			// ask the stragglers to stop: an archetype that is merely retrying reacts at its
			// next attempt; one that is blocked inside a resource call never does
			for _, a := range unfinished {
				go ctxs[a].Stop()
			}
			tm := time.NewTimer(hangLimit)
			defer tm.Stop()
		drain:
			for nFinished < nArch {
				select {
				case a := <-done:
					finished[a] = true
					nFinished++
				case <-tm.C:
					break drain
				}
			}
			if nFinished < nArch {
				var blocked []int
				for a, f := range finished {
					if !f {
						blocked = append(blocked, a)
					}
				}
				t.Fatalf("deadlock: %s; archetypes %v are blocked and do not reach their next attempt even when asked to stop\n%s--- goroutines when the watchdog fired ---\n%s", stuck, blocked, render(), dump)
			}
			if leaked := probeLeaks(); len(leaked) > 0 {
				t.Fatalf("%s: archetypes %v kept aborting because the lock(s) of %v are still held although every archetype has now stopped and holds no open section — a section ended without releasing\n%s", stuck, unfinished, leaked, render())
			}
			// retrying without progress and without a leaked lock: not something the
			// property rules out and not something this run can decide
			vstat.Class("conc.inconclusive.no-progress")
			return
		}

		// ---- oracle ------------------------------------------------------------------------
		for a, err := range errs {
			if err != nil {
				t.Fatalf("a%d: Run returned %v\n%s", a, err, render())
			}
		}
		if leaked := probeLeaks(); len(leaked) > 0 {
			t.Fatalf("every archetype ended, but the lock(s) of %v are still held\n%s", leaked, render())
		}
		rec.mu.Lock()
		events := append([]cevent(nil), rec.events...)
		rec.mu.Unlock()

		idx := map[string]int{}
		for i, n := range names {
			idx[n] = i
		}
		type csec struct {
			ev    cevent
			arch  int
			sec   int
			stamp int32
		}
		var committed []csec
		perArch := make([]int, nArch)
		aborts := 0
		for _, ev := range events {
			if ev.abort {
				aborts++
				vstat.Class("conc.attempt.abort")
				continue
			}
			vstat.Class("conc.attempt.commit")
			a := ev.self
			if a < 0 || a >= nArch || perArch[a] >= len(progs[a]) {
				t.Fatalf("a%d committed more sections than its program has\n%s", a, render())
			}
			sec := progs[a][perArch[a]]
			// the recorded accesses must be the program's (otherwise the oracle has no footing)
			want := len(sec.ops) + 2
			if len(ev.elems) != want {
				t.Fatalf("a%d.l%d: committed attempt recorded %d accesses, the section performs %d: %v\n%s", a, perArch[a], len(ev.elems), want, ev, render())
			}
			for i, op := range sec.ops {
				if ev.elems[i].name != cellName(op.cell) || ev.elems[i].write != op.write || !ev.elems[i].val.IsNumber() {
					t.Fatalf("a%d.l%d: recorded access %d is %v, program says %v\n%s", a, perArch[a], i, ev.elems[i], op, render())
				}
			}
			cr, cw := ev.elems[want-2], ev.elems[want-1]
			if cr.name != "clock" || cr.write || cw.name != "clock" || !cw.write || !cr.val.IsNumber() || !cw.val.IsNumber() {
				t.Fatalf("a%d.l%d: the last two recorded accesses are not the clock bump: %v\n%s", a, perArch[a], ev, render())
			}
			committed = append(committed, csec{ev: ev, arch: a, sec: perArch[a], stamp: cw.val.AsNumber()})
			perArch[a]++
		}
		for a := range progs {
			if perArch[a] != len(progs[a]) {
				t.Fatalf("a%d ended after committing %d of its %d sections\n%s", a, perArch[a], len(progs[a]), render())
			}
		}
		volAborts := int(volAbortsSeen.Load())
		conflictAborts := aborts - volAborts
		vstat.ClassN("conc.abort.conflict", int64(conflictAborts))
		vstat.ClassN("conc.abort.await", int64(volAborts))

		// (3) serial replay in clock order
		sort.SliceStable(committed, func(i, j int) bool { return committed[i].stamp < committed[j].stamp })
		model := make([]int32, nCells+1)
		copy(model, initVals)
		for k, cs := range committed {
			if cs.stamp != int32(k+1) {
				t.Fatalf("clock stamps of the committed sections are not 1..%d: position %d carries stamp %d (a%d.l%d) — two sections bumped the lock-protected clock from the same value, or a bump was lost\n%s", len(committed), k+1, cs.stamp, cs.arch, cs.sec, render())
			}
			for i, el := range cs.ev.elems {
				ci := idx[el.name]
				if el.write {
					model[ci] = el.val.AsNumber()
					continue
				}
				if got := el.val.AsNumber(); got != model[ci] {
					t.Fatalf("not serializable: a%d.l%d (commit order %d) read %s = %d at access %d, but replaying the committed sections serially in commit order gives %s = %d at that point\nsection: %v\n%s", cs.arch, cs.sec, cs.stamp, el.name, got, i, el.name, model[ci], cs.ev, render())
				}
			}
			// (2) conservation inside a committed read-all: transfers keep the sum, increments
			// add whole thousands — whatever the order
			sec := progs[cs.arch][cs.sec]
			if sec.kind == "readall" {
				var sum int64
				for i := 0; i < sec.nReadAll; i++ {
					sum += int64(cs.ev.elems[i].val.AsNumber())
				}
				d := sum - total
				if d%1000 != 0 || d < 0 || d/1000 > incUnits {
					t.Fatalf("conservation broken: a%d.l%d (commit order %d) read all cells and saw the sum %d; initial total %d, transfers keep it and increments only add thousands (at most %d)\nsection: %v\n%s", cs.arch, cs.sec, cs.stamp, sum, total, incUnits, cs.ev, render())
				}
				vstat.Class("conc.readall.checked")
			}
		}
		// final states: GetState, serial model and the order-independent expectation agree
		var finalSum int64
		for i := 0; i <= nCells; i++ {
			var b []byte
			var err error
			if _, p, hung := guarded(func() { b, err = mgrs[i].MakeLocalShared().GetState() }); hung || p != nil || err != nil {
				t.Fatalf("GetState(%s) after the run: hung=%v panic=%v err=%v\n%s", names[i], hung, p, err, render())
			}
			v, err := decodeState(b)
			if err != nil || !v.IsNumber() {
				t.Fatalf("GetState(%s) after the run does not decode into a number: %v %v\n%s", names[i], v, err, render())
			}
			got := v.AsNumber()
			if got != model[i] {
				t.Fatalf("final %s = %d, serial replay of the committed sections gives %d (an aborted attempt left a trace, or an update was lost)\n%s", names[i], got, model[i], render())
			}
			if i < nCells {
				if got != expected[i] {
					t.Fatalf("final %s = %d, but every section committed exactly once, which gives %d whatever the order (lost update / trace of an aborted attempt)\n%s", names[i], got, expected[i], render())
				}
				finalSum += int64(got)
			} else if got != int32(nSections) {
				t.Fatalf("final clock = %d, %d sections committed\n%s", got, nSections, render())
			}
		}
		if finalSum != total+1000*incUnits {
			t.Fatalf("final sum %d != initial total %d + increments %d\n%s", finalSum, total, 1000*incUnits, render())
		}
		if opposite {
			vstat.Class("conc.case.opposite-orders")
		}
		if opposite && conflictAborts >= 1 {
			d := desc.String()
			vstat.NonTrivial(d, func() string { return render() })
		}
	})
}
