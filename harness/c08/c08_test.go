// C08 — the generated Raft KV store keeps the Raft safety invariants.
package c08

import (
	"fmt"
	"io"
	"log"
	"os"
	"strings"
	"testing"

	"github.com/DistCompiler/pgo/distsys/trace"
	"pgregory.net/rapid"

	"verif/harness/sched"
	"verif/harness/sysbind"
	"verif/harness/vstat"
)

func TestMain(m *testing.M) {
	log.SetOutput(io.Discard)
	vstat.Main(m, "C08")
}

func checkTruth(r *sysbind.Raft) string {
	for s := 1; s <= r.O.NumServers; s++ {
		for v, sh := range r.Shadow[s-1] {
			tv, err := r.Truth(s, v)
			if err != nil {
				return fmt.Sprintf("INCONCLUSIVE: cannot read %s of server %d: %v", v, s, err)
			}
			if !tv.Equal(sh) {
				return fmt.Sprintf("INCONCLUSIVE: harness shadow of %s[%d] is %v but the shared variable holds %v", v, s, sh, tv)
			}
		}
	}
	return ""
}

func TestC08RaftSafety(t *testing.T) {
	rapid.Check(t, func(t *rapid.T) {
		if vstat.OverBudget() {
			return
		}
		vstat.Case()
		iv := sysbind.NewRaftInv()
		answered := 0
		leaderCrash := false
		run, msg := sysbind.DriveRaft(t, sysbind.RaftDriveOpts{
			MinClients: 1, MaxClients: 3, MaxSteps: 3000,
			AtEnd: func(run *sysbind.RaftRun) string { return checkTruth(run.R) },
			OnAbort: func(run *sysbind.RaftRun, in *sched.Instance, st sched.Step) string {
				// an aborted attempt must leave every shared variable as it was; sampled (it costs 12 gob decodes per server)
				if os.Getenv("VERIF_TRUTH_EVERY") != "" {
					fmt.Fprintf(&run.Hist, "%d: %s ABORTS %s  writes: %s\n", run.StepNo, in.Name, st.PC, writesOf(st))
				}
				if os.Getenv("VERIF_TRUTH_EVERY") != "" || run.Steps%211 == 0 {
					if m := checkTruth(run.R); m != "" {
						return m + fmt.Sprintf("\n   elements of the aborted attempt: %v", st.Event.Elements)
					}
				}
				return ""
			},
			OnCommit: func(run *sysbind.RaftRun, in *sched.Instance, st sched.Step) string {
				if m := iv.Check(run.R); m != "" {
					return m
				}
				if run.Commits%397 == 0 || os.Getenv("VERIF_TRUTH_EVERY") != "" {
					if os.Getenv("VERIF_TRUTH_EVERY") != "" {
						fmt.Fprintf(&run.Hist, "   writes: %s\n", writesOf(st))
					}
					if m := checkTruth(run.R); m != "" {
						return m
					}
				}
				if st.PC == "AClient.rcvResp" && strings.Contains(fmt.Sprint(st.Event.Elements), "respCh") {
					answered++
				}
				return ""
			},
		})
		if msg != "" {
			t.Fatalf("%s\nservers=%d clients=%d persist=%v crashes=%v\nhistory (last part):\n%s", msg, run.R.O.NumServers, run.R.O.NumClients, run.R.O.Persist, run.Crashes, tail(run.Hist.String(), histTail()))
		}
		for _, s := range run.Crashes {
			for term, l := range iv.LeaderOf {
				_ = term
				if l == s {
					leaderCrash = true
				}
			}
		}
		vstat.ClassN("attempts", int64(run.Steps))
		vstat.ClassN("commits", int64(run.Commits))
		vstat.ClassN("terms-with-leader", int64(iv.TermsWithLeader()))
		vstat.ClassN("entries-committed", int64(len(iv.Committed)))
		vstat.ClassN("requests-answered", int64(answered))
		if iv.Truncations > 0 {
			vstat.Class("runs.with-log-truncation")
		}
		if iv.LeaderChangesAfterCommit > 0 {
			vstat.Class("runs.with-leader-change-after-commit")
		}
		if leaderCrash {
			vstat.Class("runs.with-crash-of-a-leader")
		}
		if iv.TermsWithLeader() >= 2 && len(iv.Committed) >= 1 && (iv.Truncations > 0 || iv.LeaderChangesAfterCommit > 0 || leaderCrash) {
			h := run.Hist.String()
			vstat.NonTrivial(h, func() string {
				return fmt.Sprintf("servers=%d clients=%d crashes=%v terms-with-leader=%d committed=%d truncations=%d\n%s", run.R.O.NumServers, run.R.O.NumClients, run.Crashes, iv.TermsWithLeader(), len(iv.Committed), iv.Truncations, tail(h, 1500))
			})
		}
	})
}

func tail(s string, n int) string {
	if len(s) > n {
		return "…" + s[len(s)-n:]
	}
	return s
}

func writesOf(st sched.Step) string {
	var b strings.Builder
	for _, el := range st.Event.Elements {
		if w, ok := el.(trace.WriteElement); ok {
			fmt.Fprintf(&b, "%s.%s%v:=%v; ", w.Prefix, w.Name, w.Indices, w.Value)
		}
	}
	return b.String()
}

func histTail() int {
	if os.Getenv("VERIF_TRUTH_EVERY") != "" {
		return 400000
	}
	return 6000
}
