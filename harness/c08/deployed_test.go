//go:build verif

package c08

import (
	"fmt"
	"testing"

	"pgregory.net/rapid"

	"verif/harness/sched"
	"verif/harness/sysbind"
	"verif/harness/vstat"
)

// TestC08Deployed runs the store as systems/raftkvs/bootstrap wires it (NewServer / NewClient: the real
// LocalSharedManagers shared by a server's five archetypes, TCP mailboxes and monitors on loopback, real
// failure detectors, timers, heartbeat channel, optional badger persistence) one attempt at a time: which
// archetype attempts next, every either/with choice and the crash points are drawn. After every commit the
// Raft invariants are evaluated on the per-server state reconstructed from the committed writes, and every
// read of a per-server variable must have returned the value last committed on that server.
func TestC08Deployed(t *testing.T) {
	rapid.Check(t, func(t *rapid.T) {
		if vstat.OverBudget() {
			return
		}
		vstat.Case()
		iv := sysbind.NewRaftInv()
		run, msg := sysbind.DriveDeployed(t, sysbind.DeployedDriveOpts{MinClients: 1, MaxClients: 2, StepChoices: []int{300, 800, 1500},
			OnCommit: func(run *sysbind.DeployedRun, in *sched.Instance, st sched.Step) string { return iv.Check(run.D.View()) }})
		if run.D != nil {
			defer run.D.Close()
		}
		if msg != "" {
			t.Fatalf("%s\n-- schedule (last part):\n%s", msg, tailStr(run.Hist.String(), 6000))
		}
		vstat.ClassN("deployed.commits", int64(run.Commits))
		vstat.ClassN("deployed.elections-started", int64(run.Elections))
		vstat.Class(fmt.Sprintf("deployed.servers.%d", run.D.N))
		if iv.TermsWithLeader() > 0 {
			vstat.Class("deployed.leader-elected")
		}
		if iv.TermsWithLeader() >= 2 || (iv.TermsWithLeader() > 0 && len(iv.Committed) > 0) {
			vstat.NonTrivial("deployed|"+run.Hist.String(), func() string {
				return fmt.Sprintf("deployed wiring: %d servers, %d clients, %d commits, leaders in %d terms, %d entries committed", run.D.N, run.D.NC, run.Commits, iv.TermsWithLeader(), len(iv.Committed))
			})
		}
	})
}

func tailStr(s string, n int) string {
	if len(s) > n {
		return "…" + s[len(s)-n:]
	}
	return s
}
