//go:build verif

package c08

import (
	"fmt"
	"os"
	"strings"
	"testing"
	"time"

	"github.com/DistCompiler/pgo/systems/raftkvs/bootstrap"
	"pgregory.net/rapid"

	"verif/harness/sched"
	"verif/harness/sysbind"
	"verif/harness/vstat"
)

// TestC08Deployed runs the store as systems/raftkvs/bootstrap wires it (NewServer / NewClient: the real
// LocalSharedManagers shared by a server's five archetypes, TCP mailboxes and monitors on loopback, real
// failure detectors, timers, heartbeat channel, optional badger persistence) one attempt at a time: which
// archetype attempts next, every either/with choice and the crash points are drawn. After every commit the
// Raft invariants are evaluated on the per-server state reconstructed from the committed writes, and every
// read of a per-server variable must have returned the value last committed on that server.
func TestC08Deployed(t *testing.T) {
	rapid.Check(t, func(t *rapid.T) {
		vstat.Case()
		n := rapid.SampledFrom([]int{1, 2, 3, 3, 3, 5}).Draw(t, "servers")
		nc := rapid.IntRange(1, 2).Draw(t, "clients")
		o := sysbind.DeployedOpts{NumServers: n, NumClients: nc,
			Persist:         rapid.IntRange(0, 3).Draw(t, "persist") == 0,
			ElectionTimeout: time.Duration(rapid.SampledFrom([]int{1, 3}).Draw(t, "election-ms")) * time.Millisecond,
			ElectionOffset:  time.Millisecond,
			HeartbeatEvery:  time.Millisecond,
			ReceiveChanSize: rapid.SampledFrom([]int{3, 10, 100}).Draw(t, "chan-size"),
			ClientTimeout:   time.Duration(rapid.SampledFrom([]int{20, 80}).Draw(t, "client-timeout-ms")) * time.Millisecond,
		}
		t0 := time.Now()
		d, err := sysbind.NewDeployedRaft(o, func(in *sched.Instance, id string, k uint) uint {
			return uint(rapid.IntRange(0, int(k)-1).Draw(t, id))
		})
		tSetup := time.Since(t0)
		var tLoop time.Duration
		if d != nil {
			defer func() {
				t1 := time.Now()
				d.Close()
				if os.Getenv("VERIF_TIMING") != "" {
					fmt.Fprintf(os.Stderr, "n=%d setup=%v loop=%v close=%v\n", n, tSetup, tLoop, time.Since(t1))
				}
			}()
		}
		if err != nil {
			t.Fatalf("INCONCLUSIVE: %v", err)
		}
		// workload
		keys := []string{"k1", "k2"}
		tok := 0
		for c := 0; c < nc; c++ {
			for i, m := 0, rapid.IntRange(1, 4).Draw(t, "ops"); i < m; i++ {
				key := keys[rapid.IntRange(0, 1).Draw(t, "key")]
				if rapid.IntRange(0, 9).Draw(t, "isput") < 6 {
					tok++
					d.ReqCh[c] <- bootstrap.PutRequest{Key: key, Value: fmt.Sprintf("v%d", tok)}
				} else {
					d.ReqCh[c] <- bootstrap.GetRequest{Key: key}
				}
			}
			ch := d.RespCh[c]
			go func() {
				for range ch {
				}
			}()
		}
		var hist strings.Builder
		iv := sysbind.NewRaftInv()
		budget := rapid.SampledFrom([]int{300, 800, 1500}).Draw(t, "steps")
		electPct := rapid.SampledFrom([]int{1, 3, 10}).Draw(t, "electpct")
		maxCrash := (n - 1) / 2
		crashAt := map[int]int{}
		for i, k := 0, rapid.IntRange(0, maxCrash).Draw(t, "crashes"); i < k; i++ {
			crashAt[rapid.IntRange(1, n).Draw(t, "crash-server")] = rapid.IntRange(0, budget).Draw(t, "crash-step")
		}
		var all []*sched.Instance
		for _, g := range d.Insts {
			all = append(all, g...)
		}
		all = append(all, d.CInsts...)
		fail := func(f string, a ...any) {
			t.Fatalf("%s\n-- schedule (last part):\n%s", fmt.Sprintf(f, a...), tailStr(hist.String(), 6000))
		}
		commits, elections, leaderSeen := 0, 0, false
		for step := 0; step < budget; {
			for s, at := range crashAt {
				if step >= at && !d.Crashed[s] {
					d.Crashed[s] = true
					fmt.Fprintf(&hist, "-- server %d crashes (step %d)\n", s, step)
				}
			}
			var cand []*sched.Instance
			var w []int
			total := 0
			for _, in := range all {
				node := d.NodeOf(in)
				if !in.Live || (node <= n && d.Crashed[node]) {
					continue
				}
				wt := 10
				if strings.HasPrefix(in.Name, "AServerRequestVote") {
					wt = electPct // stepping it means its election timer expires
				} else if strings.HasPrefix(in.Name, "AServer(") {
					wt = 30
				}
				cand = append(cand, in)
				w = append(w, wt)
				total += wt
			}
			if len(cand) == 0 {
				break
			}
			x := rapid.IntRange(0, total-1).Draw(t, "who")
			var in *sched.Instance
			for i, c := range cand {
				if x < w[i] {
					in = c
					break
				}
				x -= w[i]
			}
			for b, burst := 0, rapid.IntRange(1, 4).Draw(t, "burst"); b < burst && step < budget; b++ {
				st := d.Sim.Step(in)
				step++
				switch st.Kind {
				case sched.Committed:
					commits++
					fmt.Fprintf(&hist, "%d: %s commits %s\n", step-1, in.Name, st.PC)
					if strings.HasSuffix(st.PC, "requestVoteLoop") {
						elections++
					}
					if st.Err != nil {
						fail("%s ended with an error: %v", in.Name, st.Err)
					}
					if d.ReadMismatch != "" {
						fail("the five archetypes of a server do not share its state: %s", d.ReadMismatch)
					}
					if msg := iv.Check(d.View()); msg != "" {
						fail("%s", msg)
					}
				case sched.Aborted:
					b = burst
				case sched.Exited:
					if st.Err != nil {
						fail("%s failed: %v", in.Name, st.Err)
					}
					b = burst
				case sched.Stuck:
					if e := d.RunErrors(); e != "" {
						fail("an archetype ended: %s", e)
					}
					t.Fatalf("INCONCLUSIVE: %s stuck at %s", in.Name, st.PC)
				default:
					b = burst
				}
			}
		}
		tLoop = time.Since(t0) - tSetup
		if e := d.RunErrors(); e != "" {
			fail("an archetype ended: %s", e)
		}
		leaderSeen = iv.TermsWithLeader() > 0
		vstat.ClassN("deployed.commits", int64(commits))
		vstat.ClassN("deployed.elections-started", int64(elections))
		vstat.Class(fmt.Sprintf("deployed.servers.%d", n))
		if leaderSeen {
			vstat.Class("deployed.leader-elected")
		}
		if iv.TermsWithLeader() >= 2 || (leaderSeen && len(iv.Committed) > 0) {
			vstat.NonTrivial("deployed|"+hist.String(), func() string {
				return fmt.Sprintf("deployed wiring: %d servers, %d clients, %d commits, leaders in %d terms, %d entries committed", n, nc, commits, iv.TermsWithLeader(), len(iv.Committed))
			})
		}
	})
}

func tailStr(s string, n int) string {
	if len(s) > n {
		return "…" + s[len(s)-n:]
	}
	return s
}
