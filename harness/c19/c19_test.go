// C19 — failure detector is complete and settles to accurate answers.
//
// A case is a generated order of {monitor start, monitor shut-down, archetype
// start, archetype end (Done / Stop / error / panic), detector start, path
// sever / blackhole / heal, reads} plus a pull interval and a time-out. The real
// resources.Monitor runs a real MPCalContext whose one-label body the harness
// steers through a channel; real resources.FailureDetector resources reach the
// monitor only through a harness-owned TCP proxy (proxy_test.go). Detectors are
// read the way MPCalContext reads a resource (Index, ReadValue, then
// PreCommit+Commit or Abort).
//
// Oracle (one polling cycle = interval + time-out):
//   - the archetype has ended, or the path is severed/blackholed, or the monitor
//     is not serving  =>  every detector reads TRUE within 3 cycles (+ slack) and
//     keeps reading TRUE while that holds;
//   - the archetype runs, the monitor serves, the path passes  =>  every detector
//     reads FALSE within 3 cycles (+ slack) and, once it has, never reads TRUE
//     while that holds;
//   - a detector never reads FALSE unless, since it was started, there was a moment
//     at which the monitor could have told it so (no timing involved);
//   - a read returns within interval (+ slack); it may abort only before the
//     detector's first answer;
//   - a detector that is read continuously and its twin that is read only at the
//     sample points agree at every settled point, and back-to-back reads agree.
//
// Wall-clock only ever separates "never" from "late": a polling cycle is 15-60 ms,
// the slack on every deadline is 1.5 s, and a miss is re-executed alone before it
// is believed. The kinds of miss that one stalled poll can produce on a correct
// detector (a healthy archetype briefly reported failed) must in addition survive
// two runs with the time-out x25 during which a canary goroutine saw no starvation.
package c19

import (
	"errors"
	"fmt"
	"io"
	"log"
	"net"
	"net/rpc"
	"os"
	"runtime"
	"strings"
	"sync"
	"sync/atomic"
	"testing"
	"time"

	"github.com/DistCompiler/pgo/distsys"
	"github.com/DistCompiler/pgo/distsys/resources"
	"github.com/DistCompiler/pgo/distsys/tla"
	"pgregory.net/rapid"

	"verif/harness/vstat"
)

func TestMain(m *testing.M) {
	log.SetOutput(io.Discard) // fd.go logs every state change
	vstat.Main(m, "C19")
}

// Signature of the one behaviour of the pinned tree this check sets aside when
// it is listed (status open) in known_findings.json; see the final report.
const sigMonitorClose = "monitor-close-keeps-serving-open-connections"

const (
	slack      = 1500 * time.Millisecond
	boundCycle = 3 // B: answers must have settled this many polling cycles after an event
	holdCycles = 2 // ... and are then watched for this many more
)

// ---- scenario ---------------------------------------------------------------------------

type evKind int

const (
	evMonStart evKind = iota
	evMonStop
	evArchStart
	evArchEnd
	evDetStart
	evProxy
	evRead
)

type endKind int

const (
	endDone endKind = iota
	endStop
	endError
	endPanic
)

func (k endKind) String() string { return [...]string{"Done", "Stop", "error", "panic"}[k] }

type event struct {
	kind   evKind
	slot   int     // evDetStart, evProxy, evRead
	end    endKind // evArchEnd
	mode   pmode   // evProxy
	refuse bool    // evProxy/sever: stop listening instead of resetting new connections
	n      int     // evRead: back-to-back reads
}

func (e event) String() string {
	switch e.kind {
	case evMonStart:
		return "monitor-start"
	case evMonStop:
		return "monitor-close"
	case evArchStart:
		return "archetype-start"
	case evArchEnd:
		return "archetype-end(" + e.end.String() + ")"
	case evDetStart:
		return fmt.Sprintf("detector-start(slot %d)", e.slot)
	case evProxy:
		if e.mode == mSever {
			if e.refuse {
				return fmt.Sprintf("path(slot %d)=sever/refuse", e.slot)
			}
			return fmt.Sprintf("path(slot %d)=sever/reset", e.slot)
		}
		if e.mode == mPass {
			return fmt.Sprintf("path(slot %d)=heal", e.slot)
		}
		return fmt.Sprintf("path(slot %d)=%s", e.slot, e.mode)
	case evRead:
		return fmt.Sprintf("read(slot %d)x%d", e.slot, e.n)
	}
	return "?"
}

type scenario struct {
	interval, timeout time.Duration
	idKind            int
	slots             int
	events            []event
}

func (sc scenario) String() string {
	var b strings.Builder
	fmt.Fprintf(&b, "interval=%v timeout=%v id=%v slots=%d:", sc.interval, sc.timeout, idKinds[sc.idKind], sc.slots)
	for i, e := range sc.events {
		fmt.Fprintf(&b, " %d.%s", i, e)
	}
	return b.String()
}

var idKinds = [...]string{"number", "string", "tuple"}

var worldSeq int64

// archID builds the monitored archetype's identifier. Its shape is drawn; its
// content is unique to this process and run, so that if a listening port freed
// by this case is picked up by another test process, that stranger's monitor can
// only ever answer "archetype not found" — never "alive" — for it.
func archID(kind int, uniq int64) tla.Value {
	switch kind {
	case 0:
		return tla.MakeNumber(int32(1 + uniq&0x3fffffff))
	case 1:
		return tla.MakeString(fmt.Sprintf("srv-%d", uniq))
	default:
		return tla.MakeTuple(tla.MakeString(fmt.Sprintf("node-%d", uniq)), tla.MakeNumber(3))
	}
}

func genScenario(t *rapid.T) scenario {
	sc := scenario{
		interval: time.Duration(rapid.IntRange(5, 20).Draw(t, "intervalMs")) * time.Millisecond,
		timeout:  time.Duration(rapid.IntRange(10, 40).Draw(t, "timeoutMs")) * time.Millisecond,
		idKind:   rapid.IntRange(0, len(idKinds)-1).Draw(t, "idKind"),
		slots:    rapid.IntRange(1, 2).Draw(t, "slots"),
	}
	n := rapid.IntRange(3, 10).Draw(t, "events")
	monStarted, monStopped, archStarted, archEnded := false, false, false, false
	detStarted := make([]bool, sc.slots)
	mode := make([]pmode, sc.slots)
	anyDet := func() bool {
		for _, s := range detStarted {
			if s {
				return true
			}
		}
		return false
	}
	for i := 0; i < n; i++ {
		// enabled events, each with a weight (repetition in the slice)
		var opts []event
		add := func(w int, e event) {
			for k := 0; k < w; k++ {
				opts = append(opts, e)
			}
		}
		if !monStarted {
			add(5, event{kind: evMonStart})
		}
		if monStarted && !monStopped {
			add(1, event{kind: evMonStop})
		}
		if !archStarted {
			add(5, event{kind: evArchStart})
		}
		if archStarted && !archEnded {
			add(2, event{kind: evArchEnd, end: endPanic})
			add(1, event{kind: evArchEnd, end: endError})
			add(1, event{kind: evArchEnd, end: endDone})
			add(1, event{kind: evArchEnd, end: endStop})
		}
		for s := 0; s < sc.slots; s++ {
			if !detStarted[s] {
				add(5, event{kind: evDetStart, slot: s})
			} else {
				add(1, event{kind: evRead, slot: s})
			}
			// path faults only matter to a detector that exists or will exist
			for _, m := range []pmode{mPass, mSever, mBlackhole} {
				if m == mode[s] {
					continue
				}
				if m == mPass {
					add(3, event{kind: evProxy, slot: s, mode: m}) // broken paths tend to heal
				} else {
					add(1, event{kind: evProxy, slot: s, mode: m})
				}
			}
		}
		e := rapid.SampledFrom(opts).Draw(t, "event")
		switch e.kind {
		case evMonStart:
			monStarted = true
		case evMonStop:
			monStopped = true
		case evArchStart:
			archStarted = true
		case evArchEnd:
			archEnded = true
		case evDetStart:
			detStarted[e.slot] = true
		case evProxy:
			mode[e.slot] = e.mode
			if e.mode == mSever {
				e.refuse = rapid.Bool().Draw(t, "refuse")
			}
		case evRead:
			e.n = rapid.IntRange(2, 6).Draw(t, "reads")
		}
		sc.events = append(sc.events, e)
	}
	if !anyDet() {
		sc.events = append(sc.events, event{kind: evDetStart, slot: 0})
	}
	return sc
}

// ---- world -------------------------------------------------------------------------------

type rd int

const (
	rAbort  rd = iota
	rAlive     // FALSE
	rFailed    // TRUE
	rOther
)

func (r rd) String() string { return [...]string{"abort", "FALSE(alive)", "TRUE(failed)", "other"}[r] }

type exp int

const (
	xUnspec exp = iota
	xAlive
	xFailed
)

func (x exp) String() string { return [...]string{"unspecified", "alive", "failed"}[x] }

type violation struct {
	kind string
	msg  string
}

// kinds that a scheduling stall of one time-out can produce on a correct detector
var loadSensitive = map[string]bool{
	"alive-flipped-to-failed": true,
	"never-alive":             true,
	"twin-mismatch":           true,
	"burst-mismatch":          true,
}

type det struct {
	name  string
	slot  *slot
	heavy bool
	fd    *resources.FailureDetector
	iface distsys.ArchetypeInterface
	id    tla.Value

	mu       sync.Mutex // one reader at a time, like an archetype
	started  bool
	stopBg   chan struct{}
	bgDone   chan struct{}
	bgReads  int64
	bgViol   atomic.Pointer[violation]
	maxRead  time.Duration
	interval time.Duration
	stall    *int64 // the world's canary: total time this process was seen starved (ns, atomic)

	everValue int32 // atomic: 1 once a read returned a value

	// sampler-only state
	justified bool // the monitor could have answered "alive" to this detector at some point
	aliveSpan bool // has read FALSE in the current healthy span
	last      rd
	ntStage   int
}

type slot struct {
	idx    int
	px     *proxy
	mode   pmode
	dets   []*det
	linger bool // a connection made while the monitor served may still be open
}

type world struct {
	sc       scenario
	interval time.Duration
	timeout  time.Duration
	cycle    time.Duration
	id       tla.Value
	sentinel tla.Value
	t0       time.Time

	mon       *resources.Monitor
	monErr    chan error
	monStart  bool
	monStop   bool
	monPanics int

	ctx      *distsys.MPCalContext
	cmd      chan endKind
	entered  chan struct{}
	archDone chan error
	archSt   bool
	archEnd  bool
	endedBy  endKind

	stall  int64 // ns, atomic; written by the canary
	maxGap int64 // ns, atomic; worst single overshoot

	slots []*slot
	viol  []violation
	infra string
	trace strings.Builder
	count bool // bump vstat classes (first execution of a case only)
	nt    bool
	found int // times the known finding was set aside
}

func (w *world) logf(format string, a ...any) {
	fmt.Fprintf(&w.trace, "  +%6.1fms ", float64(time.Since(w.t0).Microseconds())/1000)
	fmt.Fprintf(&w.trace, format, a...)
	w.trace.WriteByte('\n')
}

func (w *world) class(name string) {
	if w.count {
		vstat.Class(name)
	}
}

func (w *world) fail(kind, format string, a ...any) {
	msg := fmt.Sprintf(format, a...)
	w.logf("VIOLATION %s: %s", kind, msg)
	w.viol = append(w.viol, violation{kind, msg})
}

func throwawayIface() distsys.ArchetypeInterface {
	return distsys.NewMPCalContext(tla.MakeNumber(99), doneArchetype("Reader")).IFace()
}

type scaling struct{ interval, timeout int }

func doneArchetype(name string) distsys.MPCalArchetype {
	return distsys.MPCalArchetype{
		Name: name, Label: name + ".l",
		JumpTable: distsys.MakeMPCalJumpTable(distsys.MPCalCriticalSection{
			Name: name + ".l", Body: func(distsys.ArchetypeInterface) error { return distsys.ErrDone }}),
		ProcTable: distsys.MakeMPCalProcTable(),
		PreAmble:  func(distsys.ArchetypeInterface) {},
	}
}

func newWorld(sc scenario, scale scaling, count bool) (*world, error) {
	uniq := int64(os.Getpid())*1000003 + atomic.AddInt64(&worldSeq, 1)
	w := &world{
		sc:       sc,
		interval: sc.interval * time.Duration(scale.interval),
		timeout:  sc.timeout * time.Duration(scale.timeout),
		id:       archID(sc.idKind, uniq),
		sentinel: tla.MakeString(fmt.Sprintf("c19-sentinel-%d", uniq)),
		t0:       time.Now(),
		count:    count,
	}
	w.cycle = w.interval + w.timeout
	w.mon = resources.NewMonitor("127.0.0.1:1") // real address chosen at monitor start
	// a second archetype that has already finished under this monitor: asking for it
	// tells this monitor from a stranger that happens to listen on the same port
	if err := w.mon.RunArchetype(distsys.NewMPCalContext(w.sentinel, doneArchetype("Sentinel"))); err != nil {
		return nil, err
	}

	w.cmd = make(chan endKind, 1)
	w.entered = make(chan struct{})
	var once sync.Once
	cmd, entered := w.cmd, w.entered
	body := func(iface distsys.ArchetypeInterface) error {
		once.Do(func() { close(entered) })
		tm := time.NewTimer(4 * time.Millisecond)
		defer tm.Stop()
		select {
		case c := <-cmd:
			switch c {
			case endDone:
				return distsys.ErrDone
			case endError:
				return errors.New("c19: archetype failed")
			case endPanic:
				panic("c19: archetype panic")
			}
			return distsys.ErrDone
		case <-tm.C:
			return distsys.ErrCriticalSectionAborted // an await that is not yet enabled
		}
	}
	arch := distsys.MPCalArchetype{
		Name: "Arch", Label: "Arch.l",
		JumpTable: distsys.MakeMPCalJumpTable(distsys.MPCalCriticalSection{Name: "Arch.l", Body: body}),
		ProcTable: distsys.MakeMPCalProcTable(),
		PreAmble:  func(distsys.ArchetypeInterface) {},
	}
	w.ctx = distsys.NewMPCalContext(w.id, arch)
	w.archDone = make(chan error, 1)

	for s := 0; s < sc.slots; s++ {
		px, err := newProxy()
		if err != nil {
			w.cleanup()
			return nil, err
		}
		sl := &slot{idx: s, px: px}
		for k := 0; k < 2; k++ {
			addr := px.addr
			d := &det{
				name:     fmt.Sprintf("det%d%s", s, [...]string{"-light", "-heavy"}[k]),
				slot:     sl,
				heavy:    k == 1,
				iface:    throwawayIface(),
				id:       w.id,
				interval: w.interval,
				stall:    &w.stall,
				fd: resources.NewFailureDetector(
					func(tla.Value) string { return addr },
					resources.WithFailureDetectorPullInterval(w.interval),
					resources.WithFailureDetectorTimeout(w.timeout)),
			}
			sl.dets = append(sl.dets, d)
		}
		w.slots = append(w.slots, sl)
	}
	return w, nil
}

// read performs one critical section that reads fd[id], the way MPCalContext
// drives a resource, and applies the world-independent checks to the answer
// (under the same lock, so that "already answered" is exact with two readers).
func (d *det) read() (r rd, dur time.Duration, v *violation) {
	d.mu.Lock()
	defer d.mu.Unlock()
	r, dur = d.read1()
	return r, dur, d.basic(r, dur)
}

func (d *det) read1() (rd, time.Duration) {
	sub, err := d.fd.Index(d.iface, d.id)
	if err != nil {
		return rOther, 0
	}
	t := time.Now()
	stall0 := atomic.LoadInt64(d.stall)
	v, err := sub.ReadValue(d.iface)
	dur := time.Since(t)
	if dur > d.interval+slack/2 {
		// suspiciously slow: give the canary a moment to report, then take off the time
		// during which the whole process demonstrably did not run
		time.Sleep(10 * time.Millisecond)
		if st := time.Duration(atomic.LoadInt64(d.stall) - stall0); st > 0 && st < dur {
			dur -= st
		}
	}
	if dur > d.maxRead {
		d.maxRead = dur
	}
	if err != nil {
		if ch := d.fd.Abort(d.iface); ch != nil {
			<-ch
		}
		if errors.Is(err, distsys.ErrCriticalSectionAborted) {
			return rAbort, dur
		}
		return rOther, dur
	}
	if ch := d.fd.PreCommit(d.iface); ch != nil {
		<-ch
	}
	if ch := d.fd.Commit(d.iface); ch != nil {
		<-ch
	}
	switch {
	case v.Equal(tla.ModuleTRUE):
		return rFailed, dur
	case v.Equal(tla.ModuleFALSE):
		return rAlive, dur
	}
	return rOther, dur
}

// basic checks that need no knowledge of the world; used by both readers.
func (d *det) basic(r rd, dur time.Duration) *violation {
	if dur > d.interval+slack {
		return &violation{"read-latency", fmt.Sprintf("%s: a read took %v (pull interval %v)", d.name, dur, d.interval)}
	}
	switch r {
	case rOther:
		return &violation{"read-error", fmt.Sprintf("%s: read returned neither TRUE, FALSE nor an abort", d.name)}
	case rAbort:
		if atomic.LoadInt32(&d.everValue) == 1 {
			return &violation{"abort-after-value", fmt.Sprintf("%s: read aborted although the detector had already answered", d.name)}
		}
	default:
		atomic.StoreInt32(&d.everValue, 1)
	}
	return nil
}

func (d *det) background() {
	defer close(d.bgDone)
	for {
		select {
		case <-d.stopBg:
			return
		default:
		}
		_, _, v := d.read()
		atomic.AddInt64(&d.bgReads, 1)
		if v != nil {
			d.bgViol.CompareAndSwap(nil, v)
		}
		time.Sleep(time.Millisecond)
	}
}

func (w *world) archRunning() bool { return w.archSt && !w.archEnd }
func (w *world) monUp() bool       { return w.monStart && !w.monStop }

func (w *world) expect(s *slot) exp {
	switch {
	case w.archEnd:
		return xFailed // crashed or finished
	case s.mode != mPass:
		return xFailed // monitor unreachable
	case !w.monStart || w.monStop:
		return xFailed // monitor not serving
	case !w.archSt:
		return xUnspec // served by a reachable monitor but never started: the statement is silent
	}
	return xAlive
}

// inFindingState: monitor closed while the archetype runs and the path passes,
// and a connection opened while the monitor served may still be open.
func (w *world) inFindingState(s *slot) bool {
	return w.monStop && w.archRunning() && s.mode == mPass && s.linger
}

// refresh recomputes the model flags after an event.
func (w *world) refresh() {
	for _, s := range w.slots {
		started := s.dets[0].started
		if s.mode == mSever {
			s.linger = false
		}
		if started && w.monUp() && s.mode == mPass {
			s.linger = true
		}
		if started && w.archRunning() && s.mode == mPass && (w.monUp() || (w.monStop && s.linger)) {
			for _, d := range s.dets {
				d.justified = true
			}
		}
		if w.expect(s) != xAlive {
			for _, d := range s.dets {
				d.aliveSpan = false
			}
		}
	}
}

func (w *world) started() []*det {
	var ds []*det
	for _, s := range w.slots {
		for _, d := range s.dets {
			if d.started {
				ds = append(ds, d)
			}
		}
	}
	return ds
}

// sample reads d once and applies every check that does not depend on the phase.
func (w *world) sample(d *det) rd {
	r, _, v := d.read()
	if v != nil {
		w.fail(v.kind, "%s", v.msg)
	}
	if v := d.bgViol.Load(); v != nil {
		w.fail(v.kind, "%s (continuous reader)", v.msg)
		d.bgViol.Store(nil)
	}
	if r == rAlive && !d.justified {
		w.fail("unjustified-alive", "%s read FALSE (alive) although since it was started there was no moment at which archetype ran, monitor served and path passed", d.name)
	}
	if r != d.last {
		w.logf("%s reads %v", d.name, r)
		d.last = r
	}
	// non-triviality: failed before the monitor was ever up -> alive -> failed after a crash
	switch {
	case d.ntStage == 0 && r == rFailed && !w.monStart:
		d.ntStage = 1
	case d.ntStage == 1 && r == rAlive:
		d.ntStage = 2
	case d.ntStage == 2 && r == rFailed && w.archEnd && (w.endedBy == endPanic || w.endedBy == endError):
		d.ntStage = 3
		w.nt = true
	}
	return r
}

// settle watches every started detector after the event applied at t0.
func (w *world) settle(t0 time.Time) {
	const (
		converge = iota
		hold
		done
	)
	type st struct {
		d         *det
		x         exp
		phase     int
		deadline  time.Duration // on the stall-compensated clock below
		holdUntil time.Duration
	}
	ds := w.started()
	if len(ds) == 0 {
		return
	}
	hold_ := time.Duration(holdCycles)*w.cycle + 10*time.Millisecond
	sts := make([]*st, len(ds))
	for i, d := range ds {
		x := w.expect(d.slot)
		sts[i] = &st{d: d, x: x, deadline: time.Duration(boundCycle)*w.cycle + slack}
		if x == xUnspec {
			sts[i].deadline = time.Duration(boundCycle)*w.cycle + 10*time.Millisecond
		}
		w.class("expect." + x.String())
		if x == xFailed {
			w.class("expect.failed.because." + w.whyShort(d.slot))
		}
	}
	// setAside: the listed finding explains this miss; stop judging this detector in this phase.
	setAside := func(s *st, what string) bool {
		if !w.inFindingState(s.d.slot) {
			return false
		}
		if !vstat.Known(sigMonitorClose) {
			w.fail("finding:"+sigMonitorClose, "%s %s after Monitor.Close() with the archetype still running "+
				"(proxy still holds a connection to the closed monitor: %v); detectors that connect after the Close read TRUE",
				s.d.name, what, s.d.slot.px.hasUpstreamConn())
			return true
		}
		w.found++
		w.class("known." + sigMonitorClose)
		w.logf("%s: %s — set aside (%s)", s.d.name, what, sigMonitorClose)
		s.phase = done
		return true
	}
	// Deadlines run on a clock that only advances while this loop is evidently
	// running: the time between two consecutive looks is counted up to a cap, so a
	// stall of the whole process (seen: 1.6 s on a busy VM) cannot by itself make an
	// answer "late". The clock starts when the loop does, i.e. just after t0.
	var active time.Duration
	lastLook := time.Now()
	capLook := 25*time.Millisecond + w.interval // one read of a not yet initialised detector sleeps one interval
	tick := func() time.Duration {
		n := time.Now()
		d := n.Sub(lastLook)
		if d > capLook {
			d = capLook
		}
		active += d
		lastLook = n
		return active
	}
	for {
		allDone := true
		for _, s := range sts {
			if s.phase == done {
				continue
			}
			tick()
			r := w.sample(s.d)
			now := tick()
			switch s.x {
			case xAlive:
				if r == rFailed && s.d.aliveSpan {
					w.fail("alive-flipped-to-failed", "%s read TRUE (failed) after it had read FALSE, while the archetype ran, the monitor served and the path passed", s.d.name)
				}
				if r == rAlive {
					s.d.aliveSpan = true
				}
				switch s.phase {
				case converge:
					if r == rAlive {
						s.phase, s.holdUntil = hold, now+hold_
					} else if now > s.deadline {
						w.fail("never-alive", "%s still reads %v %v after the last event (%v of it observed running; bound: %d cycles of %v + %v slack) although the archetype runs, the monitor serves and the path passes",
							s.d.name, r, time.Since(t0).Round(time.Millisecond), now.Round(time.Millisecond), boundCycle, w.cycle, slack)
						s.phase = done
					}
				case hold:
					if now >= s.holdUntil {
						s.phase = done
					}
				}
			case xFailed:
				switch s.phase {
				case converge:
					if r == rFailed {
						s.phase, s.holdUntil = hold, now+hold_
					} else if now > s.deadline {
						if !setAside(s, fmt.Sprintf("still reads %v", r)) {
							w.fail("never-failed", "%s still reads %v %v after the last event (%v of it observed running; bound: %d cycles of %v + %v slack) although %s",
								s.d.name, r, time.Since(t0).Round(time.Millisecond), now.Round(time.Millisecond), boundCycle, w.cycle, slack, w.why(s.d.slot))
						}
						s.phase = done
					}
				case hold:
					if r != rFailed {
						if !setAside(s, fmt.Sprintf("went back from TRUE to %v", r)) {
							w.fail("not-stay-failed", "%s read %v after it had read TRUE (failed), although %s", s.d.name, r, w.why(s.d.slot))
						}
						s.phase = done
					} else if now >= s.holdUntil {
						s.phase = done
					}
				}
			case xUnspec:
				if now > s.deadline {
					w.class("unspecified.observed." + r.String())
					s.phase = done
				}
			}
			if s.phase != done {
				allDone = false
			}
		}
		if len(w.viol) > 0 || allDone {
			break
		}
		time.Sleep(2 * time.Millisecond)
		tick()
	}
	if len(w.viol) > 0 {
		return
	}
	// settled point: back-to-back reads agree; continuously-read and rarely-read twins agree
	final := map[*det]rd{}
	for _, s := range sts {
		a := w.sample(s.d)
		for k := 0; k < 2; k++ {
			if b := w.sample(s.d); b != a {
				w.fail("burst-mismatch", "%s: back-to-back reads at a settled point returned %v then %v", s.d.name, a, b)
				return
			}
		}
		final[s.d] = a
	}
	for _, sl := range w.slots {
		l, h := sl.dets[0], sl.dets[1]
		if !l.started {
			continue
		}
		if final[l] != final[h] {
			if w.inFindingState(sl) && vstat.Known(sigMonitorClose) {
				w.found++
				continue
			}
			w.fail("twin-mismatch", "at a settled point (expected: %v) the rarely-read detector %s reads %v but its continuously-read twin %s reads %v (%d background reads)",
				w.expect(sl), l.name, final[l], h.name, final[h], atomic.LoadInt64(&h.bgReads))
			return
		}
	}
}

func (w *world) why(s *slot) string {
	switch {
	case w.archEnd:
		return "the archetype has ended (" + w.endedBy.String() + ")"
	case s.mode != mPass:
		return "the path to the monitor is in mode " + s.mode.String()
	case !w.monStart:
		return "the monitor was never started"
	case w.monStop:
		return "the monitor has been closed"
	}
	return "?"
}

func (w *world) whyShort(s *slot) string {
	switch {
	case w.archEnd:
		return "archetype-ended-" + w.endedBy.String()
	case s.mode != mPass:
		return "path-" + s.mode.String()
	case !w.monStart:
		return "monitor-never-started"
	}
	return "monitor-closed"
}

func freeAddr() (string, error) {
	l, err := net.Listen("tcp", "127.0.0.1:0")
	if err != nil {
		return "", err
	}
	a := l.Addr().String()
	_ = l.Close()
	return a, nil
}

func (w *world) startMonitor() {
	for try := 0; try < 6; try++ {
		addr, err := freeAddr()
		if err != nil {
			w.infra = "no-free-port"
			w.logf("no free port: %v", err)
			return
		}
		w.mon.ListenAddr = addr
		errc := make(chan error, 1)
		mon := w.mon
		go func() {
			defer func() {
				if r := recover(); r != nil {
					errc <- fmt.Errorf("panic in ListenAndServe: %v", r)
				}
			}()
			errc <- mon.ListenAndServe()
		}()
		up := false
	wait:
		for i := 0; i < 2000; i++ {
			select {
			case err = <-errc:
				break wait
			default:
			}
			c, derr := net.DialTimeout("tcp", addr, 200*time.Millisecond)
			if derr == nil {
				// make sure it is this monitor that answers, not a stranger who got the port
				cl := rpc.NewClient(c)
				var st resources.ArchetypeState
				call := cl.Go("MonitorRPCReceiver.IsAlive", &w.sentinel, &st, nil)
				select {
				case <-call.Done:
					if call.Error == nil {
						up = true
					}
				case <-time.After(2 * time.Second):
				}
				_ = cl.Close()
				if up {
					break wait
				}
			}
			time.Sleep(time.Millisecond)
		}
		if up {
			w.monErr = errc
			for _, s := range w.slots {
				s.px.setUpstream(addr)
			}
			return
		}
		w.logf("monitor could not listen on %s (%v); trying another port", addr, err)
	}
	w.infra = "monitor-could-not-listen"
}

func (w *world) apply(e event) (t0 time.Time) {
	switch e.kind {
	case evMonStart:
		w.startMonitor()
		w.monStart = true
	case evMonStop:
		_ = w.mon.Close()
		select {
		case err := <-w.monErr:
			if err != nil {
				w.monPanics++
				w.class("monitor.listen-returned-error")
				w.logf("ListenAndServe returned %v", err)
			}
		case <-time.After(5 * time.Second):
			w.infra = "listen-and-serve-did-not-return-after-close"
		}
		w.monErr = nil
		w.monStop = true
		// the port is free from now on and may be taken by anybody: new connections
		// through the proxies fail at once, as they would against the closed port
		for _, s := range w.slots {
			s.px.setUpstream("")
		}
	case evArchStart:
		mon, ctx, done := w.mon, w.ctx, w.archDone
		go func() { done <- mon.RunArchetype(ctx) }()
		select {
		case <-w.entered:
		case <-time.After(10 * time.Second):
			w.infra = "archetype-did-not-start"
		}
		w.archSt = true
	case evArchEnd:
		if e.end == endStop {
			w.ctx.Stop()
		} else {
			w.cmd <- e.end
		}
		select {
		case err := <-w.archDone:
			abnormal := e.end == endError || e.end == endPanic
			if abnormal != (err != nil) {
				w.fail("run-archetype-result", "RunArchetype returned %v for an archetype that ended by %v", err, e.end)
			}
		case <-time.After(10 * time.Second):
			w.infra = "archetype-did-not-end"
		}
		w.archEnd, w.endedBy = true, e.end
		w.class("end." + e.end.String())
	case evDetStart:
		s := w.slots[e.slot]
		for _, d := range s.dets {
			d.started = true
		}
		w.refresh() // the flags must be current before the first read
		for _, d := range s.dets {
			// the first Index creates the single detector and starts its loop; the read
			// finds it uninitialised and must abort within one interval (checked in read)
			if r := w.sample(d); r == rAbort {
				w.class("read.first-aborts")
			}
			if d.heavy {
				d.stopBg, d.bgDone = make(chan struct{}), make(chan struct{})
				go d.background()
			}
		}
	case evProxy:
		s := w.slots[e.slot]
		if err := s.px.setMode(e.mode, e.refuse); err != nil {
			w.infra = "proxy-port-lost-while-refusing"
			w.logf("proxy could not listen again: %v", err)
		}
		s.mode = e.mode
		w.class("path." + e.mode.String())
	case evRead:
		s := w.slots[e.slot]
		for _, d := range s.dets {
			a := w.sample(d)
			for k := 1; k < e.n; k++ {
				if b := w.sample(d); b != a {
					w.fail("burst-mismatch", "%s: back-to-back reads returned %v then %v", d.name, a, b)
					break
				}
			}
		}
	}
	t0 = time.Now()
	w.refresh()
	return t0
}

func (w *world) cleanup() {
	var wg sync.WaitGroup
	for _, s := range w.slots {
		for _, d := range s.dets {
			if d.stopBg != nil {
				close(d.stopBg)
				<-d.bgDone
			}
			d := d
			wg.Add(1)
			go func() { defer wg.Done(); _ = d.fd.Close() }()
		}
	}
	fin := make(chan struct{})
	go func() { wg.Wait(); close(fin) }()
	select {
	case <-fin:
	case <-time.After(20 * time.Second):
		w.infra = "detector-close-did-not-return"
	}
	if w.archSt && !w.archEnd {
		st := make(chan struct{})
		go func() { w.ctx.Stop(); close(st) }()
		select {
		case <-st:
			<-w.archDone
		case <-time.After(10 * time.Second):
			w.infra = "archetype-did-not-stop"
		}
	}
	if w.monStart && !w.monStop {
		_ = w.mon.Close()
		if w.monErr != nil {
			select {
			case <-w.monErr:
			case <-time.After(5 * time.Second):
			}
		}
	}
	for _, s := range w.slots {
		s.px.close()
	}
}

type result struct {
	viol  []violation
	infra string
	trace string
	nt    bool
	gap   time.Duration // worst scheduling overshoot seen by the canary
}

// canary measures how late a 2 ms sleep wakes up: a direct reading of whether
// this process is being starved while the case runs.
func (w *world) canary(stop, done chan struct{}) {
	defer close(done)
	for {
		select {
		case <-stop:
			return
		default:
		}
		t := time.Now()
		time.Sleep(2 * time.Millisecond)
		g := time.Since(t) - 2*time.Millisecond
		if g > 5*time.Millisecond {
			atomic.AddInt64(&w.stall, int64(g))
		}
		if int64(g) > atomic.LoadInt64(&w.maxGap) {
			atomic.StoreInt64(&w.maxGap, int64(g))
		}
	}
}

func runScenario(sc scenario, scale scaling, count bool) result {
	g0 := runtime.NumGoroutine()
	defer func() {
		// everything a case starts must be gone before the next one: observe, do not judge
		for i := 0; i < 100 && runtime.NumGoroutine() > g0; i++ {
			time.Sleep(5 * time.Millisecond)
		}
		if n := runtime.NumGoroutine(); n > g0 && count {
			vstat.ClassN("observed.goroutines-left-after-case", int64(n-g0))
		}
	}()
	w, err := newWorld(sc, scale, count)
	if err != nil {
		return result{infra: "setup-failed"}
	}
	cstop, cdone := make(chan struct{}), make(chan struct{})
	go w.canary(cstop, cdone)
	for i, e := range sc.events {
		w.logf("event %d: %s", i, e)
		w.class("event." + strings.SplitN(e.String(), "(", 2)[0])
		t0 := w.apply(e)
		if w.infra != "" || len(w.viol) > 0 {
			break
		}
		if e.kind != evRead {
			w.settle(t0)
		}
		if len(w.viol) > 0 {
			break
		}
	}
	if len(w.viol) > 0 {
		for _, s := range w.slots {
			fmt.Fprintf(&w.trace, "  proxy of slot %d, most recent:\n%s", s.idx, s.px.recent())
		}
	}
	w.cleanup()
	close(cstop)
	<-cdone
	return result{viol: w.viol, infra: w.infra, trace: w.trace.String(), nt: w.nt, gap: time.Duration(atomic.LoadInt64(&w.maxGap))}
}

// commonKind returns the first violation of b whose kind also occurs in a.
func commonKind(a, b []violation) (violation, bool) {
	for _, y := range b {
		for _, x := range a {
			if x.kind == y.kind {
				return y, true
			}
		}
	}
	return violation{}, false
}

var missSamples int32

// sampleMiss keeps a few set-aside misses (with their traces) in the evidence.
func sampleMiss(s string) {
	if atomic.AddInt32(&missSamples, 1) <= 4 {
		vstat.Sample(s)
	}
}

func TestC19Detector(t *testing.T) {
	rapid.Check(t, func(t *rapid.T) {
		if vstat.OverBudget() {
			return
		}
		vstat.Case()
		sc := genScenario(t)
		r := runScenario(sc, scaling{1, 1}, true)
		if r.infra != "" {
			vstat.Class("infra." + r.infra)
			return
		}
		if len(r.viol) == 0 {
			vstat.Class("outcome.pass")
			if r.nt {
				key := sc.String()
				vstat.NonTrivial(key, func() string { return key + "\n" + r.trace })
			}
			return
		}
		// a miss: run the same case again, alone, before believing it
		vstat.Class("miss.first-run." + r.viol[0].kind)
		time.Sleep(300 * time.Millisecond)
		r2 := runScenario(sc, scaling{1, 1}, false)
		if r2.infra != "" {
			vstat.Class("infra." + r2.infra)
			return
		}
		v, ok := commonKind(r.viol, r2.viol)
		if !ok {
			vstat.Class("miss.not-reproduced")
			sampleMiss(fmt.Sprintf("miss not reproduced (scheduling overshoot %v): %s\n%s\n%s", r.gap, sc, r.viol[0].msg, r.trace))
			return
		}
		if loadSensitive[v.kind] {
			// One poll that stalls for a time-out produces these on a correct detector, and
			// with time-outs of 10-40 ms a busy machine does that. A defect in the detector
			// does not care how long the time-out is: run the same order again with the
			// time-out x25 (interval x2) and require the same kind of miss twice, in runs
			// during which this process was demonstrably not starved.
			esc := scaling{2, 25}
			confirmed := 0
			for attempt := 0; attempt < 5 && confirmed < 2; attempt++ {
				time.Sleep(300 * time.Millisecond)
				r3 := runScenario(sc, esc, false)
				if r3.infra != "" {
					vstat.Class("infra." + r3.infra)
					return
				}
				v3, ok := commonKind([]violation{v}, r3.viol)
				if !ok {
					vstat.Class("miss.gone-with-long-timeout")
					sampleMiss(fmt.Sprintf("miss reproduced at the drawn times but gone with time-out x25 (scheduling overshoot %v): %s\n%s\n%s", r2.gap, sc, v.msg, r2.trace))
					return
				}
				if r3.gap >= sc.timeout*time.Duration(esc.timeout)/4 {
					vstat.Class("miss.escalated-run-disturbed")
					continue
				}
				confirmed++
				v, r2 = v3, r3
			}
			if confirmed < 2 {
				vstat.Class("miss.inconclusive-machine-too-busy")
				return
			}
		}
		t.Fatalf("C19 violated: %s\n  %s\ncase: %s\ntrace of the confirming run (worst scheduling overshoot %v):\n%s",
			v.kind, v.msg, sc, r2.gap, r2.trace)
	})
}
