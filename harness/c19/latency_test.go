package c19

// "Reading the detector never delays a critical section by more than one polling interval" — with time-outs
// that are large against the slack, so that a read which waits for the poll in flight is told from one that
// does not. TestC19Detector draws time-outs of 10-40 ms, against which its 1.5 s slack is blind.
//
// A case: a pull interval (5-30 ms), a time-out (2-3 s), what is behind the monitor's address (something that
// accepts connections and never answers / nothing listening / something that closes every connection at
// once), and reads at drawn offsets from the detector's creation, i.e. before its first verdict, during its
// first poll and after it. Every read must return within interval + 1 s whatever it returns, and must not
// abort once the detector has answered.

import (
	"errors"
	"fmt"
	"net"
	"strings"
	"sync"
	"testing"
	"time"

	"github.com/DistCompiler/pgo/distsys"
	"github.com/DistCompiler/pgo/distsys/resources"
	"github.com/DistCompiler/pgo/distsys/tla"
	"pgregory.net/rapid"

	"verif/harness/vstat"
)

const latencySlack = time.Second

type latencyCase struct {
	interval, timeout time.Duration
	peer              int // 0 accepts and never answers, 1 nothing listens, 2 closes every connection at once
	offsets           []time.Duration
}

func (c latencyCase) String() string {
	return fmt.Sprintf("interval=%v timeout=%v peer=%s reads at %v", c.interval, c.timeout,
		[...]string{"accepts-never-answers", "nothing-listening", "closes-at-once"}[c.peer], c.offsets)
}

// runLatency returns a description of the first read that took too long ("" if none), the trace, and whether
// a read was issued before the first verdict while a poll could be hanging.
func runLatency(c latencyCase) (miss string, trace string, infra string) {
	var tr strings.Builder
	addr, err := freeAddr()
	if err != nil {
		return "", "", "no-port"
	}
	var ln net.Listener
	var conns []net.Conn
	var mu sync.Mutex
	if c.peer != 1 {
		ln, err = net.Listen("tcp", addr)
		if err != nil {
			return "", "", "no-port"
		}
		go func() {
			for {
				conn, err := ln.Accept()
				if err != nil {
					return
				}
				if c.peer == 2 {
					_ = conn.Close()
					continue
				}
				mu.Lock()
				conns = append(conns, conn) // held open, never read, never answered
				mu.Unlock()
			}
		}()
	}
	id := archID(0, time.Now().UnixNano())
	iface := throwawayIface()
	t0 := time.Now()
	fd := resources.NewFailureDetector(func(tla.Value) string { return addr },
		resources.WithFailureDetectorPullInterval(c.interval), resources.WithFailureDetectorTimeout(c.timeout))
	answered := false
	for _, off := range c.offsets {
		if d := time.Until(t0.Add(off)); d > 0 {
			time.Sleep(d)
		}
		sub, err := fd.Index(iface, id)
		if err != nil {
			return "", tr.String(), "index-failed"
		}
		at := time.Since(t0)
		t := time.Now()
		v, err := sub.ReadValue(iface)
		dur := time.Since(t)
		what := ""
		switch {
		case err == nil:
			what = v.String()
			answered = true
			if ch := fd.PreCommit(iface); ch != nil {
				<-ch
			}
			if ch := fd.Commit(iface); ch != nil {
				<-ch
			}
		case errors.Is(err, distsys.ErrCriticalSectionAborted):
			what = "abort"
			if ch := fd.Abort(iface); ch != nil {
				<-ch
			}
			if answered && miss == "" {
				miss = fmt.Sprintf("a read at +%v aborted although the detector had already answered", at.Round(time.Millisecond))
			}
		default:
			what = "error: " + err.Error()
			if miss == "" {
				miss = fmt.Sprintf("a read at +%v failed with %v", at.Round(time.Millisecond), err)
			}
		}
		fmt.Fprintf(&tr, "  +%v read -> %s after %v\n", at.Round(time.Millisecond), what, dur.Round(time.Millisecond))
		if dur > c.interval+latencySlack && miss == "" {
			miss = fmt.Sprintf("a read issued %v after the detector was created took %v; the pull interval is %v (time-out %v)",
				at.Round(time.Millisecond), dur.Round(time.Millisecond), c.interval, c.timeout)
		}
	}
	done := make(chan struct{})
	go func() { _ = fd.Close(); close(done) }()
	select {
	case <-done:
	case <-time.After(c.timeout + c.interval + 20*time.Second):
		if miss == "" {
			miss = "Close of the detector did not return within time-out + interval + 20 s"
		}
	}
	if ln != nil {
		_ = ln.Close()
	}
	mu.Lock()
	for _, conn := range conns {
		_ = conn.Close()
	}
	mu.Unlock()
	return miss, tr.String(), ""
}

func TestC19ReadLatency(t *testing.T) {
	rapid.Check(t, func(t *rapid.T) {
		if vstat.OverBudget() {
			return
		}
		vstat.Case()
		c := latencyCase{
			interval: time.Duration(rapid.IntRange(5, 30).Draw(t, "intervalMs")) * time.Millisecond,
			timeout:  time.Duration(rapid.IntRange(2000, 3000).Draw(t, "timeoutMs")) * time.Millisecond,
			peer:     rapid.SampledFrom([]int{0, 0, 0, 1, 2}).Draw(t, "peer"),
		}
		n := rapid.IntRange(1, 5).Draw(t, "reads")
		off := time.Duration(0)
		for i := 0; i < n; i++ {
			// offsets in units of a quarter interval: before the first tick, during the first poll, later
			off += time.Duration(rapid.IntRange(0, 12).Draw(t, "gap")) * c.interval / 4
			c.offsets = append(c.offsets, off)
		}
		vstat.Class(fmt.Sprintf("latency.peer.%d", c.peer))
		miss, trace, infra := runLatency(c)
		if infra != "" {
			vstat.Class("infra." + infra)
			return
		}
		if miss != "" {
			// a miss is executed again, alone, before it is believed
			vstat.Class("latency.miss.first-run")
			time.Sleep(500 * time.Millisecond)
			miss2, trace2, infra := runLatency(c)
			if infra != "" {
				vstat.Class("infra." + infra)
				return
			}
			if miss2 == "" {
				vstat.Class("latency.miss.not-reproduced")
				return
			}
			t.Fatalf("C19 violated: read-latency\n  %s\ncase: %s\nfirst run:\n%ssecond run (%s):\n%s", miss, c, trace, miss2, trace2)
		}
		if c.peer == 0 && c.offsets[0] < 2*c.interval {
			key := c.String()
			vstat.NonTrivial("latency|"+key, func() string { return "read latency: " + key + "\n" + trace })
		}
	})
}
