package c19

import (
	"fmt"
	"net"
	"sync"
	"time"
)

// A harness-owned TCP proxy that stands between a failure detector and the
// monitor. Its mode is a state the harness sets, so "monitor unreachable" and
// "RPC time-out" are not things the check has to wait for.
//
//	pass       forward both ways
//	sever      close every open connection (RST) and, depending on the flavour,
//	           either stop listening (connect is refused) or keep accepting and
//	           reset each new connection at once
//	blackhole  accept, hold every byte in both directions; nothing is answered.
//	           Held bytes are delivered when the path heals, as TCP would after a
//	           partition.
//	heal       = back to pass
//
// A mode change is atomic with respect to forwarding: once setMode returns no
// byte crosses the proxy against the new mode.
type pmode int

const (
	mPass pmode = iota
	mSever
	mBlackhole
)

func (m pmode) String() string {
	switch m {
	case mPass:
		return "pass"
	case mSever:
		return "sever"
	case mBlackhole:
		return "blackhole"
	}
	return "?"
}

type pconn struct {
	c, u net.Conn
	dead bool
}

type proxy struct {
	addr string

	mu       sync.Mutex
	cond     *sync.Cond
	mode     pmode
	ln       net.Listener // nil while connections are refused
	upstream string
	conns    map[*pconn]bool
	closed   bool
	wg       sync.WaitGroup

	// counters, read after close
	accepted, upDialFail int

	// ring of recent happenings, to describe a failing case
	t0   time.Time
	ring [48]string
	rn   int
}

// note: p.mu held.
func (p *proxy) note(format string, a ...any) {
	p.ring[p.rn%len(p.ring)] = fmt.Sprintf("+%.1fms ", float64(time.Since(p.t0).Microseconds())/1000) + fmt.Sprintf(format, a...)
	p.rn++
}

func (p *proxy) recent() string {
	p.mu.Lock()
	defer p.mu.Unlock()
	var b []byte
	start := 0
	if p.rn > len(p.ring) {
		start = p.rn - len(p.ring)
	}
	for i := start; i < p.rn; i++ {
		b = append(b, "      "...)
		b = append(b, p.ring[i%len(p.ring)]...)
		b = append(b, '\n')
	}
	return string(b)
}

func newProxy() (*proxy, error) {
	ln, err := net.Listen("tcp", "127.0.0.1:0")
	if err != nil {
		return nil, err
	}
	p := &proxy{addr: ln.Addr().String(), ln: ln, conns: map[*pconn]bool{}, t0: time.Now()}
	p.cond = sync.NewCond(&p.mu)
	p.wg.Add(1)
	go p.acceptLoop(ln)
	return p, nil
}

func rst(c net.Conn) {
	if tc, ok := c.(*net.TCPConn); ok {
		_ = tc.SetLinger(0)
	}
	_ = c.Close()
}

func (p *proxy) setUpstream(addr string) {
	p.mu.Lock()
	p.upstream = addr
	p.mu.Unlock()
}

func (p *proxy) acceptLoop(ln net.Listener) {
	defer p.wg.Done()
	for {
		c, err := ln.Accept()
		if err != nil {
			return
		}
		p.mu.Lock()
		if p.closed || p.mode == mSever {
			p.note("accept+reset")
			p.mu.Unlock()
			rst(c)
			continue
		}
		pc := &pconn{c: c}
		p.conns[pc] = true
		p.accepted++
		p.note("accept %p (mode %v)", pc, p.mode)
		p.wg.Add(1)
		p.mu.Unlock()
		go p.serve(pc)
	}
}

// killLocked: p.mu held.
func (p *proxy) killLocked(pc *pconn) {
	if pc.dead {
		return
	}
	pc.dead = true
	p.note("kill %p", pc)
	rst(pc.c)
	if pc.u != nil {
		_ = pc.u.Close()
	}
	delete(p.conns, pc)
	p.cond.Broadcast()
}

func (p *proxy) kill(pc *pconn) {
	p.mu.Lock()
	p.killLocked(pc)
	p.mu.Unlock()
}

// gateLocked blocks while blackholed; false = the connection is gone. p.mu held.
func (p *proxy) gateLocked(pc *pconn) bool {
	for p.mode == mBlackhole && !pc.dead {
		p.cond.Wait()
	}
	return !pc.dead
}

func (p *proxy) serve(pc *pconn) {
	defer p.wg.Done()
	p.mu.Lock()
	if !p.gateLocked(pc) {
		p.mu.Unlock()
		return
	}
	up := p.upstream
	p.mu.Unlock()

	var u net.Conn
	err := fmt.Errorf("no upstream")
	if up != "" {
		u, err = net.DialTimeout("tcp", up, time.Second)
	}
	p.mu.Lock()
	if err != nil || pc.dead {
		if err != nil {
			p.upDialFail++
			p.note("upstream dial for %p failed: %v", pc, err)
		}
		if u != nil {
			_ = u.Close()
		}
		p.killLocked(pc)
		p.mu.Unlock()
		return
	}
	pc.u = u
	p.note("upstream connected for %p", pc)
	p.wg.Add(1)
	p.mu.Unlock()
	go func() {
		defer p.wg.Done()
		p.pump(pc, pc.c, pc.u, "request")
	}()
	p.pump(pc, pc.u, pc.c, "reply")
}

func (p *proxy) pump(pc *pconn, src, dst net.Conn, what string) {
	buf := make([]byte, 4096)
	for {
		n, err := src.Read(buf)
		if n > 0 {
			p.mu.Lock()
			if !p.gateLocked(pc) {
				p.mu.Unlock()
				return
			}
			_ = dst.SetWriteDeadline(time.Now().Add(time.Second))
			_, werr := dst.Write(buf[:n])
			p.note("%s %dB forwarded on %p", what, n, pc)
			if werr != nil {
				p.killLocked(pc)
				p.mu.Unlock()
				return
			}
			p.mu.Unlock()
		}
		if err != nil {
			p.kill(pc)
			return
		}
	}
}

// hasUpstreamConn reports whether some client connection is currently wired to
// the upstream (used only to describe a failing case).
func (p *proxy) hasUpstreamConn() bool {
	p.mu.Lock()
	defer p.mu.Unlock()
	for pc := range p.conns {
		if pc.u != nil && !pc.dead {
			return true
		}
	}
	return false
}

// setMode switches the mode. refuse only matters for mSever: stop listening so
// that connects are refused. A non-nil error means the listening port could
// not be re-acquired (infrastructure, not a property failure).
func (p *proxy) setMode(m pmode, refuse bool) error {
	if m != mSever {
		p.mu.Lock()
		need := p.ln == nil && !p.closed
		p.mu.Unlock()
		if need {
			var ln net.Listener
			var err error
			for i := 0; i < 100; i++ {
				ln, err = net.Listen("tcp", p.addr)
				if err == nil {
					break
				}
				time.Sleep(5 * time.Millisecond)
			}
			if err != nil {
				return err
			}
			p.mu.Lock()
			p.ln = ln
			p.wg.Add(1)
			p.mu.Unlock()
			go p.acceptLoop(ln) // still severed: new connections are reset until the switch below
		}
	}
	p.mu.Lock()
	p.mode = m
	p.note("mode=%v refuse=%v", m, refuse)
	if m == mSever {
		for pc := range p.conns {
			p.killLocked(pc)
		}
		if refuse && p.ln != nil {
			_ = p.ln.Close()
			p.ln = nil
		}
	}
	p.cond.Broadcast()
	p.mu.Unlock()
	return nil
}

func (p *proxy) close() {
	p.mu.Lock()
	p.closed = true
	p.mode = mSever
	for pc := range p.conns {
		p.killLocked(pc)
	}
	if p.ln != nil {
		_ = p.ln.Close()
		p.ln = nil
	}
	p.cond.Broadcast()
	p.mu.Unlock()
	p.wg.Wait()
}
