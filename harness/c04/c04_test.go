// C04 — procedure calls follow PlusCal stack semantics (recursion, tail calls, ref parameters).
package c04

import (
	"errors"
	"fmt"
	"sort"
	"strings"
	"testing"
	"time"

	"github.com/DistCompiler/pgo/distsys"
	"github.com/DistCompiler/pgo/distsys/tla"
	"github.com/DistCompiler/pgo/distsys/trace"
	"pgregory.net/rapid"

	"verif/harness/hx"
	"verif/harness/vstat"
)

func TestMain(m *testing.M) { vstat.Main(m, "C04") }

// ---- program shape ------------------------------------------------------------------------

type varRef struct {
	name  string // fully qualified slot name ("P0.x", "A.g1")
	deref bool   // the slot holds a reference: access goes through it
}

type assign struct {
	dst varRef
	src *varRef // nil: constant
	tok string
}

type termKind int

const (
	tGoto   termKind = iota // goto next label of the same body
	tReturn                 // return (procedures) / Done (archetype)
	tCall                   // call callee(args); goto next
	tTail                   // call callee(args); return
)

type argExpr struct {
	ref  bool
	name string // ref: the slot (or pointer-holding slot, see fwd) whose name is passed; value: slot read
	fwd  bool   // ref: pass on the caller's own ref parameter (its pointer value)
	src  *varRef
	tok  string
}

type label struct {
	name    string
	assigns []assign
	term    termKind
	callee  int
	args    []argExpr
	next    string // label to continue at (goto / return label of a call)
}

type param struct {
	name string
	ref  bool
}

type procedure struct {
	name   string
	params []param
	locals []string
	inits  []string // "" = no initialiser (defaultInitValue)
	labels []label
}

func (p *procedure) stateVars() []string {
	var out []string
	for _, x := range p.params {
		out = append(out, p.name+"."+x.name)
	}
	for _, l := range p.locals {
		out = append(out, p.name+"."+l)
	}
	return out
}

type program struct {
	procs   []procedure
	main    []label  // archetype body
	globals []string // archetype locals A.g0..
	fuel    int
	abortAt map[int]bool // global attempt ordinals that are aborted after the body ran
}

const arch = "A"

func (pr *program) String() string {
	var b strings.Builder
	fmt.Fprintf(&b, "archetype %s: locals %v, fuel=%d, aborted attempts %v\n", arch, pr.globals, pr.fuel, keysOf(pr.abortAt))
	dump := func(ls []label) {
		for _, l := range ls {
			fmt.Fprintf(&b, "  %s:", l.name)
			for _, a := range l.assigns {
				d := a.dst.name
				if a.dst.deref {
					d = "*" + d
				}
				if a.src == nil {
					fmt.Fprintf(&b, " %s := %q;", d, a.tok)
				} else if a.src.deref {
					fmt.Fprintf(&b, " %s := *%s;", d, a.src.name)
				} else {
					fmt.Fprintf(&b, " %s := %s;", d, a.src.name)
				}
			}
			switch l.term {
			case tGoto:
				fmt.Fprintf(&b, " goto %s\n", l.next)
			case tReturn:
				fmt.Fprintf(&b, " return\n")
			default:
				var as []string
				for _, a := range l.args {
					switch {
					case a.ref && a.fwd:
						as = append(as, "ref (own ref "+a.name+")")
					case a.ref:
						as = append(as, "ref "+a.name)
					case a.src != nil && a.src.deref:
						as = append(as, "*"+a.src.name)
					case a.src != nil:
						as = append(as, a.src.name)
					default:
						as = append(as, fmt.Sprintf("%q", a.tok))
					}
				}
				k := "goto " + l.next
				if l.term == tTail {
					k = "return   (tail call)"
				}
				fmt.Fprintf(&b, " if fuel > 0 { fuel--; call %s(%s); %s } else fallback\n", pr.procs[l.callee].name, strings.Join(as, ", "), k)
			}
		}
	}
	b.WriteString(" body:\n")
	dump(pr.main)
	for _, p := range pr.procs {
		fmt.Fprintf(&b, " procedure %s(%v) locals %v inits %q:\n", p.name, p.params, p.locals, p.inits)
		dump(p.labels)
	}
	return b.String()
}

func keysOf(m map[int]bool) []int {
	var ks []int
	for k := range m {
		ks = append(ks, k)
	}
	sort.Ints(ks)
	return ks
}

// ---- generator ----------------------------------------------------------------------------------

func genProgram(t *rapid.T) *program {
	pr := &program{abortAt: map[int]bool{}}
	nProc := rapid.IntRange(1, 4).Draw(t, "procs")
	nGlob := rapid.IntRange(1, 3).Draw(t, "globals")
	for i := 0; i < nGlob; i++ {
		pr.globals = append(pr.globals, fmt.Sprintf("%s.g%d", arch, i))
	}
	pr.fuel = rapid.IntRange(1, 6).Draw(t, "fuel")
	for i := 0; i < nProc; i++ {
		p := procedure{name: fmt.Sprintf("P%d", i)}
		for j, n := 0, rapid.IntRange(0, 3).Draw(t, "params"); j < n; j++ {
			p.params = append(p.params, param{name: fmt.Sprintf("a%d", j), ref: rapid.IntRange(0, 2).Draw(t, "isref") == 0})
		}
		for j, n := 0, rapid.IntRange(0, 2).Draw(t, "locals"); j < n; j++ {
			p.locals = append(p.locals, fmt.Sprintf("v%d", j))
			init := ""
			if rapid.Bool().Draw(t, "hasinit") {
				init = fmt.Sprintf("init-%s-v%d", p.name, j)
			}
			p.inits = append(p.inits, init)
		}
		pr.procs = append(pr.procs, p)
	}
	tok := 0
	// reachability (who can a procedure end up calling) is needed to decide when a
	// reference to a procedure's own local may be passed; generate calls first
	type callSite struct{ callee int }
	calls := make([][]int, nProc)
	genLabels := func(owner int, prefix string, n int) []label {
		ls := make([]label, n)
		for i := range ls {
			ls[i].name = fmt.Sprintf("%s.l%d", prefix, i)
		}
		for i := range ls {
			l := &ls[i]
			last := i == n-1
			k := rapid.IntRange(0, 9).Draw(t, "term")
			switch {
			case k < 5:
				l.term = tCall
				if owner >= 0 && rapid.IntRange(0, 2).Draw(t, "tail") == 0 {
					l.term = tTail
				}
				l.callee = rapid.IntRange(0, nProc-1).Draw(t, "callee")
				if owner >= 0 {
					calls[owner] = append(calls[owner], l.callee)
				}
			case last || k >= 8:
				l.term = tReturn
			default:
				l.term = tGoto
			}
			if last {
				l.next = prefix + ".end" // falls to return / Done
			} else {
				l.next = ls[i+1].name
			}
		}
		return ls
	}
	pr.main = genLabels(-1, arch, rapid.IntRange(1, 3).Draw(t, "mainlabels"))
	for i := range pr.procs {
		pr.procs[i].labels = genLabels(i, pr.procs[i].name, rapid.IntRange(1, 3).Draw(t, "labels"))
	}
	reach := make([]map[int]bool, nProc)
	for i := range reach {
		reach[i] = map[int]bool{}
		var dfs func(x int)
		dfs = func(x int) {
			for _, c := range calls[x] {
				if !reach[i][c] {
					reach[i][c] = true
					dfs(c)
				}
			}
		}
		dfs(i)
	}
	// slots visible in a body
	visible := func(owner int) (vals []varRef, refs []string) {
		for _, g := range pr.globals {
			vals = append(vals, varRef{name: g})
		}
		if owner >= 0 {
			p := pr.procs[owner]
			for _, x := range p.params {
				if x.ref {
					vals = append(vals, varRef{name: p.name + "." + x.name, deref: true})
					refs = append(refs, p.name+"."+x.name)
				} else {
					vals = append(vals, varRef{name: p.name + "." + x.name})
				}
			}
			for _, l := range p.locals {
				vals = append(vals, varRef{name: p.name + "." + l})
			}
		}
		return
	}
	fill := func(owner int, ls []label) {
		vals, ownRefs := visible(owner)
		for i := range ls {
			l := &ls[i]
			for j, n := 0, rapid.IntRange(0, 3).Draw(t, "assigns"); j < n; j++ {
				a := assign{dst: vals[rapid.IntRange(0, len(vals)-1).Draw(t, "dst")]}
				if rapid.Bool().Draw(t, "copy") {
					s := vals[rapid.IntRange(0, len(vals)-1).Draw(t, "src")]
					a.src = &s
				} else {
					tok++
					a.tok = fmt.Sprintf("t%d", tok)
				}
				l.assigns = append(l.assigns, a)
			}
			if l.term != tCall && l.term != tTail {
				continue
			}
			callee := pr.procs[l.callee]
			for _, x := range callee.params {
				var ae argExpr
				if x.ref {
					ae.ref = true
					// candidates: archetype locals; own ref parameters (passed on); own value slots when the
					// callee can never re-enter this procedure (its slot would be re-bound by the new activation)
					var cands []argExpr
					for _, g := range pr.globals {
						cands = append(cands, argExpr{ref: true, name: g})
					}
					for _, r := range ownRefs {
						cands = append(cands, argExpr{ref: true, fwd: true, name: r})
					}
					if owner >= 0 && l.callee != owner && !reach[l.callee][owner] {
						p := pr.procs[owner]
						for _, lv := range p.locals {
							cands = append(cands, argExpr{ref: true, name: p.name + "." + lv})
						}
						for _, pv := range p.params {
							if !pv.ref {
								cands = append(cands, argExpr{ref: true, name: p.name + "." + pv.name})
							}
						}
					}
					ae = cands[rapid.IntRange(0, len(cands)-1).Draw(t, "refarg")]
				} else if rapid.Bool().Draw(t, "argcopy") {
					s := vals[rapid.IntRange(0, len(vals)-1).Draw(t, "argsrc")]
					ae.src = &s
				} else {
					tok++
					ae.tok = fmt.Sprintf("t%d", tok)
				}
				l.args = append(l.args, ae)
			}
		}
	}
	fill(-1, pr.main)
	for i := range pr.procs {
		fill(i, pr.procs[i].labels)
	}
	for i, n := 0, rapid.IntRange(0, 4).Draw(t, "aborts"); i < n; i++ {
		pr.abortAt[rapid.IntRange(0, 40).Draw(t, "abortAt")] = true
	}
	return pr
}

// ---- reference model: the PlusCal stack machine ------------------------------------------------

const defaultInit = "defaultInitValue"

type frame map[string]string // slot -> saved value, plus ".pc"

type machine struct {
	pr    *program
	vars  map[string]string
	stack []frame
	pc    string
}

func (m *machine) get(v varRef) string {
	if v.deref {
		return m.vars[m.vars[v.name]]
	}
	return m.vars[v.name]
}

func (m *machine) set(v varRef, x string) {
	if v.deref {
		m.vars[m.vars[v.name]] = x
	} else {
		m.vars[v.name] = x
	}
}

func (m *machine) call(callee int, ret string, args []string) {
	p := &m.pr.procs[callee]
	f := frame{".pc": ret}
	for _, sv := range p.stateVars() {
		f[sv] = m.vars[sv]
	}
	for i, a := range args {
		m.vars[p.name+"."+p.params[i].name] = a
	}
	for i, l := range p.locals {
		if p.inits[i] == "" {
			m.vars[p.name+"."+l] = defaultInit
		} else {
			m.vars[p.name+"."+l] = p.inits[i]
		}
	}
	m.stack = append([]frame{f}, m.stack...)
	m.pc = p.labels[0].name
}

func (m *machine) ret() {
	f := m.stack[0]
	m.stack = m.stack[1:]
	for k, v := range f {
		if k == ".pc" {
			m.pc = v
		} else {
			m.vars[k] = v
		}
	}
}

func (m *machine) renderStack() string {
	var fs []string
	for _, f := range m.stack {
		var ks []string
		for k := range f {
			ks = append(ks, k)
		}
		sort.Strings(ks)
		var ps []string
		for _, k := range ks {
			ps = append(ps, k+"="+f[k])
		}
		fs = append(fs, "["+strings.Join(ps, " ")+"]")
	}
	return strings.Join(fs, " ")
}

// ---- execution on the real runtime ---------------------------------------------------------------

type world struct {
	pr       *program
	m        *machine
	labels   map[string]*label
	owner    map[string]int // label -> procedure index, -1 archetype
	attempt  int
	failure  string
	hist     strings.Builder
	maxDepth int
	recursed bool
	tailed   bool
	readAfterReturn bool
	returned bool
	iface    distsys.ArchetypeInterface
	aborting bool
	steps    int
}

var errStop = errors.New("harness: stop")

func show(v tla.Value) string {
	if v.IsString() {
		return v.AsString()
	}
	return v.String()
}

func (w *world) read(iface distsys.ArchetypeInterface, v varRef) (tla.Value, error) {
	if v.deref {
		h, err := iface.RequireArchetypeResourceRef(v.name)
		if err != nil {
			return tla.Value{}, err
		}
		return iface.Read(h, nil)
	}
	return iface.Read(iface.RequireArchetypeResource(v.name), nil)
}

func (w *world) write(iface distsys.ArchetypeInterface, v varRef, x tla.Value) error {
	if v.deref {
		h, err := iface.RequireArchetypeResourceRef(v.name)
		if err != nil {
			return err
		}
		return iface.Write(h, nil, x)
	}
	return iface.Write(iface.RequireArchetypeResource(v.name), nil, x)
}

const fuelVar = arch + ".fuel"

func (w *world) body(l *label) func(distsys.ArchetypeInterface) error {
	return func(iface distsys.ArchetypeInterface) (err error) {
		if w.failure != "" {
			return errStop
		}
		w.iface = iface
		w.steps++
		if w.steps > 3000 {
			w.failure = "INCONCLUSIVE: program did not terminate within 3000 attempts"
			return errStop
		}
		ord := w.attempt
		w.attempt++
		w.aborting = w.pr.abortAt[ord]
		// speculative copy of the model for this attempt
		spec := &machine{pr: w.pr, vars: map[string]string{}, pc: w.m.pc}
		for k, v := range w.m.vars {
			spec.vars[k] = v
		}
		spec.stack = append([]frame(nil), w.m.stack...)
		owner := w.owner[l.name]
		for _, a := range l.assigns {
			var x tla.Value
			var xs string
			if a.src == nil {
				x, xs = tla.MakeString(a.tok), a.tok
			} else {
				x, err = w.read(iface, *a.src)
				if err != nil {
					return err
				}
				xs = spec.get(*a.src)
				if w.returned {
					w.readAfterReturn = true
				}
				if got := show(x); got != xs {
					w.failure = fmt.Sprintf("at %s: reading %v gave %s, PlusCal semantics give %s", l.name, *a.src, got, xs)
					return errStop
				}
			}
			if err = w.write(iface, a.dst, x); err != nil {
				return err
			}
			spec.set(a.dst, xs)
		}
		fallback := func() error {
			// what happens when the fuel is exhausted (or the label has no call)
			if l.term == tReturn || l.term == tTail || (l.term != tGoto && strings.HasSuffix(l.next, ".end")) || strings.HasSuffix(l.next, ".end") {
				if owner < 0 {
					spec.pc = arch + ".Done"
					return iface.Goto(arch + ".Done")
				}
				spec.ret()
				return iface.Return()
			}
			spec.pc = l.next
			return iface.Goto(l.next)
		}
		switch l.term {
		case tGoto, tReturn:
			err = fallback()
		default:
			var fuel tla.Value
			fuel, err = iface.Read(iface.RequireArchetypeResource(fuelVar), nil)
			if err != nil {
				return err
			}
			if fuel.AsNumber() <= 0 {
				err = fallback()
				break
			}
			if err = iface.Write(iface.RequireArchetypeResource(fuelVar), nil, tla.MakeNumber(fuel.AsNumber()-1)); err != nil {
				return err
			}
			spec.vars[fuelVar] = fmt.Sprint(fuel.AsNumber() - 1)
			callee := &w.pr.procs[l.callee]
			args := make([]tla.Value, len(l.args))
			margs := make([]string, len(l.args))
			for i, a := range l.args {
				switch {
				case a.ref && a.fwd:
					// pass on the pointer held by our own ref parameter
					args[i] = iface.ReadArchetypeResourceLocal(a.name)
					margs[i] = spec.vars[a.name]
				case a.ref:
					args[i] = tla.MakeString(a.name)
					margs[i] = a.name
				case a.src != nil:
					args[i], err = w.read(iface, *a.src)
					if err != nil {
						return err
					}
					margs[i] = spec.get(*a.src)
				default:
					args[i], margs[i] = tla.MakeString(a.tok), a.tok
				}
			}
			ret := l.next
			if strings.HasSuffix(ret, ".end") {
				// a call in last position returns to a label that just returns / ends
				if owner < 0 {
					ret = arch + ".Done"
				} else {
					ret = w.pr.procs[owner].name + ".ret"
				}
			}
			if l.term == tTail {
				tailPC := spec.stack[0][".pc"]
				spec.ret()
				spec.call(l.callee, tailPC, margs)
				w.tailed = true
				err = iface.TailCall(callee.name, args...)
			} else {
				spec.call(l.callee, ret, margs)
				err = iface.Call(callee.name, ret, args...)
			}
			if l.callee == owner {
				w.recursed = true
			}
		}
		if err != nil {
			return err
		}
		if w.aborting {
			fmt.Fprintf(&w.hist, "attempt %d at %s: body completed, then aborted by the harness\n", ord, l.name)
			return distsys.ErrCriticalSectionAborted
		}
		// commit in the model
		if len(spec.stack) < len(w.m.stack) {
			w.returned = true
		}
		w.m = spec
		if len(spec.stack) > w.maxDepth {
			w.maxDepth = len(spec.stack)
		}
		fmt.Fprintf(&w.hist, "attempt %d at %s: -> pc=%s depth=%d\n", ord, l.name, spec.pc, len(spec.stack))
		return nil
	}
}

type rec struct{ w *world }

func (r rec) RecordEvent(ev trace.Event) { r.w.compare(ev.IsAbort) }

func goStack(v tla.Value) string {
	var fs []string
	it := v.AsTuple().Iterator()
	for !it.Done() {
		_, f := it.Next()
		fit := f.AsFunction().Iterator()
		var ps []string
		for !fit.Done() {
			k, x, _ := fit.Next()
			ps = append(ps, k.AsString()+"="+show(x))
		}
		sort.Strings(ps)
		fs = append(fs, "["+strings.Join(ps, " ")+"]")
	}
	return strings.Join(fs, " ")
}

// compare: after every commit or abort the whole PlusCal state must be the model's.
func (w *world) compare(aborted bool) {
	if w.failure != "" {
		return
	}
	when := "commit"
	if aborted {
		when = "abort"
	}
	p := hx.Catch(func() {
		if got := show(w.iface.ReadArchetypeResourceLocal(".pc")); got != w.m.pc {
			w.failure = fmt.Sprintf("after %s: pc is %s, PlusCal semantics give %s", when, got, w.m.pc)
			return
		}
		if got, want := goStack(w.iface.ReadArchetypeResourceLocal(".stack")), w.m.renderStack(); got != want {
			w.failure = fmt.Sprintf("after %s: stack is\n   %s\nPlusCal semantics give\n   %s", when, got, want)
			return
		}
		var names []string
		for k := range w.m.vars {
			names = append(names, k)
		}
		sort.Strings(names)
		for _, k := range names {
			want := w.m.vars[k]
			var got string
			if q := hx.Catch(func() { got = show(w.iface.ReadArchetypeResourceLocal(k)) }); q != nil {
				if want == defaultInit {
					continue // slot not created yet: no call of its procedure has happened
				}
				w.failure = fmt.Sprintf("after %s: cannot read %s: %v", when, k, q.Value)
				return
			}
			if got != want {
				w.failure = fmt.Sprintf("after %s: %s is %s, PlusCal semantics give %s", when, k, got, want)
				return
			}
		}
	})
	if p != nil && w.failure == "" {
		w.failure = fmt.Sprintf("after %s: inspecting the state panicked: %v\n%s", when, p.Value, p.Stack)
	}
}

func run(t *rapid.T, pr *program) *world {
	w := &world{pr: pr, labels: map[string]*label{}, owner: map[string]int{}}
	m := &machine{pr: pr, vars: map[string]string{}, pc: pr.main[0].name}
	for _, g := range pr.globals {
		m.vars[g] = "g-init"
	}
	m.vars[fuelVar] = fmt.Sprint(pr.fuel)
	for _, p := range pr.procs {
		for _, sv := range p.stateVars() {
			m.vars[sv] = defaultInit
		}
	}
	w.m = m
	var sections []distsys.MPCalCriticalSection
	add := func(owner int, ls []label) {
		for i := range ls {
			l := &ls[i]
			w.labels[l.name] = l
			w.owner[l.name] = owner
			sections = append(sections, distsys.MPCalCriticalSection{Name: l.name, Body: w.body(l)})
		}
	}
	add(-1, pr.main)
	var procs []distsys.MPCalProc
	for i := range pr.procs {
		p := &pr.procs[i]
		add(i, p.labels)
		// "<P>.ret": the label a call in last position returns to; it just returns
		retl := &label{name: p.name + ".ret", term: tReturn, next: p.name + ".end"}
		w.labels[retl.name] = retl
		w.owner[retl.name] = i
		sections = append(sections, distsys.MPCalCriticalSection{Name: retl.name, Body: w.body(retl)})
		pp := p
		procs = append(procs, distsys.MPCalProc{
			Name: p.name, Label: p.labels[0].name, StateVars: p.stateVars(),
			PreAmble: func(iface distsys.ArchetypeInterface) error {
				for j, l := range pp.locals {
					v := tla.ModuledefaultInitValue
					if pp.inits[j] != "" {
						v = tla.MakeString(pp.inits[j])
					}
					if err := iface.Write(iface.RequireArchetypeResource(pp.name+"."+l), nil, v); err != nil {
						return err
					}
				}
				return nil
			},
		})
	}
	sections = append(sections, distsys.MPCalCriticalSection{Name: arch + ".Done", Body: func(distsys.ArchetypeInterface) error { return distsys.ErrDone }})
	a := distsys.MPCalArchetype{
		Name: arch, Label: pr.main[0].name,
		JumpTable: distsys.MakeMPCalJumpTable(sections...),
		ProcTable: distsys.MakeMPCalProcTable(procs...),
		PreAmble: func(iface distsys.ArchetypeInterface) {
			for _, g := range pr.globals {
				iface.EnsureArchetypeResourceLocal(g, tla.MakeString("g-init"))
			}
			iface.EnsureArchetypeResourceLocal(fuelVar, tla.MakeNumber(int32(pr.fuel)))
		},
	}
	ctx := distsys.NewMPCalContext(tla.MakeNumber(1), a, distsys.SetTraceRecorder(rec{w}))
	done := make(chan error, 1)
	go func() { done <- hx.SafeRun(ctx) }()
	select {
	case err := <-done:
		if err != nil && !errors.Is(err, errStop) && w.failure == "" {
			w.failure = fmt.Sprintf("Run failed: %v", err)
		}
	case <-time.After(60 * time.Second):
		if w.failure == "" {
			w.failure = "INCONCLUSIVE: run did not finish in 60s"
		}
	}
	return w
}

func TestC04Procedures(t *testing.T) {
	rapid.Check(t, func(t *rapid.T) {
		if vstat.OverBudget() {
			return
		}
		vstat.Case()
		pr := genProgram(t)
		w := run(t, pr)
		if w.failure != "" {
			t.Fatalf("%s\nprogram:\n%shistory:\n%s", w.failure, pr.String(), w.hist.String())
		}
		vstat.ClassN("attempts", int64(w.attempt))
		if w.recursed {
			vstat.Class("programs.with-recursive-call-executed")
		}
		if w.tailed {
			vstat.Class("programs.with-tail-call-executed")
		}
		if w.maxDepth >= 2 && (w.recursed || w.tailed) && w.readAfterReturn {
			s := pr.String()
			vstat.NonTrivial(s, func() string { return s + "history:\n" + w.hist.String() })
		}
	})
}
