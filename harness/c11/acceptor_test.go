package c11

import (
	"fmt"
	"strings"
	"testing"

	"github.com/DistCompiler/pgo/distsys"
	"github.com/DistCompiler/pgo/distsys/resources"
	"github.com/DistCompiler/pgo/distsys/tla"
	"pgregory.net/rapid"

	"verif/harness/vstat"
)

// ---- reference model of one acceptor ----------------------------------------------------
//
// Written from the doc comment of receiveInternal, the comment in Receive about old
// messages, and the property:
//
//	state = (version, value, accepted: none | (sender, version))
//	old message (a newer one from the same sender was already received): answered, not processed
//	version below version+1: rejected, answering the current (version, value)
//	PreCommit(v >= version+1): accepted iff nothing is accepted, or what is accepted is for a
//	    lower version, or is for the same version from the same sender; rejected otherwise
//	Commit(v >= version+1): installs (v, value); what was accepted for a version <= v is dropped
//	Abort: from the accepted sender releases the acceptance; from anyone else no effect
//
// "same sender" is the one place where the model has a parameter: the property says
// equality of values (identity=false). identity=true is the hypothesis under which the
// listed finding is recognised: two values are the same only if they are the same Go
// object, which is what == on tla.Value computes, and which no longer holds once a
// request has been through gob. Both models differ only when a gob round trip separated
// the two requests being matched, so "implementation disagrees with the value model and
// agrees with the identity model" is by construction the listed signature.

type ref struct {
	sender int    // which proposer (the harness knows)
	inst   string // which Go object carried the sender identity on this delivery
}

type acceptorModel struct {
	identity bool
	version  int
	value    tla.Value
	has      bool
	accFrom  ref
	accVer   int
	times    map[string]int64
}

func newAcceptorModel(identity bool, initial tla.Value) *acceptorModel {
	return &acceptorModel{identity: identity, value: initial, times: map[string]int64{}}
}

func (m *acceptorModel) clone() *acceptorModel {
	c := *m
	c.times = map[string]int64{}
	for k, v := range m.times {
		c.times[k] = v
	}
	return &c
}

func (m *acceptorModel) key(r ref) string {
	if m.identity {
		return r.inst
	}
	return fmt.Sprintf("sender%d", r.sender)
}

func (m *acceptorModel) same(a, b ref) bool { return m.key(a) == m.key(b) }

type expect struct {
	accept  bool
	version int       // on reject
	value   tla.Value // on reject
	stale   bool
}

func (m *acceptorModel) step(req resources.TwoPCRequest, from ref) expect {
	k := m.key(from)
	if m.times[k] > req.SenderTime {
		return expect{accept: true, stale: true}
	}
	m.times[k] = req.SenderTime
	reject := expect{accept: false, version: m.version, value: m.value}
	if req.Version < m.version+1 {
		return reject
	}
	switch req.RequestType {
	case resources.PreCommit:
		if !m.has || m.accVer < req.Version || (m.accVer == req.Version && m.same(m.accFrom, from)) {
			m.has, m.accFrom, m.accVer = true, from, req.Version
			return expect{accept: true}
		}
		return reject
	case resources.Commit:
		m.version, m.value = req.Version, req.Value
		if m.has && m.accVer <= m.version {
			m.has = false
		}
		return expect{accept: true}
	case resources.Abort:
		if m.has && m.same(m.accFrom, from) {
			m.has = false
		}
		return expect{accept: true}
	}
	panic("unexpected request type")
}

func (m *acceptorModel) String() string {
	acc := "none"
	if m.has {
		acc = fmt.Sprintf("(sender%d, v%d)", m.accFrom.sender, m.accVer)
	}
	return fmt.Sprintf("version=%d value=%s accepted=%s", m.version, m.value.String(), acc)
}

// ---- one acceptor under test ------------------------------------------------------------

type acceptor struct {
	res *resources.TwoPCArchetypeResource
	rcv *resources.TwoPCReceiver
}

func newAcceptor(initial, id tla.Value) (*acceptor, error) {
	a := &acceptor{}
	r := resources.NewTwoPC(initial, "127.0.0.1:0", nil, id, func(rc *resources.TwoPCReceiver) { a.rcv = rc })
	res, ok := r.(*resources.TwoPCArchetypeResource)
	if !ok || a.rcv == nil {
		return nil, fmt.Errorf("NewTwoPC returned %T, receiver %v", r, a.rcv)
	}
	a.res = res
	if !listening(a.rcv) {
		return nil, fmt.Errorf("NewTwoPC did not start its listener")
	}
	return a, nil
}

func (a *acceptor) close() {
	a.res.Close()
	resources.CloseTwoPCReceiver(a.rcv)
}

// localValue reads the replica's value the way a local critical section would and leaves
// the section again (no messages are involved: Abort only rolls back after a pre-commit).
func (a *acceptor) localValue() (tla.Value, error) {
	v, err := a.res.ReadValue(distsys.ArchetypeInterface{})
	a.res.Abort(distsys.ArchetypeInterface{})
	return v, err
}

// ---- generated proposers ----------------------------------------------------------------

type proposal struct {
	version  int
	value    tla.Value
	req      resources.TwoPCRequest // the PreCommit as sent (for duplicates)
	accepted bool                   // this replica answered accept (and the answer arrived)
}

type proposer struct {
	idx   int
	id    tla.Value // the one Go object a real in-process proposer reuses (res.archetypeID)
	ver   int       // the version this proposer believes current
	clock int64
	prop  *proposal
}

type wire struct {
	req  resources.TwoPCRequest
	from int
	note string
}

func genPayload(t *rapid.T, n int) tla.Value {
	switch rapid.IntRange(0, 2).Draw(t, "valkind") {
	case 0:
		return tla.MakeNumber(int32(100 + n))
	case 1:
		return tla.MakeString(fmt.Sprintf("val%d", n))
	default:
		return tla.MakeTuple(tla.MakeString("v"), tla.MakeNumber(int32(n)))
	}
}

func TestC11Acceptor(t *testing.T) {
	rapid.Check(t, func(t *rapid.T) {
		if vstat.OverBudget() {
			return
		}
		vstat.Case()
		mode := rapid.SampledFrom([]string{"in-process", "rpc", "mixed"}).Draw(t, "transport")
		vstat.Class("acceptor.transport." + mode)
		nS := rapid.IntRange(2, 4).Draw(t, "senders")
		ps := make([]*proposer, nS)
		for i := range ps {
			ps[i] = &proposer{idx: i, id: genIdentity(t, i)}
		}
		initial := genPayload(t, 0)
		a, err := newAcceptor(initial, tla.MakeString("acceptor"))
		if err != nil {
			t.Skip(err.Error())
		}
		defer a.close()

		spec := newAcceptorModel(false, initial)
		ident := newAcceptorModel(true, initial)

		var hist strings.Builder
		fmt.Fprintf(&hist, "transport=%s initial=%s\n", mode, initial.String())
		decided := map[int]int{} // version -> proposer that committed it
		maxDecided := 0
		var pending []wire   // sent, not yet delivered
		var delivered []wire // for late duplicates
		payloads, instN := 0, 0
		setAside := false

		// non-triviality: an accepted pre-commit released by Abort, then a competitor accepted
		releasedVer, releasedFrom := -1, -1
		nonTrivial := false

		deliver := func(w wire) resources.TwoPCResponse {
			req := w.req
			from := ref{sender: w.from, inst: fmt.Sprintf("obj-sender%d", w.from)}
			viaGob := mode == "rpc" || (mode == "mixed" && rapid.Bool().Draw(t, "gob"))
			if viaGob {
				g, err := gobRequest(req)
				if err != nil {
					t.Fatalf("gob round trip of %s failed: %v\n%s", reqString(req), err, hist.String())
				}
				req = g
				instN++
				from.inst = fmt.Sprintf("obj-decoded%d", instN)
				vstat.Class("acceptor.msg.gob")
			}
			vstat.Class("acceptor.msg." + req.RequestType.String())
			specBefore := spec.String()
			hadAcc, accFrom, accVer := spec.has, spec.accFrom.sender, spec.accVer
			want := spec.step(w.req, from)
			alt := ident.step(w.req, from)

			var reply resources.TwoPCResponse
			if err := a.rcv.Receive(req, &reply); err != nil {
				t.Fatalf("Receive(%s) returned %v\n%s", reqString(req), err, hist.String())
			}
			gotVer := resources.GetVersion(a.rcv)
			gotVal, rerr := a.localValue()
			fmt.Fprintf(&hist, "  %-22s %s%s -> %s ; version=%d value=%s\n", w.note, reqString(w.req),
				map[bool]string{true: " [gob]", false: ""}[viaGob], replyString(reply), gotVer, gotVal.String())
			if rerr != nil {
				t.Fatalf("local read outside any section failed: %v\n%s", rerr, hist.String())
			}

			agrees := func(m *acceptorModel, e expect) string {
				if reply.Accept != e.accept {
					return fmt.Sprintf("answer is %s, model says accept=%v", replyString(reply), e.accept)
				}
				if !e.accept && (reply.Version != e.version || !reply.Value.Equal(e.value)) {
					return fmt.Sprintf("rejection carries (v%d, %s), model says (v%d, %s)", reply.Version, reply.Value.String(), e.version, e.value.String())
				}
				if gotVer != m.version {
					return fmt.Sprintf("GetVersion=%d, model says %d", gotVer, m.version)
				}
				if !gotVal.Equal(m.value) {
					return fmt.Sprintf("local value=%s, model says %s", gotVal.String(), m.value.String())
				}
				return ""
			}
			if why := agrees(spec, want); why != "" {
				progress := ""
				if w.req.RequestType == resources.PreCommit && want.accept && releasedVer == w.req.Version && releasedFrom != w.from {
					progress = "PROGRESS: the proposer's Abort had been delivered, a competitor's pre-commit for that version must be accepted; "
				}
				msg := fmt.Sprintf("%sacceptor disagrees with the model at the last line: %s\nmodel before the step: %s\n%s", progress, why, specBefore, hist.String())
				if mode != "in-process" && agrees(ident, alt) == "" {
					// the listed finding: explained exactly by matching senders by object identity
					if vstat.Known(sigIdentity) {
						vstat.Class("acceptor.set_aside." + w.req.RequestType.String())
						setAside = true
						// re-synchronise: the rest of the sequence is checked from the state the
						// implementation is really in; the value model keeps its own notion of
						// which messages are old
						times := spec.times
						spec = ident.clone()
						spec.identity, spec.times = false, times
						delivered = append(delivered, w)
						return reply
					}
					t.Fatalf("[%s] %s", sigIdentity, msg)
				}
				t.Fatalf("%s", msg)
			}
			if want.stale {
				vstat.Class("acceptor.msg.stale")
			} else if !reply.Accept {
				vstat.Class("acceptor.msg.rejected")
			}
			// bookkeeping for the non-triviality rule, in terms of the value model
			if !want.stale {
				switch w.req.RequestType {
				case resources.Abort:
					if hadAcc && accFrom == w.from && !spec.has {
						releasedVer, releasedFrom = accVer, w.from
					}
				case resources.PreCommit:
					if want.accept && releasedVer == w.req.Version && releasedFrom != w.from && spec.version < releasedVer {
						nonTrivial = true
					}
				case resources.Commit:
					releasedVer, releasedFrom = -1, -1
				}
			}
			delivered = append(delivered, w)
			return reply
		}

		send := func(p *proposer, typ resources.TwoPCRequestType, version int, value tla.Value, note string) (resources.TwoPCResponse, bool) {
			p.clock += int64(rapid.IntRange(1, 3).Draw(t, "tick"))
			w := wire{req: resources.TwoPCRequest{RequestType: typ, Value: value, Sender: p.id, Version: version, SenderTime: p.clock}, from: p.idx, note: note}
			switch rapid.IntRange(0, 11).Draw(t, "fate") {
			case 0: // lost
				fmt.Fprintf(&hist, "  %-22s %s lost\n", note, reqString(w.req))
				vstat.Class("acceptor.msg.lost")
				return resources.TwoPCResponse{}, false
			case 1, 2: // delayed
				w.note = note + " (delayed)"
				pending = append(pending, w)
				vstat.Class("acceptor.msg.delayed")
				return resources.TwoPCResponse{}, false
			}
			return deliver(w), true
		}

		learn := func(p *proposer, reply resources.TwoPCResponse) {
			if !reply.Accept && reply.Version > p.ver {
				p.ver = reply.Version
			}
		}

		steps := rapid.IntRange(3, 40).Draw(t, "steps")
		for s := 0; s < steps; s++ {
			p := ps[rapid.IntRange(0, nS-1).Draw(t, "sender")]
			act := rapid.IntRange(0, 11).Draw(t, "action")
			switch {
			case act <= 3 && p.prop == nil: // propose
				payloads++
				v := p.ver + 1
				val := genPayload(t, payloads)
				reply, ok := send(p, resources.PreCommit, v, val, fmt.Sprintf("sender%d proposes", p.idx))
				p.prop = &proposal{version: v, value: val, accepted: ok && reply.Accept}
				p.prop.req = resources.TwoPCRequest{RequestType: resources.PreCommit, Value: val, Sender: p.id, Version: v, SenderTime: p.clock}
				if ok {
					learn(p, reply)
				}
			case act == 0: // outstanding proposal: the network duplicates the pre-commit
				w := wire{req: p.prop.req, from: p.idx, note: fmt.Sprintf("sender%d duplicate", p.idx)}
				reply := deliver(w)
				vstat.Class("acceptor.msg.duplicate")
				if reply.Accept && spec.has && spec.accFrom.sender == p.idx && spec.accVer == p.prop.version {
					p.prop.accepted = true
				}
			case act <= 7 && p.prop != nil: // conclude the proposal
				pr := p.prop
				_, taken := decided[pr.version]
				// the other replicas decide whether there is a majority: usually they agree with this one
				elsewhere := rapid.IntRange(0, 5).Draw(t, "majorityElsewhere") == 0
				if !taken && pr.accepted != elsewhere {
					decided[pr.version] = p.idx
					if pr.version > maxDecided {
						maxDecided = pr.version
					}
					p.prop = nil
					p.ver = pr.version
					reply, ok := send(p, resources.Commit, pr.version, pr.value, fmt.Sprintf("sender%d commits", p.idx))
					if ok {
						learn(p, reply)
					}
				} else {
					p.prop = nil
					// the real proposer stamps its Abort with its version at that moment, which may
					// have grown since the pre-commit (it learns from rejections)
					av := pr.version
					if p.ver+1 > av {
						av = p.ver + 1
					}
					reply, ok := send(p, resources.Abort, av, tla.Value{}, fmt.Sprintf("sender%d aborts", p.idx))
					if ok {
						learn(p, reply)
					}
				}
			case act <= 9 && len(pending) > 0: // a delayed message arrives
				i := rapid.IntRange(0, len(pending)-1).Draw(t, "pending")
				w := pending[i]
				pending = append(pending[:i], pending[i+1:]...)
				reply := deliver(w)
				learn(ps[w.from], reply)
			case act <= 10 && len(delivered) > 0 && rapid.Bool().Draw(t, "lateDup"): // an old message is delivered once more
				w := delivered[rapid.IntRange(0, len(delivered)-1).Draw(t, "old")]
				w.note = fmt.Sprintf("sender%d late duplicate", w.from)
				vstat.Class("acceptor.msg.duplicate")
				deliver(w)
			case p.prop == nil && p.ver < maxDecided: // learns newer versions from other replicas
				p.ver = rapid.IntRange(p.ver+1, maxDecided).Draw(t, "learnt")
				fmt.Fprintf(&hist, "  sender%d learns version %d elsewhere\n", p.idx, p.ver)
			}
		}
		if setAside {
			vstat.Class("acceptor.case.set_aside")
		}
		if nonTrivial {
			vstat.Class("acceptor.case.nontrivial")
			h := hist.String()
			vstat.NonTrivial("acceptor|"+h, func() string { return "TestC11Acceptor\n" + h })
		}
	})
}
