// C11 — the two-phase-commit variable behaves as one copy and does not livelock.
//
// Two checks against /repo/distsys/resources/twopc.go:
//
//	TestC11Acceptor   (acceptor_test.go)   the acceptor state machine, driven deterministically
//	                                       through the public TwoPCReceiver.Receive, against a
//	                                       reference model written from the documented rules;
//	TestC11Replicated (replicated_test.go) 2-5 real resources with concurrent writers over a
//	                                       fault-injecting ReplicaHandle and over both shipped
//	                                       transports; schedule-independent safety oracles and
//	                                       an end-to-end progress oracle.
package c11

import (
	"bytes"
	"encoding/gob"
	"fmt"
	"io"
	"log"
	"os"
	"reflect"
	"testing"

	"github.com/DistCompiler/pgo/distsys/resources"
	"github.com/DistCompiler/pgo/distsys/tla"
	"pgregory.net/rapid"

	"verif/harness/vstat"
)

// sigIdentity is the signature of the one listed finding: tla.Value compared
// with Go == (pointer identity) in receiveInternal and used as the key of the
// senderTimes map, so that after a gob round trip (what net/rpc does to every
// request) the accepted proposer is no longer recognised.
const sigIdentity = "2PC-value-identity-after-gob"

func TestMain(m *testing.M) {
	// the resource reads its log level when it is created; keep it at the quietest level
	os.Setenv("PGO_TWOPC_LOG", "off")
	log.SetOutput(io.Discard)
	vstat.Main(m, "C11")
}

// gobRequest does to a request what net/rpc does to it on the way to
// TwoPCReceiver.Receive: encode with gob, decode into a fresh struct.
func gobRequest(req resources.TwoPCRequest) (resources.TwoPCRequest, error) {
	var buf bytes.Buffer
	if err := gob.NewEncoder(&buf).Encode(&req); err != nil {
		return req, err
	}
	var out resources.TwoPCRequest
	if err := gob.NewDecoder(&buf).Decode(&out); err != nil {
		return req, err
	}
	return out, nil
}

// genIdentity draws the identity of node i: values of several kinds, pairwise different.
func genIdentity(t *rapid.T, i int) tla.Value {
	switch rapid.IntRange(0, 3).Draw(t, "idkind") {
	case 0:
		return tla.MakeNumber(int32(i + 1))
	case 1:
		return tla.MakeString(fmt.Sprintf("node%d", i))
	case 2:
		return tla.MakeTuple(tla.MakeString("n"), tla.MakeNumber(int32(i)))
	default:
		return tla.MakeTuple(tla.MakeNumber(int32(i)), tla.MakeTuple(tla.MakeString("x")))
	}
}

// listening reports whether NewTwoPC managed to bind its listener (it discards the error
// of listenAndServe; CloseTwoPCReceiver dereferences the listener unconditionally).
func listening(rcv *resources.TwoPCReceiver) bool {
	f := reflect.ValueOf(rcv).Elem().FieldByName("listener")
	return f.IsValid() && !f.IsNil()
}

func reqString(r resources.TwoPCRequest) string {
	return fmt.Sprintf("%s(v%d, value=%s, from=%s, t=%d)", r.RequestType, r.Version, r.Value.String(), r.Sender.String(), r.SenderTime)
}

func replyString(r resources.TwoPCResponse) string {
	if r.Accept {
		return "accept"
	}
	return fmt.Sprintf("reject(v%d, value=%s)", r.Version, r.Value.String())
}
