package c11

// TestC11Replicated: 2-5 (thorough tier: 2-7) real TwoPCArchetypeResource nodes in one
// process, 1-3 concurrent writers driving their node's resource the way MPCalContext does.
//
// Transports: the harness ReplicaHandle (cluster_test.go) calls the destination's public
// Receive - directly ("harness-inprocess") or after a gob round trip of the request
// ("harness-rpclike", what net/rpc does) - and on pre-drawn decisions delivers, delays,
// duplicates or loses each message (request or reply); the shipped LocalReplicaHandle and
// RPCReplicaHandle (loopback) are run underneath a pass-through wrapper that only logs.
//
// Every decision is a rapid draw, but the resource's goroutines and back-off sleeps are
// not under the harness's control, so a case is not replayable; every oracle below is
// therefore independent of the schedule and judged from a log of every message, reply
// and section outcome, which is printed on failure:
//
//	safety   GetVersion never decreases (read-and-compare is atomic per node);
//	         every version has one value and one committing proposer (Commit messages,
//	         values carried by rejections, final states);
//	         a PreCommit that succeeded had a majority of acceptances, and at most one
//	         proposer's PreCommit succeeds per version;
//	         a committed section that read a value committed as the direct successor of the
//	         version holding that value; no two committed sections read the same value;
//	         nothing an aborted section wrote is ever a version's value;
//	         #committed sections = highest version; final states are (version, value) pairs
//	         of the history and a majority holds the last version;
//	         per node, the acceptor model of acceptor_test.go over the node's deliveries:
//	         exact for nodes without a writer, refusals only for nodes with one.
//	progress (state check) once no section is open and nothing is in flight, every node
//	         must accept a pre-commit for its next version from an unknown proposer,
//	         asked through Receive; (end to end) K contending increments complete within
//	         60 s / 200 proposal rounds per writer while every replica is reachable.
//	         Wall-clock time only ever triggers the state check (2 s without a commit),
//	         it is never the verdict except for the 60 s budget.
//
// Disagreements are classified before failing: sigIdentity (listed finding) and
// sigNoRetry (found by this check) are set aside when listed as open in known_findings.

import (
	"fmt"
	"os"
	"sort"
	"strings"
	"sync"
	"testing"
	"time"

	"github.com/DistCompiler/pgo/distsys"
	"github.com/DistCompiler/pgo/distsys/resources"
	"github.com/DistCompiler/pgo/distsys/tla"
	"pgregory.net/rapid"

	"verif/harness/vstat"
)

const (
	progressBudget   = 60 * time.Second
	progressAttempts = 200
	stallAfter       = 2 * time.Second // no commit for this long: pause and look (never a verdict by itself)
	safetyBudget     = 3 * time.Second
)

type scenario struct {
	kind      string // "safety" or "progress"
	n         int
	transport string
	profile   int
	drops     int
	plans     []writerPlan
}

func genScenario(t *rapid.T) scenario {
	var sc scenario
	sc.kind = rapid.SampledFrom([]string{"safety", "safety", "progress"}).Draw(t, "scenario")
	// C11_SCENARIO / C11_TRANSPORT pin these two draws (for focused runs while diagnosing;
	// the driver never sets them)
	if v := os.Getenv("C11_SCENARIO"); v != "" {
		sc.kind = v
	}
	maxN := 5
	if os.Getenv("VERIF_TIER") == "thorough" {
		maxN = 7
	}
	sc.n = rapid.IntRange(2, maxN).Draw(t, "nodes")
	maxW := 3
	if sc.n < maxW {
		maxW = sc.n
	}
	var nw int
	if sc.kind == "safety" {
		sc.transport = rapid.SampledFrom([]string{tHarness, tHarnessGob}).Draw(t, "transport")
		sc.profile = rapid.IntRange(0, 2).Draw(t, "faults")
		if sc.profile == 2 {
			sc.drops = rapid.IntRange(0, 2).Draw(t, "commitAbortLosses")
		}
		nw = rapid.IntRange(1, maxW).Draw(t, "writers")
	} else {
		sc.transport = rapid.SampledFrom([]string{tHarness, tHarnessGob, tShippedLocal, tShippedRPC}).Draw(t, "transport")
		if sc.transport == tHarness || sc.transport == tHarnessGob {
			sc.profile = rapid.IntRange(0, 1).Draw(t, "faults")
		}
		nw = rapid.IntRange(2, maxW).Draw(t, "writers")
	}
	if v := os.Getenv("C11_TRANSPORT"); v != "" {
		sc.transport = v
		if v == tShippedLocal || v == tShippedRPC {
			sc.profile, sc.drops = 0, 0
		}
	}
	nodes := rapid.Permutation(seq(sc.n)).Draw(t, "writerNodes")[:nw]
	left := 6
	for i, node := range nodes {
		maxS := left - (nw - 1 - i)
		if maxS > 3 {
			maxS = 3
		}
		k := rapid.IntRange(1, maxS).Draw(t, "sections")
		left -= k
		p := writerPlan{node: node, sections: k, blind: make([]bool, k)}
		for s := range p.blind {
			p.blind[s] = sc.kind == "safety" && rapid.IntRange(0, 5).Draw(t, "blind") == 0
		}
		sc.plans = append(sc.plans, p)
	}
	return sc
}

func seq(n int) []int {
	out := make([]int, n)
	for i := range out {
		out[i] = i
	}
	return out
}

func TestC11Replicated(t *testing.T) {
	rapid.Check(t, func(t *rapid.T) {
		if vstat.OverBudget() {
			return
		}
		vstat.Case()
		sc := genScenario(t)
		ids := make([]tla.Value, sc.n)
		for i := range ids {
			ids[i] = genIdentity(t, i)
		}
		var tape []int
		if sc.profile > 0 {
			tape = rapid.SliceOfN(rapid.IntRange(0, 99), 97, 97).Draw(t, "deliveryDecisions")
		}
		runScenario(t, sc, ids, tape)
	})
}

type fataler interface {
	Fatalf(format string, args ...any)
	Skip(args ...any)
}

func runScenario(t fataler, sc scenario, ids []tla.Value, tape []int) {
	vstat.Class("replicated.scenario." + sc.kind)
	if os.Getenv("C11_TIMING") != "" {
		t0 := time.Now()
		defer func() {
			fmt.Fprintf(os.Stderr, "case %s %s n=%d profile=%d drops=%d writers=%s: %v\n", sc.kind, sc.transport, sc.n, sc.profile, sc.drops, planString(sc), time.Since(t0).Round(time.Millisecond))
		}()
	}
	vstat.Class("replicated.transport." + sc.transport)
	initial := tla.MakeTuple(tla.MakeString("init"), tla.MakeString("-"))
	if sc.kind == "progress" {
		initial = tla.MakeNumber(0)
	}
	var wnodes []int
	for _, p := range sc.plans {
		wnodes = append(wnodes, p.node)
	}
	c, err := newCluster(sc.n, sc.transport, ids, initial, wnodes)
	if err != nil {
		t.Skip(err.Error())
	}
	c.tape, c.profile, c.dropBudget = tape, sc.profile, sc.drops

	cfg := writerCfg{increments: sc.kind == "progress"}
	total := 0
	for _, p := range sc.plans {
		total += p.sections
	}
	if sc.kind == "progress" {
		cfg.maxAttempts, cfg.deadline, cfg.maxBackoff = progressAttempts, time.Now().Add(progressBudget), 5*time.Second
	} else {
		cfg.maxAttempts, cfg.deadline, cfg.maxBackoff, cfg.maxIdle = 4+3*total, time.Now().Add(safetyBudget), 200*time.Millisecond, 40
	}
	var wg sync.WaitGroup
	for wi, p := range sc.plans {
		wg.Add(1)
		go c.runWriter(wi, p, cfg, &wg)
	}
	done := make(chan struct{})
	go func() { wg.Wait(); close(done) }()

	// controller: wait for the writers; when nothing commits for a while, pause them between
	// attempts and ask every node the progress question through Receive
	var midRunStuck []int
	lastLook := time.Now()
wait:
	for {
		select {
		case <-done:
			break wait
		case <-time.After(20 * time.Millisecond):
		}
		if sc.kind != "progress" || c.stop.Load() {
			continue
		}
		since := time.Since(time.Unix(0, c.lastCommit.Load()))
		if since > stallAfter && time.Since(lastLook) > stallAfter {
			c.gate.Lock()
			c.event("controller: no commit for %v, writers paused between attempts", since.Round(time.Second))
			refused := c.probeAll(seq(c.n), 3)
			if len(refused) > 0 {
				midRunStuck = refused
				c.stop.Store(true)
			}
			c.gate.Unlock()
			lastLook = time.Now()
			vstat.Class("replicated.progress.paused_to_look")
		}
	}

	// quiescence: a Commit/Abort that got an error is tried again after the code's fixed
	// second; give those retries their chance, then Close() waits for every send the
	// resource still has outstanding
	c.awaitRetries()
	for _, r := range c.res {
		r.Close()
	}
	c.extraWG.Wait()
	c.judge(t, sc, midRunStuck)
	for _, r := range c.rcv {
		resources.CloseTwoPCReceiver(r)
	}
	c.report(t, sc)
}

func (c *cluster) awaitRetries() {
	pending := func() time.Duration {
		c.mu.Lock()
		defer c.mu.Unlock()
		var wait time.Duration
		for _, r := range c.recs {
			if r.err != nil && r.req.RequestType != resources.PreCommit && r.src >= 0 {
				if d := 1300*time.Millisecond - time.Since(r.failedAt); d > wait {
					wait = d
				}
			}
		}
		return wait
	}
	for {
		if wait := pending(); wait > 0 {
			time.Sleep(wait)
			continue
		}
		// a send may fail (or a retry may fail again) while we look
		c.waitQuiet(2 * time.Second)
		if pending() <= 0 {
			return
		}
	}
}

// probeAll probes the given nodes once everything in flight has landed; a node that
// refuses is asked again a few times (a release may still be on its way) before it
// counts as refusing.
func (c *cluster) probeAll(nodes []int, retries int) (refused []int) {
	c.waitQuiet(3 * time.Second)
	for round := 0; round <= retries && len(nodes) > 0; round++ {
		if round > 0 {
			time.Sleep(300 * time.Millisecond)
			c.waitQuiet(time.Second)
		}
		refused = nil
		for _, j := range nodes {
			if ok, _ := c.probe(j); !ok {
				refused = append(refused, j)
			}
		}
		nodes = refused
	}
	return refused
}

// judge applies the schedule-independent oracles to the log of the finished run.
func (c *cluster) judge(t fataler, sc scenario, midRunStuck []int) {
	fail := func(format string, a ...any) {
		c.violate(format, a...)
	}
	valStr := func(v tla.Value) string { return v.String() }

	// --- one value per version; one proposer commits each version ---
	claims := map[int]tla.Value{0: c.initial}
	where := map[int]string{0: "initial value"}
	claim := func(v int, val tla.Value, src string) {
		if old, ok := claims[v]; ok {
			if !old.Equal(val) {
				fail("version %d has two values: %s (%s) and %s (%s)", v, valStr(old), where[v], valStr(val), src)
			}
			return
		}
		claims[v], where[v] = val, src
	}
	committer := map[int]int{}
	c.mu.Lock()
	recs := append([]*rec(nil), c.recs...)
	attempts := append([]*attemptRec(nil), c.attempts...)
	c.mu.Unlock()
	for _, r := range recs {
		if r.src < 0 && r.req.RequestType != resources.PreCommit {
			continue
		}
		if r.req.RequestType == resources.Commit {
			claim(r.req.Version, r.req.Value, fmt.Sprintf("Commit sent by node %d, event #%03d", r.src, r.start))
			if by, ok := committer[r.req.Version]; ok && by != r.src {
				fail("version %d was committed by node %d and by node %d", r.req.Version, by, r.src)
			}
			committer[r.req.Version] = r.src
		}
		if r.delivered && r.err == nil && !r.reply.Accept {
			claim(r.reply.Version, r.reply.Value, fmt.Sprintf("rejection by node %d, event #%03d", r.dst, r.end))
		}
	}

	// --- a successful PreCommit had a majority; at most one proposer wins a version ---
	winners := map[int]int{}
	rejectedProposals, interleaved := 0, false
	type span struct{ node, version, lo, hi int }
	var spans []span
	for _, a := range attempts {
		if a.pcStart == 0 || a.pcEnd == 0 {
			continue
		}
		node := sc.plans[a.writer].node
		accepts := map[int]bool{}
		version, lo, hi, sawReject := -1, 0, 0, false
		for _, r := range recs {
			if !ownProposal(r, node, a) {
				continue
			}
			version = r.req.Version
			if lo == 0 || r.start < lo {
				lo = r.start
			}
			if r.end > hi {
				hi = r.end
			}
			if r.replyReturned && r.reply.Accept && r.end != 0 && r.end < a.pcEnd {
				accepts[r.dst] = true
			}
			if r.delivered && r.err == nil && !r.reply.Accept {
				sawReject = true
			}
		}
		if version < 0 {
			continue // refused locally, nothing was sent
		}
		spans = append(spans, span{node, version, lo, hi})
		if sawReject {
			rejectedProposals++
			vstat.Class("replicated.proposal.rejected")
		}
		if a.pcErr == nil {
			if len(accepts)+1 < majority(c.n) {
				fail("w%d on node %d: PreCommit for version %d succeeded with %d acceptances of %d nodes (events #%03d-#%03d)", a.writer, node, version, len(accepts)+1, c.n, a.pcStart, a.pcEnd)
			}
			if by, ok := winners[version]; ok && by != node {
				fail("version %d: the pre-commits of node %d and of node %d both succeeded", version, by, node)
			}
			winners[version] = node
		}
	}
	for i, x := range spans {
		for _, y := range spans[i+1:] {
			if x.node != y.node && x.version == y.version && x.lo < y.hi && y.lo < x.hi {
				interleaved = true
			}
		}
	}

	// --- sections: no commit over an overwritten read, nothing aborted is installed ---
	committedN, maxVer := 0, 0
	readBy := map[string]*attemptRec{}
	for _, a := range attempts {
		switch a.outcome {
		case "committed":
			committedN++
			if !a.blind {
				k := valStr(a.read)
				if o, dup := readBy[k]; dup {
					fail("two committed sections read the same value %s: w%d section %d and w%d section %d", k, o.writer, o.section, a.writer, a.section)
				}
				readBy[k] = a
			}
			versions := map[int]bool{}
			for _, r := range recs {
				if r.req.RequestType == resources.Commit && r.src == sc.plans[a.writer].node && r.req.Value.Equal(a.wrote) {
					versions[r.req.Version] = true
				}
			}
			if len(versions) == 0 {
				vstat.Class("replicated.section.commit_unobserved")
				continue
			}
			if len(versions) > 1 {
				fail("w%d section %d: value %s was committed under several versions %v", a.writer, a.section, valStr(a.wrote), versions)
				continue
			}
			m := 0
			for v := range versions {
				m = v
			}
			if m > maxVer {
				maxVer = m
			}
			if a.blind {
				continue
			}
			prev, ok := claims[m-1]
			if !ok {
				vstat.Class("replicated.section.predecessor_unobserved")
				continue
			}
			if !prev.Equal(a.read) {
				readVer := "an unknown version"
				for v, val := range claims {
					if val.Equal(a.read) {
						readVer = fmt.Sprintf("version %d", v)
					}
				}
				fail("w%d section %d committed as version %d but had read %s, the value of %s (version %d holds %s): commit over an overwritten read",
					a.writer, a.section, m, valStr(a.read), readVer, m-1, valStr(prev))
			}
		case "aborted":
			if sc.kind == "safety" {
				for v, val := range claims {
					if val.Equal(a.wrote) {
						fail("w%d section %d attempt %d was aborted but its value %s is version %d (%s)", a.writer, a.section, a.attempt, valStr(a.wrote), v, where[v])
					}
				}
			}
		}
	}
	highest := 0
	for v := range claims {
		if v > highest {
			highest = v
		}
	}
	if highest != committedN {
		fail("%d sections committed but the highest version is %d", committedN, highest)
	}
	if sc.kind == "progress" {
		for v, val := range claims {
			if !val.IsNumber() || int(val.AsNumber()) != v {
				fail("counter: version %d holds %s (every section increments by one)", v, valStr(val))
			}
		}
	}

	// --- final states: consistent with the history; a majority holds the last version ---
	atLast := 0
	var lagging []int
	for j := 0; j < c.n; j++ {
		ver := c.observeVersion(j)
		val, err := c.res[j].ReadValue(distsys.ArchetypeInterface{})
		c.res[j].Abort(distsys.ArchetypeInterface{})
		c.event("final: node %d version=%d value=%s", j, ver, valStr(val))
		if err != nil {
			fail("node %d: read outside any section refused at the end: %v", j, err)
			continue
		}
		if want, ok := claims[ver]; ok {
			if !want.Equal(val) {
				fail("node %d ends at version %d with value %s, but version %d is %s (%s)", j, ver, valStr(val), ver, valStr(want), where[ver])
			}
		} else {
			fail("node %d ends at version %d, which nobody committed (highest %d)", j, ver, highest)
		}
		if ver >= highest {
			atLast++
		} else {
			lagging = append(lagging, j)
			vstat.Class("replicated.final.lagging_replica")
		}
	}
	if atLast < majority(c.n) {
		// Commit() returned, so a majority must have installed the version - unless the
		// proposer never sent its Commit to them (the retry loop also guards the first send)
		neverDelivered := true
		for _, r := range recs {
			if r.delivered && r.req.RequestType == resources.Commit && r.req.Version >= highest {
				for _, j := range lagging {
					if r.dst == j {
						neverDelivered = false
					}
				}
			}
		}
		what := fmt.Sprintf("only %d of %d nodes hold the last committed version %d although Commit() returned", atLast, c.n, highest)
		if neverDelivered {
			c.classify(sigNoRetry, what+fmt.Sprintf("; no Commit for version %d was ever delivered to the lagging nodes %v", highest, lagging))
		} else {
			fail("%s", what)
		}
	}

	// --- progress ---
	// state check: with no section open and nothing in flight, every node must accept a
	// pre-commit for its next version from a proposer it has never heard of
	refused := c.probeAll(seq(c.n), 0)
	stuck := map[int]bool{}
	for _, j := range append(refused, midRunStuck...) {
		stuck[j] = true
	}
	var stuckNodes []int
	for j := range stuck {
		stuckNodes = append(stuckNodes, j)
	}
	sort.Ints(stuckNodes)
	for _, j := range stuckNodes {
		holder, hv, released, text := c.stuckDiagnosis(j)
		what := fmt.Sprintf("PROGRESS: node %d refuses a fresh proposer's pre-commit although no section is open and nothing is in flight; %s", j, text)
		switch {
		case holder >= 0 && !released:
			// the proposer never got its Commit/Abort through to this node and gave up trying
			c.classify(sigNoRetry, fmt.Sprintf("%s (node %d proposed version %d)", what, holder, hv))
		case rpcLike(c.transport):
			c.classify(sigIdentity, what)
		default:
			fail("%s", what)
		}
	}
	// end to end: every writer finished its increments within the budget
	if sc.kind == "progress" {
		unfinished := 0
		for wi, p := range sc.plans {
			n := 0
			for _, a := range attempts {
				if a.writer == wi && a.outcome == "committed" {
					n++
				}
			}
			if n < p.sections {
				unfinished++
				c.event("w%d on node %d completed %d of %d increments", wi, p.node, n, p.sections)
			}
		}
		c.mu.Lock()
		clean := len(c.violations) == 0
		c.mu.Unlock()
		if unfinished > 0 && clean {
			what := fmt.Sprintf("PROGRESS: %d writers did not complete their increments (budget %v / %d attempts, every replica reachable)", unfinished, progressBudget, progressAttempts)
			switch {
			case len(stuckNodes) > 0:
				// already classified above, by cause
			case rpcLike(c.transport):
				c.classify(sigIdentity, what)
			default:
				fail("%s", what)
			}
		}
		if unfinished == 0 {
			vstat.Class("replicated.progress.completed." + c.transport)
		} else {
			vstat.Class("replicated.progress.incomplete." + c.transport)
		}
	}

	// --- non-triviality ---
	if interleaved && rejectedProposals > 0 {
		vstat.Class("replicated.case.nontrivial")
		d := c.dump()
		vstat.NonTrivial("replicated|"+d, func() string { return "TestC11Replicated " + sc.kind + "\n" + d })
	}
}

// classify sets a disagreement aside if its signature is a listed open finding, and makes
// it a violation otherwise.
func (c *cluster) classify(sig, what string) {
	if vstat.Known(sig) {
		c.mu.Lock()
		c.setAside[sig]++
		c.mu.Unlock()
		vstat.Class("replicated.set_aside." + sig)
		c.event("set aside [%s]: %s", sig, what)
		return
	}
	c.violate("[%s] %s", sig, what)
}

func (c *cluster) report(t fataler, sc scenario) {
	c.mu.Lock()
	v := append([]string(nil), c.violations...)
	n := 0
	for _, k := range c.setAside {
		n += k
	}
	c.mu.Unlock()
	if n > 0 {
		vstat.Class("replicated.case.set_aside")
	}
	if len(v) > 0 {
		t.Fatalf("%d violation(s); first: %s\nall:\n  %s\nwriters: %s\nevent log:\n%s", len(v), v[0], strings.Join(v, "\n  "), planString(sc), c.dump())
	}
}

func planString(sc scenario) string {
	var ps []string
	for wi, p := range sc.plans {
		ps = append(ps, fmt.Sprintf("w%d@node%d x%d", wi, p.node, p.sections))
	}
	return strings.Join(ps, ", ")
}
