package c11

import (
	"errors"
	"fmt"
	"net"
	"runtime/debug"
	"strings"
	"sync"
	"sync/atomic"
	"time"

	"github.com/DistCompiler/pgo/distsys"
	"github.com/DistCompiler/pgo/distsys/resources"
	"github.com/DistCompiler/pgo/distsys/tla"

	"verif/harness/vstat"
)

// sigNoRetry is the signature of a second defect found while building this check (reported,
// not on the list handed to this package): a Commit (or Abort) that did not get through to a
// replica outside the acknowledging majority is never sent again, because the retry loop of
// broadcastAbortOrCommit stops as soon as the proposer's own version has moved on - which
// Commit() itself causes right after the majority answered. The replica is left holding the
// accepted pre-commit.
const sigNoRetry = "2PC-commit-not-retried-after-majority"

const (
	tHarness      = "harness-inprocess" // harness handle, Receive called directly
	tHarnessGob   = "harness-rpclike"   // harness handle, every request through gob first
	tShippedLocal = "shipped-local"     // resources.LocalReplicaHandle
	tShippedRPC   = "shipped-rpc"       // resources.RPCReplicaHandle over loopback
)

func rpcLike(transport string) bool { return transport == tHarnessGob || transport == tShippedRPC }

var errDropped = errors.New("harness: message dropped")

// rec is one message as the proposer's ReplicaHandle saw it.
type rec struct {
	start, end    int // positions in the event sequence
	src, dst      int
	req           resources.TwoPCRequest
	fate          string
	gob           bool
	delivered     bool // Receive ran on the destination
	stale         bool // a newer message of the same sender had already been delivered there
	reply         resources.TwoPCResponse
	replyReturned bool // the proposer got the reply (and no error)
	err           error
	verAfter      int
	extra         bool // late duplicate: nobody waits for the reply
	failedAt      time.Time
}

type attemptRec struct {
	writer, section, attempt int
	blind                    bool
	read, wrote              tla.Value
	pcStart, pcEnd           int   // event positions around the PreCommit call
	pcNanos                  int64 // wall clock just before the call: the proposal's SenderTime is not older
	pcErr                    error
	outcome                  string // "committed", "aborted", "read-aborted"
}

type cluster struct {
	n         int
	transport string
	exact     bool // deliveries are serialised per destination, so the log order is the processing order
	ids       []tla.Value
	res       []*resources.TwoPCArchetypeResource
	rcv       []*resources.TwoPCReceiver
	hasWriter []bool
	initial   tla.Value

	mu         sync.Mutex
	seq        int
	events     []string
	recs       []*rec
	attempts   []*attemptRec
	violations []string
	setAside   map[string]int
	spec       []*acceptorModel // what a pure acceptor fed with this node's deliveries would be
	ident      []*acceptorModel // the same under the identity hypothesis (pure acceptors only)
	instN      int

	obsMu   []sync.Mutex
	lastVer []int
	dstMu   []sync.Mutex

	// faults
	tape       []int
	profile    int // 0 none, 1 delays and duplicates, 2 also losses
	linkCount  []int
	dropBudget int
	delivered  atomic.Int64
	inflight   atomic.Int64
	extraWG    sync.WaitGroup

	gate        sync.RWMutex // writers hold it shared during an attempt; the controller takes it to pause them
	stop        atomic.Bool
	lastCommit  atomic.Int64 // unix nanos; only ever used to decide when to take a closer look
	commits     atomic.Int64
	probeSender int
	t0          time.Time
}

func majority(n int) int { return n/2 + 1 }

func freeAddr() (string, error) {
	l, err := net.Listen("tcp", "127.0.0.1:0")
	if err != nil {
		return "", err
	}
	defer l.Close()
	return l.Addr().String(), nil
}

func newCluster(n int, transport string, ids []tla.Value, initial tla.Value, writers []int) (*cluster, error) {
	c := &cluster{
		n: n, transport: transport, ids: ids, initial: initial,
		exact:     transport == tHarness || transport == tHarnessGob,
		res:       make([]*resources.TwoPCArchetypeResource, n),
		rcv:       make([]*resources.TwoPCReceiver, n),
		hasWriter: make([]bool, n),
		setAside:  map[string]int{},
		obsMu:     make([]sync.Mutex, n),
		lastVer:   make([]int, n),
		dstMu:     make([]sync.Mutex, n),
		linkCount: make([]int, n*n),
		spec:      make([]*acceptorModel, n),
		ident:     make([]*acceptorModel, n),
	}
	for _, w := range writers {
		c.hasWriter[w] = true
	}
	addrs := make([]string, n)
	for i := 0; i < n; i++ {
		i := i
		ok := false
		for try := 0; try < 20 && !ok; try++ {
			addr := "127.0.0.1:0"
			if transport == tShippedRPC {
				a, err := freeAddr()
				if err != nil {
					continue
				}
				addr = a
			}
			var rc *resources.TwoPCReceiver
			r := resources.NewTwoPC(initial, addr, nil, ids[i], func(x *resources.TwoPCReceiver) { rc = x })
			res, isRes := r.(*resources.TwoPCArchetypeResource)
			if !isRes || rc == nil {
				return nil, fmt.Errorf("NewTwoPC returned %T", r)
			}
			if !listening(rc) {
				continue // somebody else took the port in between; the listener is nil, nothing to close
			}
			c.res[i], c.rcv[i], addrs[i], ok = res, rc, addr, true
		}
		if !ok {
			c.closeAll()
			return nil, fmt.Errorf("could not start a listener for node %d", i)
		}
		c.spec[i] = newAcceptorModel(false, initial)
		c.ident[i] = newAcceptorModel(true, initial)
	}
	for i := 0; i < n; i++ {
		var hs []resources.ReplicaHandle
		for j := 0; j < n; j++ {
			if j == i {
				continue
			}
			l := &link{c: c, src: i, dst: j}
			switch transport {
			case tShippedLocal:
				l.inner = resources.VerifMakeLocalReplicaHandle(c.res[j])
			case tShippedRPC:
				h := resources.MakeRPCReplicaHandle(addrs[j], ids[j])
				l.inner = &h
			}
			hs = append(hs, l)
		}
		c.res[i].SetReplicas(hs)
	}
	c.lastCommit.Store(time.Now().UnixNano())
	c.t0 = time.Now()
	return c, nil
}

// closeAll: Close() waits for the resource's outstanding sends, then the listeners go.
func (c *cluster) closeAll() {
	for _, r := range c.res {
		if r != nil {
			r.Close()
		}
	}
	c.extraWG.Wait()
	for _, r := range c.rcv {
		if r != nil {
			resources.CloseTwoPCReceiver(r)
		}
	}
}

func (c *cluster) eventLocked(format string, a ...any) int {
	c.seq++
	c.events = append(c.events, fmt.Sprintf("#%03d %6.1fms ", c.seq, float64(time.Since(c.t0).Microseconds())/1000)+fmt.Sprintf(format, a...))
	return c.seq
}

func (c *cluster) event(format string, a ...any) int {
	c.mu.Lock()
	defer c.mu.Unlock()
	return c.eventLocked(format, a...)
}

func (c *cluster) violate(format string, a ...any) {
	c.mu.Lock()
	c.violations = append(c.violations, fmt.Sprintf(format, a...))
	c.mu.Unlock()
	c.stop.Store(true)
}

func (c *cluster) violateLocked(format string, a ...any) {
	c.violations = append(c.violations, fmt.Sprintf(format, a...))
	c.stop.Store(true)
}

func (c *cluster) dump() string {
	c.mu.Lock()
	defer c.mu.Unlock()
	return fmt.Sprintf("transport=%s nodes=%d fault-profile=%d\n", c.transport, c.n, c.profile) + strings.Join(c.events, "\n")
}

// observeVersion reads GetVersion and checks that it never decreases; read and comparison
// are one atomic step with respect to other observers, so the check does not depend on
// the schedule.
func (c *cluster) observeVersion(j int) int {
	c.obsMu[j].Lock()
	defer c.obsMu[j].Unlock()
	v := resources.GetVersion(c.rcv[j])
	if v < c.lastVer[j] {
		c.violate("node %d: GetVersion went from %d back to %d", j, c.lastVer[j], v)
	}
	c.lastVer[j] = v
	return v
}

// ---- the ReplicaHandle ------------------------------------------------------------------

type link struct {
	c        *cluster
	src, dst int
	inner    resources.ReplicaHandle // shipped transport underneath, nil for the harness transport
}

func (l *link) Close() error {
	if l.inner != nil {
		return l.inner.Close()
	}
	return nil
}

const (
	fateNow = iota
	fateDelay
	fateDup
	fateDropReq
	fateDropReply
)

var fateName = []string{"", "delayed", "duplicated", "lost", "reply lost"}

func (c *cluster) decide(src, dst int, typ resources.TwoPCRequestType) (fate, d int) {
	if c.profile == 0 || len(c.tape) == 0 {
		return fateNow, 0
	}
	c.mu.Lock()
	defer c.mu.Unlock()
	li := src*c.n + dst
	k := c.linkCount[li]
	c.linkCount[li]++
	x := c.tape[(li*29+k)%len(c.tape)]
	d = 1 + x%3
	switch {
	case x < 50:
		return fateNow, 0
	case x < 72:
		return fateDelay, d
	case x < 84:
		return fateDup, d
	}
	if c.profile < 2 {
		return fateNow, 0
	}
	if typ != resources.PreCommit {
		// every lost Commit/Abort costs the code's fixed one-second retry sleep
		if c.dropBudget == 0 {
			return fateNow, 0
		}
		c.dropBudget--
	}
	if x < 92 {
		return fateDropReq, 0
	}
	return fateDropReply, 0
}

// waitDeliveries holds a message back until d other deliveries happened (or a short while
// passed, when nothing else is moving).
func (c *cluster) waitDeliveries(d int) {
	target := c.delivered.Load() + int64(d)
	deadline := time.Now().Add(15 * time.Millisecond)
	for c.delivered.Load() < target && time.Now().Before(deadline) {
		time.Sleep(200 * time.Microsecond)
	}
}

func (l *link) Send(req resources.TwoPCRequest, reply *resources.TwoPCResponse) chan error {
	c := l.c
	ch := make(chan error, 1)
	c.inflight.Add(1)
	defer c.inflight.Add(-1)
	if l.inner != nil {
		r := c.begin(l.src, l.dst, req, "", false)
		var rp resources.TwoPCResponse
		err := <-l.inner.Send(req, &rp)
		ver := c.observeVersion(l.dst)
		// after a time-out the RPC is still in flight and net/rpc may yet decode a late reply into rp: it is only
		// read when the call completed (as the resource itself does)
		var got resources.TwoPCResponse
		if err == nil {
			got = rp
		}
		c.mu.Lock()
		r.delivered, r.reply, r.err, r.replyReturned, r.verAfter, r.failedAt = err == nil, got, err, err == nil, ver, time.Now()
		c.finishLocked(r)
		c.mu.Unlock()
		c.delivered.Add(1)
		if err == nil {
			*reply = got
		}
		ch <- err
		return ch
	}
	fate, d := c.decide(l.src, l.dst, req.RequestType)
	r := c.begin(l.src, l.dst, req, fateName[fate], false)
	if fate == fateDropReq {
		vstat.Class("replicated.msg.dropped")
		if req.RequestType != resources.PreCommit || d%2 == 1 {
			// a loss is noticed late (a time-out), typically after the other replicas have answered
			vstat.Class("replicated.msg.dropped.reported-late")
			c.waitDeliveries(d + 2)
		}
		c.mu.Lock()
		r.err, r.failedAt = errDropped, time.Now()
		c.finishLocked(r)
		c.mu.Unlock()
		ch <- errDropped
		return ch
	}
	if fate == fateDelay {
		vstat.Class("replicated.msg.delayed")
		c.waitDeliveries(d)
	}
	c.deliver(r, ref{sender: l.src, inst: fmt.Sprintf("obj-sender%d", l.src)}, false)
	if fate == fateDup {
		vstat.Class("replicated.msg.duplicated")
		c.extraWG.Add(1)
		go func() {
			defer c.extraWG.Done()
			c.waitDeliveries(d)
			r2 := c.begin(l.src, l.dst, req, "late duplicate", true)
			c.deliver(r2, ref{sender: l.src, inst: fmt.Sprintf("obj-sender%d", l.src)}, false)
		}()
	}
	if fate == fateDropReply {
		vstat.Class("replicated.msg.dropped")
		c.mu.Lock()
		r.replyReturned, r.err, r.failedAt = false, errDropped, time.Now()
		c.mu.Unlock()
		ch <- errDropped
		return ch
	}
	if r.err == nil {
		*reply = r.reply
	}
	ch <- r.err
	return ch
}

func (c *cluster) begin(src, dst int, req resources.TwoPCRequest, fate string, extra bool) *rec {
	c.mu.Lock()
	defer c.mu.Unlock()
	r := &rec{src: src, dst: dst, req: req, fate: fate, extra: extra}
	r.start = c.eventLocked("  %d->%d %s sent %s", src, dst, reqString(req), fate)
	c.recs = append(c.recs, r)
	return r
}

func (c *cluster) finishLocked(r *rec) {
	out := ""
	switch {
	case r.err != nil && !r.delivered:
		out = "error to the proposer: " + r.err.Error()
	case r.err != nil:
		out = replyString(r.reply) + " (but error to the proposer: " + r.err.Error() + ")"
	default:
		out = replyString(r.reply)
	}
	g := ""
	if r.gob {
		g = " [gob]"
	}
	r.end = c.eventLocked("  %d->%d %s%s %s => %s ; node %d version=%d", r.src, r.dst, reqString(r.req), g, r.fate, out, r.dst, r.verAfter)
}

// deliver runs the public Receive of the destination, one delivery per destination at a
// time, logs the outcome and feeds the per-node monitors.
func (c *cluster) deliver(r *rec, from ref, quiescent bool) {
	req := r.req
	if c.transport == tHarnessGob && from.sender >= 0 {
		g, err := gobRequest(req)
		if err != nil {
			c.violate("gob round trip of %s failed: %v", reqString(req), err)
			r.err = err
			return
		}
		req, r.gob = g, true
		vstat.Class("replicated.msg.gob")
	}
	c.dstMu[r.dst].Lock()
	defer c.dstMu[r.dst].Unlock()
	var reply resources.TwoPCResponse
	var err error
	verBefore := c.observeVersion(r.dst) // a lower bound of the version the message will meet
	func() {
		defer func() {
			if p := recover(); p != nil {
				err = fmt.Errorf("panic in Receive: %v\n%s", p, debug.Stack())
			}
		}()
		err = c.rcv[r.dst].Receive(req, &reply)
	}()
	ver := c.observeVersion(r.dst)
	vstat.Class("replicated.msg.delivered")
	c.mu.Lock()
	if r.gob {
		c.instN++
		from.inst = fmt.Sprintf("obj-decoded%d", c.instN)
	}
	r.delivered, r.reply, r.err, r.replyReturned, r.verAfter = true, reply, err, err == nil && !r.extra, ver
	c.finishLocked(r)
	if err != nil {
		c.violateLocked("Receive(%s) on node %d failed: %v", reqString(r.req), r.dst, err)
	} else {
		c.monitorLocked(r, from, verBefore, quiescent)
	}
	c.mu.Unlock()
	c.delivered.Add(1)
}

// monitorLocked compares one delivery with the acceptor model of the destination.
// Nodes without a writer are pure acceptors: the model is exact for them. A node with a
// writer may in addition refuse while it is proposing itself and may know newer versions
// than its deliveries show, so only the safety direction is checked there: whatever the
// model refuses, the node must refuse. (The model holds an acceptance only if the node
// answered accept, and every release the node can perform without the model seeing it
// raises its version beyond the accepted one.)
func (c *cluster) monitorLocked(r *rec, from ref, verBefore int, quiescent bool) {
	j := r.dst
	sp, id := c.spec[j], c.ident[j]
	pure := !c.hasWriter[j] || quiescent
	if c.hasWriter[j] && verBefore > sp.version {
		// the node learnt a newer version by itself (own commit, or a rejection it received).
		// Only what was observed BEFORE the call is a sound lower bound for the version the
		// message met: the node may also move on between processing it and our next look.
		c.syncVersionLocked(j, verBefore, tla.Value{})
	}
	before := sp.clone()
	want := sp.step(r.req, from)
	alt := id.step(r.req, from)
	r.stale = want.stale
	mismatch := func(m *acceptorModel, e expect) string {
		if r.reply.Accept != e.accept {
			return fmt.Sprintf("answer is %s, model says accept=%v", replyString(r.reply), e.accept)
		}
		if !e.accept && r.reply.Version != e.version {
			return fmt.Sprintf("rejection carries version %d, model says %d", r.reply.Version, e.version)
		}
		if !e.accept && e.value.String() != "defaultInitValue" && !r.reply.Value.Equal(e.value) {
			return fmt.Sprintf("rejection carries value %s, model says %s", r.reply.Value.String(), e.value.String())
		}
		if r.verAfter != m.version {
			return fmt.Sprintf("GetVersion=%d, model says %d", r.verAfter, m.version)
		}
		return ""
	}
	if pure {
		why := mismatch(sp, want)
		if why == "" {
			return
		}
		what := fmt.Sprintf("node %d (no local section open) disagrees with the acceptor model at event #%03d: %s; model before: %s", j, r.end, why, before.String())
		explained := c.transport == tHarnessGob && ((!c.hasWriter[j] && mismatch(id, alt) == "") || (c.hasWriter[j] && !r.reply.Accept && want.accept))
		if explained {
			if vstat.Known(sigIdentity) {
				c.setAside[sigIdentity]++
				times := sp.times
				if !c.hasWriter[j] {
					c.spec[j] = id.clone()
					c.spec[j].identity, c.spec[j].times = false, times
				} else {
					*sp = *before
					sp.times = times
				}
				return
			}
			c.violateLocked("[%s] %s", sigIdentity, what)
			return
		}
		c.violateLocked("%s", what)
		return
	}
	// node with a writer, not quiescent
	if want.stale {
		return
	}
	switch {
	case !want.accept && r.reply.Accept:
		c.violateLocked("node %d accepted %s at event #%03d although it must refuse: model %s", j, reqString(r.req), r.end, before.String())
	case want.accept && !r.reply.Accept:
		// allowed (see above): the model must not record what the node did not do
		times := sp.times
		*sp = *before
		sp.times = times
		if r.reply.Version > sp.version {
			c.syncVersionLocked(j, r.reply.Version, r.reply.Value)
		}
	}
	if r.verAfter > sp.version {
		c.syncVersionLocked(j, r.verAfter, tla.Value{})
	}
}

func (c *cluster) syncVersionLocked(j, version int, value tla.Value) {
	sp := c.spec[j]
	sp.version, sp.value = version, value
	if sp.has && sp.accVer <= version {
		sp.has = false
	}
}

// ---- probes: the progress property as a state check -------------------------------------

// waitQuiet waits until no handle is inside Send for a while.
func (c *cluster) waitQuiet(limit time.Duration) {
	deadline := time.Now().Add(limit)
	quietSince := time.Time{}
	for time.Now().Before(deadline) {
		if c.inflight.Load() == 0 {
			if quietSince.IsZero() {
				quietSince = time.Now()
			} else if time.Since(quietSince) > 40*time.Millisecond {
				return
			}
		} else {
			quietSince = time.Time{}
		}
		time.Sleep(2 * time.Millisecond)
	}
}

// probe asks node j, through the public Receive, whether a proposer nobody has heard of
// would get its pre-commit for the next version accepted, and withdraws it again. With no
// section open anywhere and every Abort/Commit delivered, the answer must be yes.
func (c *cluster) probe(j int) (accepted bool, answer string) {
	c.mu.Lock()
	c.probeSender++
	k := c.probeSender
	c.mu.Unlock()
	id := tla.MakeTuple(tla.MakeString("probe"), tla.MakeNumber(int32(k)))
	from := ref{sender: -k, inst: fmt.Sprintf("obj-probe%d", k)}
	ver := c.observeVersion(j)
	c.mu.Lock()
	if ver > c.spec[j].version {
		c.syncVersionLocked(j, ver, tla.Value{})
	}
	c.mu.Unlock()
	now := time.Now().UnixNano()
	pc := c.begin(-k, j, resources.TwoPCRequest{RequestType: resources.PreCommit, Value: tla.MakeString("probe"), Sender: id, Version: ver + 1, SenderTime: now}, "probe", true)
	c.deliverProbe(pc, from)
	ab := c.begin(-k, j, resources.TwoPCRequest{RequestType: resources.Abort, Sender: id, Version: ver + 1, SenderTime: now + 1}, "probe withdrawn", true)
	c.deliverProbe(ab, from)
	return pc.reply.Accept, replyString(pc.reply)
}

func (c *cluster) deliverProbe(r *rec, from ref) {
	if c.exact {
		c.deliver(r, from, true)
		return
	}
	var reply resources.TwoPCResponse
	err := c.rcv[r.dst].Receive(r.req, &reply)
	ver := c.observeVersion(r.dst)
	c.mu.Lock()
	r.delivered, r.reply, r.err, r.verAfter = true, reply, err, ver
	c.finishLocked(r)
	c.mu.Unlock()
}

// stuck describes why node j refuses: which acceptance the log says it should still hold.
func (c *cluster) stuckDiagnosis(j int) (holder int, holderVer int, releaseDelivered bool, text string) {
	c.mu.Lock()
	defer c.mu.Unlock()
	// replay this node's deliveries in log order against the value model of a pure acceptor
	var last *rec
	for _, r := range c.recs {
		if r.dst != j || !r.delivered || r.src < 0 {
			continue
		}
		if r.req.RequestType == resources.PreCommit && r.reply.Accept && !r.stale {
			last = r
		}
	}
	if last == nil {
		return -1, 0, false, "no pre-commit was ever answered with accept by this node"
	}
	for _, r := range c.recs {
		if r.dst != j || !r.delivered || r.end <= last.end {
			continue
		}
		if r.stale {
			continue
		}
		if (r.req.RequestType == resources.Abort && r.src == last.src) || (r.req.RequestType == resources.Commit && r.req.Version >= last.req.Version) {
			return last.src, last.req.Version, true, fmt.Sprintf("last accepted pre-commit: event #%03d from node %d for version %d; released by event #%03d", last.end, last.src, last.req.Version, r.end)
		}
	}
	return last.src, last.req.Version, false, fmt.Sprintf("last accepted pre-commit: event #%03d from node %d for version %d; no Abort from node %d and no Commit for a version >= %d was delivered to node %d afterwards", last.end, last.src, last.req.Version, last.src, last.req.Version, j)
}

// ---- writers ----------------------------------------------------------------------------

type writerPlan struct {
	node     int
	sections int
	blind    []bool
}

type writerCfg struct {
	increments  bool
	maxAttempts int
	deadline    time.Time
	// The resource sleeps up to 2*(n-1)^2*(2^k-1) ms before a pre-commit, k being the number
	// of consecutive failed pre-commit rounds, without bound and not interruptibly. A writer
	// gives up (like on an exhausted budget) once that bound exceeds maxBackoff.
	maxBackoff time.Duration
	maxIdle    int // locally refused sections before giving up (0: no limit but the deadline)
}

func backoffBound(n, fails int) time.Duration {
	if fails > 30 {
		fails = 30
	}
	return time.Duration(2*(n-1)*(n-1)*((1<<uint(fails))-1)) * time.Millisecond
}

func token(v tla.Value) string {
	if v.IsTuple() && v.AsTuple().Len() == 2 {
		return v.AsTuple().Get(0).AsString()
	}
	return v.String()
}

func (c *cluster) runWriter(wi int, p writerPlan, cfg writerCfg, done *sync.WaitGroup) {
	defer done.Done()
	iface := distsys.ArchetypeInterface{}
	res := c.res[p.node]
	attempt, fails, idle := 0, 0, 0
	for s := 0; s < p.sections; s++ {
		committed := false
		for !committed {
			// only rounds that sent a pre-commit count against the attempt budget: a section
			// refused locally (this node currently holds somebody's pre-commit) costs nothing
			// and is retried after a moment, as the generated code's Run loop does
			if c.stop.Load() || attempt >= cfg.maxAttempts || time.Now().After(cfg.deadline) || (cfg.maxIdle > 0 && idle >= cfg.maxIdle) {
				return
			}
			if backoffBound(c.n, fails) > cfg.maxBackoff {
				c.event("w%d@node%d gives up: %d pre-commit rounds failed in a row, the next back-off may take %v", wi, p.node, fails, backoffBound(c.n, fails))
				vstat.Class("replicated.writer.gave_up_backoff")
				return
			}
			c.gate.RLock()
			var sent bool
			committed, sent = c.attempt(wi, p, s, attempt+idle+1, cfg, res, iface)
			c.gate.RUnlock()
			switch {
			case committed:
				attempt++
				fails = 0
			case sent:
				attempt++
				fails++ // an upper bound on the resource's own counter, which also resets when it learns a newer version
			default:
				idle++
				time.Sleep(300 * time.Microsecond)
			}
		}
	}
}

func (c *cluster) attempt(wi int, p writerPlan, s, attempt int, cfg writerCfg, res *resources.TwoPCArchetypeResource, iface distsys.ArchetypeInterface) (committed, sent bool) {
	a := &attemptRec{writer: wi, section: s, attempt: attempt, blind: !cfg.increments && p.blind[s]}
	c.mu.Lock()
	c.attempts = append(c.attempts, a)
	c.mu.Unlock()
	defer func() {
		if r := recover(); r != nil {
			c.violate("writer %d on node %d: panic in the resource: %v\n%s", wi, p.node, r, debug.Stack())
			a.outcome = "panic"
		}
	}()
	abort := func(why string) {
		res.Abort(iface)
		a.outcome = why
		vstat.Class("replicated.section." + why)
	}
	var err error
	if !a.blind {
		a.read, err = res.ReadValue(iface)
		if err != nil {
			c.event("w%d@node%d section %d attempt %d: read refused (%v)", wi, p.node, s, attempt, err)
			abort("read-aborted")
			return false, false
		}
	}
	switch {
	case cfg.increments:
		a.wrote = tla.MakeNumber(a.read.AsNumber() + 1)
	case a.blind:
		a.wrote = tla.MakeTuple(tla.MakeString(fmt.Sprintf("w%d.s%d.a%d", wi, s, attempt)), tla.MakeString("blind"))
	default:
		a.wrote = tla.MakeTuple(tla.MakeString(fmt.Sprintf("w%d.s%d.a%d", wi, s, attempt)), tla.MakeString(token(a.read)))
	}
	if err = res.WriteValue(iface, a.wrote); err != nil {
		c.event("w%d@node%d section %d attempt %d: write refused (%v)", wi, p.node, s, attempt, err)
		abort("read-aborted")
		return false, false
	}
	rd := "-"
	if !a.blind {
		rd = a.read.String()
	}
	a.pcNanos = time.Now().UnixNano()
	a.pcStart = c.event("w%d@node%d section %d attempt %d: read %s, wrote %s, PreCommit...", wi, p.node, s, attempt, rd, a.wrote.String())
	a.pcErr = <-res.PreCommit(iface)
	a.pcEnd = c.event("w%d@node%d section %d attempt %d: PreCommit returned %v", wi, p.node, s, attempt, a.pcErr)
	if a.pcErr != nil {
		abort("aborted")
		c.event("w%d@node%d section %d attempt %d: aborted", wi, p.node, s, attempt)
		return false, c.sentBetween(p.node, a)
	}
	if ch := res.Commit(iface); ch != nil {
		<-ch
	}
	a.outcome = "committed"
	vstat.Class("replicated.section.committed")
	c.commits.Add(1)
	c.lastCommit.Store(time.Now().UnixNano())
	c.event("w%d@node%d section %d attempt %d: committed %s", wi, p.node, s, attempt, a.wrote.String())
	return true, true
}

// ownProposal: is r one of the pre-commit messages of attempt a of this node? (A sender
// goroutine of an earlier proposal may reach Send arbitrarily late, inside a later
// attempt's window; it still carries the earlier proposal's SenderTime.)
func ownProposal(r *rec, node int, a *attemptRec) bool {
	return r.src == node && r.req.RequestType == resources.PreCommit && !r.extra &&
		r.start >= a.pcStart && r.start <= a.pcEnd && r.req.SenderTime >= a.pcNanos
}

// sentBetween: did the attempt send any pre-commit (or was the section refused locally)?
func (c *cluster) sentBetween(node int, a *attemptRec) bool {
	c.mu.Lock()
	defer c.mu.Unlock()
	for i := len(c.recs) - 1; i >= 0; i-- {
		r := c.recs[i]
		if r.start < a.pcStart {
			break
		}
		if ownProposal(r, node, a) {
			return true
		}
	}
	return false
}
