// C02 — generated Go takes exactly the steps its MPCal/PlusCal spec prescribes.
package c02

import (
	"fmt"
	"io"
	"log"
	"os"
	"path/filepath"
	"strings"
	"testing"

	"github.com/DistCompiler/pgo/distsys/tla"
	"github.com/DistCompiler/pgo/distsys/trace"
	"pgregory.net/rapid"

	"verif/harness/sched"
	"verif/harness/spectrace"
	"verif/harness/sysbind"
	"verif/harness/tlx"
	"verif/harness/vstat"
)

func TestMain(m *testing.M) {
	log.SetOutput(io.Discard)
	vstat.Main(m, "C02")
}

func draws(t *rapid.T) (func(string, int) int, func(*sched.Instance, string, uint) uint) {
	return func(what string, k int) int { return rapid.IntRange(0, k-1).Draw(t, what) },
		func(_ *sched.Instance, id string, k uint) uint { return uint(rapid.IntRange(0, int(k)-1).Draw(t, id)) }
}

// record drives the instances with uniformly drawn turns and records every committed step with the full spec state.
func record(t *rapid.T, sim *sched.Sim, p *spectrace.Pair, steps int, pair string) spectrace.Trace {
	if err := sim.Start(); err != nil {
		t.Fatalf("INCONCLUSIVE: %v", err)
	}
	defer sim.Shutdown()
	tr := spectrace.Trace{Init: p.Snapshot()}
	// steps counts committed steps; blocked attempts are free up to a bound
	for i, attempts := 0, 0; i < steps && attempts < 6*steps; attempts++ {
		var live []*sched.Instance
		for _, x := range sim.Insts {
			if x.Live {
				live = append(live, x)
			}
		}
		if len(live) == 0 {
			break
		}
		x := live[rapid.IntRange(0, len(live)-1).Draw(t, "who")]
		pc := x.PC
		before := p.Snapshot()
		st := sim.Step(x)
		switch st.Kind {
		case sched.Committed:
			i++
			tr.Steps = append(tr.Steps, spectrace.Step{Lbl: spectrace.Label(pc), Who: spectrace.RenderValue(x.Self), Post: p.Snapshot()})
			vstat.Class(pair + ".label." + spectrace.Label(pc))
			if len(st.Event.Elements) > 2 {
				key := pair + "|" + spectrace.Label(pc) + "|" + fmt.Sprint(before)
				vstat.NonTrivial(key, func() string {
					return fmt.Sprintf("%s: %s(%s) from pc=%s", pair, spectrace.Label(pc), spectrace.RenderValue(x.Self), before["pc"])
				})
			}
			if st.Err != nil {
				t.Fatalf("%s: %s ended with %v", pair, x.Name, st.Err)
			}
		case sched.Aborted:
			// an aborted attempt must leave the spec state unchanged
			after := p.Snapshot()
			for k, v := range before {
				if after[k] != v {
					t.Fatalf("%s: an ABORTED attempt of %s at %s changed %s from %s to %s", pair, x.Name, pc, k, v, after[k])
				}
			}
		case sched.Exited:
			if st.Err != nil {
				t.Fatalf("%s: %s failed: %v", pair, x.Name, st.Err)
			}
		case sched.Stuck:
			t.Fatalf("INCONCLUSIVE: %s stuck at %s", x.Name, pc)
		}
	}
	return tr
}

// groups collects the traces per constant assignment: one TLC run judges all traces that share the constants.
type groups struct {
	chunk, steps map[string]int
	pair         map[string]*spectrace.Pair
	trs  map[string][]spectrace.Trace
	keys []string
}

func newGroups() *groups {
	return &groups{pair: map[string]*spectrace.Pair{}, trs: map[string][]spectrace.Trace{}}
}

func (g *groups) add(p *spectrace.Pair, tr spectrace.Trace) {
	// one TLC run judges at most ~4000 steps: the trace module is read into memory as a whole
	base := strings.Join(p.Constants, ",")
	if g.chunk == nil {
		g.chunk, g.steps = map[string]int{}, map[string]int{}
	}
	if g.steps[base] > 0 && g.steps[base]+len(tr.Steps) > 4000 {
		g.chunk[base]++
		g.steps[base] = 0
	}
	g.steps[base] += len(tr.Steps)
	k := fmt.Sprintf("%s #%d", base, g.chunk[base])
	if _, ok := g.pair[k]; !ok {
		g.keys = append(g.keys, k)
	}
	g.pair[k] = p
	g.trs[k] = append(g.trs[k], tr)
}

// judgeAll runs TLC on every group (a few at a time) and reports the first rejection.
func (g *groups) judgeAll(t *testing.T, pair string) {
	if t.Failed() {
		return
	}
	type res struct {
		k   string
		msg string
	}
	out := make([]res, len(g.keys))
	sem := make(chan struct{}, 4)
	done := make(chan int)
	for i, k := range g.keys {
		i, k := i, k
		go func() {
			sem <- struct{}{}
			out[i] = res{k, judge(g.pair[k], g.trs[k], pair, fmt.Sprintf("%s-g%d", pair, i))}
			<-sem
			done <- i
		}()
	}
	for range g.keys {
		<-done
	}
	vstat.ClassN(pair+".constant-assignments", int64(len(g.keys)))
	for _, r := range out {
		if strings.HasPrefix(r.msg, "INCONCLUSIVE") {
			t.Fatalf("%s", r.msg)
		}
	}
	for _, r := range out {
		if r.msg != "" {
			t.Fatalf("[%s] %s", r.k, r.msg)
		}
	}
}

// judge hands the collected traces to TLC; "" means every step was accepted.
func judge(p *spectrace.Pair, traces []spectrace.Trace, pair, dir string) string {
	if len(traces) == 0 {
		return ""
	}
	keep := filepath.Join(os.Getenv("VERIF_ROOT"), "replays", "C02", dir)
	if os.Getenv("VERIF_ROOT") == "" {
		keep = ""
	}
	v := p.Check(traces, keep)
	steps := 0
	for _, tr := range traces {
		steps += len(tr.Steps)
	}
	vstat.ClassN(pair+".traces", int64(len(traces)))
	vstat.ClassN(pair+".steps-judged-by-TLC", int64(steps))
	if v.OK {
		return ""
	}
	if v.Budget {
		vstat.ClassN("budget.traces-not-judged", int64(len(traces)))
		vstat.ClassN(pair+".steps-judged-by-TLC", -int64(steps))
		return ""
	}
	if v.Infra {
		return fmt.Sprintf("INCONCLUSIVE: TLC could not judge the %s traces:\n%s", pair, tail(v.Output, 3000))
	}
	detail := ""
	if v.BadTrace >= 1 && v.BadTrace <= len(traces) && v.BadStep >= 1 && v.BadStep <= len(traces[v.BadTrace-1].Steps) {
		st := traces[v.BadTrace-1].Steps[v.BadStep-1]
		pre := traces[v.BadTrace-1].Init
		if v.BadStep >= 2 {
			pre = traces[v.BadTrace-1].Steps[v.BadStep-2].Post
		}
		var diff []string
		for k, val := range st.Post {
			if pre[k] != val {
				diff = append(diff, fmt.Sprintf("   %s: %s  ->  %s", k, pre[k], val))
			}
		}
		detail = fmt.Sprintf("trace %d step %d: the Go archetype committed %s(%s) with these changes, which the translation's action does not allow from that state:\n%s\n", v.BadTrace, v.BadStep, st.Lbl, st.Who, strings.Join(diff, "\n"))
	}
	return fmt.Sprintf("%s: TLC rejects a committed Go step\n%s(module kept at %s)\n%s", pair, detail, v.ModulePath, tail(v.Output, 2500))
}

func tail(s string, n int) string {
	if len(s) > n {
		return "…" + s[len(s)-n:]
	}
	return s
}

func TestC02LockSvc(t *testing.T) {
	g := newGroups()
	rapid.Check(t, func(t *rapid.T) {
		if vstat.OverBudget() {
			return
		}
		vstat.Case()
		n := rapid.IntRange(1, 4).Draw(t, "clients")
		d, c := draws(t)
		ls := sysbind.NewLockSvc(n, d, c)
		ls.Store.RefusePct = rapid.SampledFrom([]int{0, 0, 5, 20}).Draw(t, "precommit-refusals")
		ls.Store.RefuseWritePct = rapid.SampledFrom([]int{0, 0, 10, 30}).Draw(t, "write-refusals")
		p := &spectrace.Pair{Module: "locksvc", SpecPath: "/repo/systems/locksvc/locksvc.tla", Constants: []string{fmt.Sprintf("NumClients = %d", n)},
			Store: ls.Store, Globals: []string{"network", "hasLock"}, Procs: ls.Sim.Insts, CheckInit: true,
			Locals:  []spectrace.Local{{TLA: "msg", Go: "AServer.msg", Owners: []*sched.Instance{ls.Server}}, {TLA: "q", Go: "AServer.q", Owners: []*sched.Instance{ls.Server}}},
			Actions: []string{"serverLoop", "serverReceive", "serverRespond", "acquireLock", "criticalSection", "unlock"}}
		g.add(p, record(t, ls.Sim, p, rapid.IntRange(5, 120).Draw(t, "steps"), "locksvc"))
	})
	g.judgeAll(t, "locksvc")
}

func TestC02DQueue(t *testing.T) {
	g := newGroups()
	sysbind.SpecFaithfulStream = true
	rapid.Check(t, func(t *rapid.T) {
		if vstat.OverBudget() {
			return
		}
		vstat.Case()
		n, buf := rapid.IntRange(1, 3).Draw(t, "consumers"), rapid.SampledFrom([]int{1, 2, 4, 5}).Draw(t, "buffer")
		d, c := draws(t)
		s := sysbind.NewDQueue(n, buf, d, c)
		s.Store.RefusePct = rapid.SampledFrom([]int{0, 0, 5, 20}).Draw(t, "precommit-refusals")
		s.Store.RefuseWritePct = rapid.SampledFrom([]int{0, 0, 10, 30}).Draw(t, "write-refusals")
		p := &spectrace.Pair{Module: "dqueue", SpecPath: "/repo/systems/dqueue/dqueue.tla",
			Constants: []string{fmt.Sprintf("NUM_CONSUMERS = %d", n), fmt.Sprintf("BUFFER_SIZE = %d", buf), "PRODUCER = 0"},
			Store:     s.Store, Globals: []string{"network", "processor", "stream"}, Procs: s.Sim.Insts, CheckInit: true,
			Locals:  []spectrace.Local{{TLA: "requester", Go: "AProducer.requester", Owners: s.Named["producer"]}},
			Actions: []string{"c", "c1", "c2", "p", "p1", "p2"}}
		g.add(p, record(t, s.Sim, p, rapid.IntRange(5, 120).Draw(t, "steps"), "dqueue"))
	})
	g.judgeAll(t, "dqueue")
}

func TestC02PBKVS(t *testing.T) {
	g := newGroups()
	rapid.Check(t, func(t *rapid.T) {
		if vstat.OverBudget() {
			return
		}
		vstat.Case()
		nr, nc := rapid.SampledFrom([]int{1, 2, 3, 3}).Draw(t, "replicas"), rapid.IntRange(1, 2).Draw(t, "clients")
		crashPct := rapid.SampledFrom([]int{0, 3, 10}).Draw(t, "crashpct")
		rec := func(m map[string]tlx.Val) tlx.Val { return tlx.Rec(m) }
		inputs := []tlx.Val{
			rec(map[string]tlx.Val{"typ": tlx.Int(3), "body": rec(map[string]tlx.Val{"key": tlx.Str("KEY1"), "value": tlx.Str("VALUE1")})}),
			rec(map[string]tlx.Val{"typ": tlx.Int(3), "body": rec(map[string]tlx.Val{"key": tlx.Str("KEY1"), "value": tlx.Str("VALUE2")})}),
			rec(map[string]tlx.Val{"typ": tlx.Int(1), "body": rec(map[string]tlx.Val{"key": tlx.Str("KEY1")})}),
		}
		var pb *sysbind.PBKVS
		alive := func() int {
			k := 0
			for r := 1; r <= nr; r++ {
				if pb.Alive(r) {
					k++
				}
			}
			return k
		}
		d, _ := draws(t)
		pb = sysbind.NewPBKVS(nr, nc, []string{"KEY1"}, inputs, d, func(_ *sched.Instance, id string, k uint) uint {
			if sysbind.PBFailChoice(id) {
				if alive() > 1 && rapid.IntRange(0, 99).Draw(t, "crash?") < crashPct {
					return 1
				}
				return 0
			}
			return uint(rapid.IntRange(0, int(k)-1).Draw(t, id))
		})
		pb.Store.RefusePct = rapid.SampledFrom([]int{0, 0, 5, 20}).Draw(t, "precommit-refusals")
		pb.Store.RefuseWritePct = rapid.SampledFrom([]int{0, 0, 10, 30}).Draw(t, "write-refusals")
		rl := func(tlaName, goName string) spectrace.Local {
			return spectrace.Local{TLA: tlaName, Go: "AReplica." + goName, Owners: pb.Replicas}
		}
		cl := func(tlaName, goName string) spectrace.Local {
			return spectrace.Local{TLA: tlaName, Go: "AClient." + goName, Owners: pb.Clients}
		}
		p := &spectrace.Pair{Module: "pbkvs", SpecPath: "/repo/systems/pbkvs/pbkvs.tla",
			Constants: []string{fmt.Sprintf("NUM_REPLICAS = %d", nr), fmt.Sprintf("NUM_CLIENTS = %d", nc), "EXPLORE_FAIL = TRUE", "DEBUG = FALSE"},
			Store:     pb.Store, Globals: []string{"network", "fd", "fs", "primary", "clientInput", "clientOutput"}, Procs: pb.Sim.Insts, CheckInit: true,
			Locals: []spectrace.Local{rl("req", "req"), rl("respBody", "respBody"), rl("respTyp", "respTyp"), rl("idx", "idx"), rl("repReq", "repReq"), rl("repResp", "repResp"),
				rl("resp", "resp"), rl("replicaSet", "replicaSet"), rl("shouldSync", "shouldSync"), rl("lastPutBody", "lastPutBody"), rl("replica", "replica"),
				cl("req0", "req"), cl("resp0", "resp"), cl("msg", "msg"), cl("replica0", "replica"), cl("idx0", "idx")},
			Actions: []string{"replicaLoop", "syncPrimary", "sndSyncReqLoop", "rcvSyncRespLoop", "rcvMsg", "handleBackup", "handlePrimary", "sndReplicaReqLoop",
				"rcvReplicaRespLoop", "sndResp", "failLabel", "clientLoop", "sndReq", "rcvResp"}}
		g.add(p, record(t, pb.Sim, p, rapid.SampledFrom([]int{30, 100, 250, 500}).Draw(t, "steps"), "pbkvs"))
	})
	g.judgeAll(t, "pbkvs")
}

// ---- raftkvs ------------------------------------------------------------------------------------------

// raftPair describes the raftkvs pair: every global of the translation is rendered from the binding (shared
// variables from the shadow kept from committed write events, the network bag from the harness links, the
// channels from the harness queues); pc and the process locals from the contexts.
// kindConflict: TLC cannot compare (or test for equality) an integer with a string, so it cannot build a function
// (here: the network bag) whose domain holds two records that differ in such a pair of fields — e.g. two Get
// responses, one with value Nil (0) and one with a string. Such a state is the spec's own, but TLC cannot hold it.
func kindConflict(a, b tlx.Val) bool {
	if a.K != b.K {
		return true
	}
	switch a.K {
	case tlx.KTup, tlx.KSet:
		for i := range a.E {
			if i < len(b.E) && kindConflict(a.E[i], b.E[i]) {
				return true
			}
		}
	case tlx.KFn:
		// records over different field sets are told apart by their domains; the values are only compared
		// when the domains are the same
		if len(a.Ks) != len(b.Ks) {
			return false
		}
		for i := range a.Ks {
			if kindConflict(a.Ks[i], b.Ks[i]) {
				return true
			}
			if a.Ks[i].TLA() != b.Ks[i].TLA() {
				return false
			}
		}
		for i := range a.Vs {
			if kindConflict(a.Vs[i], b.Vs[i]) {
				return true
			}
		}
	}
	return false
}

// raftUnrepresentable is set by the state rendering when the state just rendered cannot be held by TLC.
var raftUnrepresentable bool

func raftPair(r *sysbind.Raft) *spectrace.Pair {
	n, nc := r.O.NumServers, r.O.NumClients
	var procs, srv0, srv1, srv2, srv3, srv4 []*sched.Instance
	for _, g := range r.Servers {
		procs = append(procs, g...)
		srv0, srv1, srv2, srv3, srv4 = append(srv0, g[0]), append(srv1, g[1]), append(srv2, g[2]), append(srv3, g[3]), append(srv4, g[4])
	}
	procs = append(procs, r.Clients...)
	fn := func(keys []int, val func(k int) string) string {
		if len(keys) == 0 {
			return "<<>>"
		}
		ps := make([]string, len(keys))
		for i, k := range keys {
			ps[i] = fmt.Sprintf("(%d :> (%s))", k, val(k))
		}
		return "(" + strings.Join(ps, " @@ ") + ")"
	}
	servers := make([]int, n)
	for i := range servers {
		servers[i] = i + 1
	}
	nodes := append([]int{}, servers...)
	var clients []int
	for c := 1; c <= nc; c++ {
		nodes = append(nodes, 6*n+c)
		clients = append(clients, 6*n+c)
	}
	rng := func(lo, hi int) []int {
		var out []int
		for i := lo; i <= hi; i++ {
			out = append(out, i)
		}
		return out
	}
	seq := func(vs []tla.Value) string {
		ps := make([]string, len(vs))
		for i, v := range vs {
			ps[i] = spectrace.RenderValue(v)
		}
		return "<<" + strings.Join(ps, ", ") + ">>"
	}
	shared := []string{"state", "currentTerm", "commitIndex", "nextIndex", "matchIndex", "log", "votedFor", "votesResponded", "votesGranted", "leader", "sm", "smDomain"}
	extraVars := append([]string{"network", "fd", "plog", "leaderTimeout", "appendEntriesCh", "becomeLeaderCh", "reqCh", "respCh",
		"requestVoteSrvId", "appendEntriesSrvId", "advanceCommitIndexSrvId", "becomeLeaderSrvId", "crasherSrvId", "timeout", "srvId4"}, shared...)
	extra := func() spectrace.State {
		s := spectrace.State{}
		s["network"] = fn(nodes, func(k int) string {
			count := map[string]int{}
			var order []string
			var distinct []tlx.Val
			for _, m := range r.Queued(k) {
				t := spectrace.RenderValue(m)
				if count[t] == 0 {
					order = append(order, t)
					if x, err := tlx.FromTLA(m.StripVClock()); err == nil {
						for _, y := range distinct {
							if kindConflict(x, y) {
								raftUnrepresentable = true
							}
						}
						distinct = append(distinct, x)
					}
				}
				count[t]++
			}
			bag := "<<>>"
			if len(order) > 0 {
				ps := make([]string, len(order))
				for i, t := range order {
					ps[i] = fmt.Sprintf("(%s) :> %d", t, count[t])
				}
				bag = "(" + strings.Join(ps, " @@ ") + ")"
			}
			return "[queue |-> " + bag + ", enabled |-> TRUE]"
		})
		s["fd"] = fn(servers, func(int) string { return "FALSE" })
		for _, v := range shared {
			v := v
			s[v] = fn(servers, func(k int) string { return spectrace.RenderValue(r.Shadow[k-1][v]) })
		}
		s["plog"] = fn(servers, func(k int) string { return spectrace.RenderValue(r.PlogSpec[k-1]) })
		s["leaderTimeout"] = spectrace.RenderValue(r.LeaderTimeout)
		s["appendEntriesCh"] = fn(servers, func(k int) string { return seq(r.ChanItems("append", k)) })
		s["becomeLeaderCh"] = fn(servers, func(k int) string { return seq(r.ChanItems("become", k)) })
		s["reqCh"] = "defaultInitValue"
		s["respCh"] = spectrace.RenderValue(r.LastResp)
		s["requestVoteSrvId"] = fn(rng(n+1, 2*n), func(k int) string { return fmt.Sprint(k - n) })
		s["appendEntriesSrvId"] = fn(rng(2*n+1, 3*n), func(k int) string { return fmt.Sprint(k - 2*n) })
		s["advanceCommitIndexSrvId"] = fn(rng(3*n+1, 4*n), func(k int) string { return fmt.Sprint(k - 3*n) })
		s["becomeLeaderSrvId"] = fn(rng(4*n+1, 5*n), func(k int) string { return fmt.Sprint(k - 4*n) })
		s["crasherSrvId"] = "<<>>"
		s["timeout"] = fn(clients, func(int) string { return "FALSE" })
		s["srvId4"] = "<<>>"
		return s
	}
	loc := func(tlaName, goName string, owners []*sched.Instance) spectrace.Local {
		return spectrace.Local{TLA: tlaName, Go: goName, Owners: owners}
	}
	return &spectrace.Pair{Module: "raftkvs", SpecPath: "/repo/systems/raftkvs/raftkvs.tla",
		Constants: []string{fmt.Sprintf("NumServers = %d", n), fmt.Sprintf("NumClients = %d", nc), "ExploreFail = FALSE", "Debug = FALSE",
			fmt.Sprintf("BufferSize = %d", r.O.MailboxCap), "MaxTerm = 1000", "MaxCommitIndex = 1000", "MaxNodeFail = 0",
			`LogConcat = "log_concat"`, `LogPop = "log_pop"`, "LeaderTimeoutReset = TRUE", "NumRequests = 100",
			`AllStrings = {"k1", "k2", "k3", "v1", "v2", "v3", "v4", "v5", "v6", "v7", "v8", "v9", "v10", "v11", "v12"}`},
		Procs: procs, CheckInit: true, Extra: extra, ExtraVars: extraVars,
		Locals: []spectrace.Local{
			loc("idx", "AServer.idx", srv0), loc("m", "AServer.m", srv0), loc("srvId", "AServer.srvId", srv0),
			loc("idx0", "AServerRequestVote.idx", srv1), loc("srvId0", "AServerRequestVote.srvId", srv1),
			loc("idx1", "AServerAppendEntries.idx", srv2), loc("srvId1", "AServerAppendEntries.srvId", srv2),
			loc("newCommitIndex", "AServerAdvanceCommitIndex.newCommitIndex", srv3), loc("srvId2", "AServerAdvanceCommitIndex.srvId", srv3),
			loc("srvId3", "AServerBecomeLeader.srvId", srv4),
			loc("leader0", "AClient.leader", r.Clients), loc("req", "AClient.req", r.Clients), loc("resp", "AClient.resp", r.Clients),
			loc("reqIdx", "AClient.reqIdx", r.Clients)},
		Actions: []string{"serverLoop", "handleMsg", "serverRequestVoteLoop", "requestVoteLoop", "serverAppendEntriesLoop", "appendEntriesLoop",
			"serverAdvanceCommitIndexLoop", "applyLoop", "serverBecomeLeaderLoop", "clientLoop", "sndReq", "rcvResp"}}
}

func TestC02RaftKVS(t *testing.T) {
	g := newGroups()
	rapid.Check(t, func(t *rapid.T) {
		if vstat.OverBudget() {
			return
		}
		vstat.Case()
		var p *spectrace.Pair
		var tr spectrace.Trace
		var before spectrace.State
		aborts := 0
		truncated := false
		run, msg := sysbind.DriveRaft(t, sysbind.RaftDriveOpts{MinClients: 2, MaxClients: 2, MaxSteps: raftMaxSteps, SpecChannels: true, PreCommitRefusals: true,
			ServersFrom: []int{2, 3, 3, 3, 5}, CapsFrom: []int{3, 100, 100, 100},
			OnStart: func(run *sysbind.RaftRun) {
				p = raftPair(run.R)
				raftUnrepresentable = false
				tr.Init = p.Snapshot()
				before = tr.Init
			},
			Done: func(*sysbind.RaftRun) bool { return truncated },
			OnCommit: func(run *sysbind.RaftRun, in *sched.Instance, st sched.Step) string {
				if truncated {
					return ""
				}
				post := p.Snapshot()
				if raftUnrepresentable {
					// the trace ends before this state (TLC could not even read it)
					truncated = true
					vstat.Class("raftkvs.trace-ended-early.state-not-representable-in-TLC")
					return ""
				}
				lbl := spectrace.Label(st.PC)
				tr.Steps = append(tr.Steps, spectrace.Step{Lbl: lbl, Who: spectrace.RenderValue(in.Self), Post: post})
				vstat.Class("raftkvs.label." + lbl)
				if len(st.Event.Elements) > 2 {
					key := "raftkvs|" + lbl + "|" + fmt.Sprint(before)
					vstat.NonTrivial(key, func() string {
						return fmt.Sprintf("raftkvs: %s(%s), servers=%d", lbl, spectrace.RenderValue(in.Self), run.R.O.NumServers)
					})
				}
				before = post
				return ""
			},
			OnAbort: func(run *sysbind.RaftRun, in *sched.Instance, st sched.Step) string {
				// rendering the whole state is the expensive part: aborted attempts that wrote something are always
				// compared, the others (most attempts: an empty mailbox) every eighth time
				wrote := false
				for _, el := range st.Event.Elements {
					if _, isW := el.(trace.WriteElement); isW {
						wrote = true
					}
				}
				aborts++
				if truncated || (!wrote && aborts%8 != 0) {
					return ""
				}
				after := p.Snapshot()
				for k, v := range before {
					if after[k] != v {
						return fmt.Sprintf("the spec variable %s changed from %s to %s", k, v, after[k])
					}
				}
				return ""
			},
		})
		if msg != "" {
			t.Fatalf("raftkvs: %s\n%s", msg, tailStr(run.Hist.String(), 3000))
		}
		if p != nil {
			g.add(p, tr)
		}
	})
	g.judgeAll(t, "raftkvs")
}

func tailStr(s string, n int) string { return tail(s, n) }

var raftMaxSteps = func() int {
	if v := os.Getenv("VERIF_C02_RAFT_STEPS"); v != "" {
		var n int
		fmt.Sscan(v, &n)
		if n > 0 {
			return n
		}
	}
	return 1500
}()
