// Package tlcx runs TLC (tla2tools.jar) as an oracle: constant expressions through
// tlc2.REPL, traces through the model checker. Nothing here explores; it answers
// questions about cases the generators produced.
package tlcx

import (
	"bufio"
	"bytes"
	"context"
	"fmt"
	"os"
	"os/exec"
	"path/filepath"
	"strings"
	"sync"
	"time"

	"verif/harness/vstat"
)

const Jar = "/opt/veriftools/tla/tla2tools.jar"

// Answer is TLC's reaction to one expression.
type Answer struct {
	Text    string // the printed value, or the error text
	Error   bool
	Timeout bool
}

func scratch() (string, error) {
	base := os.Getenv("TMPDIR")
	if base == "" {
		base = os.TempDir()
	}
	return os.MkdirTemp(base, "verif-tlc-")
}

// EvalBatch evaluates the expressions (each one line of TLA+), restarting the
// REPL after any expression that TLC does not finish within its time slice; such
// an expression gets Answer{Timeout: true}.
func EvalBatch(exprs []string) ([]Answer, error) {
	answers := make([]Answer, len(exprs))
	for from := 0; from < len(exprs); {
		if dl := vstat.DeadlineAt(1.5); !dl.IsZero() && time.Now().After(dl) {
			// the shard's wall budget is spent (a slow or busy machine): the rest is not judged, and says so
			for i := from; i < len(exprs); i++ {
				answers[i] = Answer{Text: "not submitted: the shard's time budget was spent", Timeout: true}
			}
			vstat.ClassN("budget.tlc-expressions-not-submitted", int64(len(exprs)-from))
			break
		}
		done, err := evalSome(exprs, from, answers)
		if err != nil {
			return nil, err
		}
		if done < len(exprs) {
			answers[done] = Answer{Text: "TLC did not finish this expression in its time slice", Timeout: true}
			done++
		}
		from = done
	}
	return answers, nil
}

// evalSome runs one REPL process on exprs[from:], fills answers, and returns the
// index of the first expression left unanswered (len(exprs) if all were).
func evalSome(exprs []string, from int, answers []Answer) (int, error) {
	dir, err := scratch()
	if err != nil {
		return from, err
	}
	defer os.RemoveAll(dir)
	var in bytes.Buffer
	for i := from; i < len(exprs); i++ {
		if strings.ContainsAny(exprs[i], "\n\r") {
			return from, fmt.Errorf("expression %d contains a line break", i)
		}
		fmt.Fprintf(&in, "%s\n\"@@S%d@@\"\n", exprs[i], i)
	}
	// generous slice: JVM start + 0.25 s per expression + 20 s for the slowest one
	limit := 25*time.Second + time.Duration(len(exprs)-from)*250*time.Millisecond
	ctx, cancel := context.WithTimeout(context.Background(), limit)
	defer cancel()
	cmd := exec.CommandContext(ctx, "java", "-XX:+UseSerialGC", "-XX:TieredStopAtLevel=1", "-Xmx1g", "-Xss8m", "-Djava.io.tmpdir="+dir, "-Duser.home="+dir, "-cp", Jar, "tlc2.REPL")
	cmd.Dir = dir
	cmd.Stdin = &in
	var out bytes.Buffer
	cmd.Stdout = &out
	cmd.Stderr = &out
	runErr := cmd.Run()
	timedOut := ctx.Err() != nil
	if runErr != nil && !timedOut {
		return from, fmt.Errorf("tlc2.REPL: %v\n%s", runErr, tail(out.String(), 2000))
	}
	text := out.String()
	if i := strings.Index(text, "(tla+) "); i >= 0 {
		text = text[i:]
	}
	pos := 0
	for i := from; i < len(exprs); i++ {
		mark := fmt.Sprintf("(tla+) \"@@S%d@@\"", i)
		j := strings.Index(text[pos:], mark)
		if j < 0 {
			if timedOut {
				return i, nil
			}
			return from, fmt.Errorf("REPL output lost track at expression %d (%s)\n%s", i, exprs[i], tail(text, 1500))
		}
		chunk := stripJlineNoise(text[pos : pos+j])
		pos += j + len(mark)
		chunk = strings.TrimSpace(strings.TrimPrefix(strings.TrimSpace(chunk), "(tla+)"))
		if chunk == "" || strings.HasPrefix(chunk, "Error evaluating expression") || strings.Contains(chunk, "Exception") || strings.Contains(chunk, "Attempted to") || strings.Contains(chunk, "rror") {
			answers[i] = Answer{Text: chunk, Error: true}
		} else {
			answers[i] = Answer{Text: chunk}
		}
	}
	return len(exprs), nil
}

func tail(s string, n int) string {
	if len(s) > n {
		return s[len(s)-n:]
	}
	return s
}

// EvalParallel spreads the expressions over procs REPL processes.
func EvalParallel(exprs []string, procs int) ([]Answer, error) {
	if procs < 1 {
		procs = 1
	}
	if procs > len(exprs) {
		procs = len(exprs)
	}
	if procs == 0 {
		return nil, nil
	}
	out := make([]Answer, len(exprs))
	var wg sync.WaitGroup
	errs := make([]error, procs)
	for p := 0; p < procs; p++ {
		lo, hi := p*len(exprs)/procs, (p+1)*len(exprs)/procs
		wg.Add(1)
		go func(p, lo, hi int) {
			defer wg.Done()
			a, err := EvalBatch(exprs[lo:hi])
			if err != nil {
				errs[p] = err
				return
			}
			copy(out[lo:hi], a)
		}(p, lo, hi)
	}
	wg.Wait()
	for _, e := range errs {
		if e != nil {
			return nil, e
		}
	}
	return out, nil
}

var _ = bufio.NewReader
var _ = filepath.Join

// stripJlineNoise removes what the REPL's line reader logs about its own history file (it keeps one per user home and
// trims it now and then; with several REPLs at once the trim of one can fail under the other). The REPL is started with
// a private user.home, so this should not occur; if it does, it is not part of TLC's answer.
func stripJlineNoise(chunk string) string {
	if !strings.Contains(chunk, "org.jline") {
		return chunk
	}
	var keep []string
	skipping := false
	for _, line := range strings.Split(chunk, "\n") {
		t := strings.TrimSpace(line)
		switch {
		case strings.Contains(t, "org.jline.utils.Log"):
			skipping = true
			continue
		case skipping && (strings.HasPrefix(t, "WARNING:") || strings.HasPrefix(t, "at ") || strings.HasPrefix(t, "java.") || strings.HasPrefix(t, "Caused by") || strings.HasPrefix(t, "...") || t == ""):
			continue
		}
		skipping = false
		keep = append(keep, line)
	}
	return strings.Join(keep, "\n")
}
