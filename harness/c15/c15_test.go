// C15 — the generated lock service grants the lock to one client at a time, in arrival order.
package c15

import (
	"fmt"
	"io"
	"log"
	"strings"
	"testing"

	"github.com/DistCompiler/pgo/distsys/tla"
	"github.com/DistCompiler/pgo/distsys/trace"
	"pgregory.net/rapid"

	"verif/harness/sched"
	"verif/harness/sysbind"
	"verif/harness/tlx"
	"verif/harness/vstat"
)

func TestMain(m *testing.M) {
	log.SetOutput(io.Discard)
	vstat.Main(m, "C15")
}

func num(v tla.Value) int { return int(v.AsNumber()) }

func TestC15LockService(t *testing.T) {
	rapid.Check(t, func(t *rapid.T) {
		if vstat.OverBudget() {
			return
		}
		vstat.Case()
		n := rapid.IntRange(1, 8).Draw(t, "clients")
		ls := sysbind.NewLockSvc(n,
			func(what string, k int) int { return rapid.IntRange(0, k-1).Draw(t, what) },
			func(in *sched.Instance, id string, k uint) uint { return uint(rapid.IntRange(0, int(k)-1).Draw(t, id)) })
		// the deployed mailboxes refuse a send they cannot deliver (failed dial) or a section at pre-commit; the section
		// then aborts and is retried — it must not go on differently
		ls.Store.RefuseWritePct = rapid.SampledFrom([]int{0, 0, 10, 30}).Draw(t, "write-refusals")
		ls.Store.RefusePct = rapid.SampledFrom([]int{0, 0, 5, 20}).Draw(t, "precommit-refusals")
		if err := ls.Sim.Start(); err != nil {
			t.Fatalf("INCONCLUSIVE: %v", err)
		}
		defer ls.Sim.Shutdown()
		var hist strings.Builder
		var arrivals, grants []int
		requested := map[int]bool{}
		maxQueue := 0
		check := func(in *sched.Instance, st sched.Step) {
			// mutual exclusion over the spec state
			holders := 0
			hl := ls.Store.Vars["hasLock"]
			for i := range hl.Ks {
				if hl.Vs[i].B {
					holders++
				}
			}
			if holders > 1 {
				t.Fatalf("two clients hold the lock: hasLock = %s\n%s", hl, hist.String())
			}
			for _, el := range st.Event.Elements {
				switch e := el.(type) {
				case trace.ReadElement:
					if in == ls.Server && e.Name == "network" && st.PC == "AServer.serverReceive" {
						m := e.Value
						if num(m.ApplyFunction(tla.MakeString("type"))) == 1 {
							arrivals = append(arrivals, num(m.ApplyFunction(tla.MakeString("from"))))
						}
					}
				case trace.WriteElement:
					if e.Name == "network" && in == ls.Server {
						to := num(e.Indices[0])
						if !e.Value.IsNumber() || num(e.Value) != 3 {
							t.Fatalf("server sent %v, not a grant\n%s", e.Value, hist.String())
						}
						if !requested[to] {
							t.Fatalf("lock granted to client %d, which has no outstanding request\n%s", to, hist.String())
						}
						for _, g := range grants {
							if g == to {
								t.Fatalf("client %d was granted the lock twice for one request\n%s", to, hist.String())
							}
						}
						grants = append(grants, to)
						if len(grants) > len(arrivals) || arrivals[len(grants)-1] != to {
							t.Fatalf("grant #%d went to client %d, but requests reached the server in order %v\n%s", len(grants), to, arrivals, hist.String())
						}
					}
					if e.Name == "network" && in != ls.Server && st.PC == "AClient.acquireLock" {
						requested[num(in.Self)] = true
					}
				}
			}
			if q := len(arrivals) - countUnlocks(hist.String()); q > maxQueue {
				maxQueue = q
			}
		}
		budget := rapid.IntRange(20, 60*n+40).Draw(t, "steps")
		for step := 0; step < budget; step++ {
			var live []*sched.Instance
			for _, in := range ls.Sim.Insts {
				if in.Live {
					live = append(live, in)
				}
			}
			if len(live) <= 1 && !ls.Clients[0].Live {
				allDone := true
				for _, c := range ls.Clients {
					if c.Live {
						allDone = false
					}
				}
				if allDone {
					break
				}
			}
			in := live[rapid.IntRange(0, len(live)-1).Draw(t, "who")]
			st := ls.Sim.Step(in)
			switch st.Kind {
			case sched.Committed:
				fmt.Fprintf(&hist, "%s commits %s\n", in.Name, st.PC)
				check(in, st)
				if st.Err != nil {
					t.Fatalf("%s ended with %v\n%s", in.Name, st.Err, hist.String())
				}
			case sched.Aborted:
				vstat.Class("attempt.aborted")
			case sched.Exited:
				if st.Err != nil {
					t.Fatalf("%s failed: %v\n%s", in.Name, st.Err, hist.String())
				}
			case sched.Stuck:
				t.Fatalf("INCONCLUSIVE: %s stuck at %s\n%s", in.Name, st.PC, hist.String())
			}
		}
		vstat.ClassN("grants", int64(len(grants)))
		if n >= 3 && maxQueue >= 3 {
			h := fmt.Sprintf("%d clients\n%s", n, hist.String())
			vstat.NonTrivial(h, func() string { return h })
		}
	})
}

func countUnlocks(h string) int { return strings.Count(h, "commits AClient.unlock") }

var _ = tlx.Int
