package sysbind

import (
	"fmt"

	"github.com/DistCompiler/pgo/distsys"
	"github.com/DistCompiler/pgo/distsys/resources"
	"github.com/DistCompiler/pgo/distsys/tla"
	"github.com/DistCompiler/pgo/distsys/trace"
	"github.com/DistCompiler/pgo/systems/dqueue"
	"github.com/DistCompiler/pgo/systems/gcounter"
	"github.com/DistCompiler/pgo/systems/loadbalancer"
	"github.com/DistCompiler/pgo/systems/proxy"

	"verif/harness/sched"
	"verif/harness/specenv"
	"verif/harness/tlx"
)

// Sys is a small generated system under the scheduler on a spec-faithful environment.
type Sys struct {
	Sim   *sched.Sim
	Store *specenv.Store
	Named map[string][]*sched.Instance
}

func newSys(draw func(string, int) int, choose func(*sched.Instance, string, uint) uint) *Sys {
	s := &Sys{Sim: sched.New(), Store: specenv.NewStore(), Named: map[string][]*sched.Instance{}}
	s.Sim.Draw = draw
	s.Sim.Choose = choose
	s.Store.Pick = func(what string, k int) int { return s.Sim.Ask(what, k) }
	s.Store.Closing = func() bool { return s.Sim.Closing }
	s.Sim.Begin = func(*sched.Instance, string) { s.Store.Begin() }
	s.Sim.End = func(_ *sched.Instance, _ string, ev trace.Event) { s.Store.End(ev.IsAbort) }
	return s
}

func (s *Sys) add(group, name string, self int, arch distsys.MPCalArchetype, cfg ...distsys.MPCalContextConfigFn) {
	in := s.Sim.Add(name, tla.MakeNumber(int32(self)), arch, cfg...)
	s.Named[group] = append(s.Named[group], in)
}

func seqOfEmpty(from, to int) tlx.Val {
	var ks, vs []tlx.Val
	for i := from; i <= to; i++ {
		ks = append(ks, tlx.Int(int64(i)))
		vs = append(vs, tlx.Tup())
	}
	return tlx.Fn(ks, vs)
}

// NewDQueue: one producer (id 0) and n consumers (1..n) over bounded FIFO channels; the stream yields distinct items.
// SpecFaithfulStream makes NewDQueue use the spec's CyclicReads stream (items repeat) instead of distinct items.
var SpecFaithfulStream = false

func NewDQueue(n, bufSize int, draw func(string, int) int, choose func(*sched.Instance, string, uint) uint) *Sys {
	s := newSys(draw, choose)
	s.Store.Vars["network"] = seqOfEmpty(0, n)
	s.Store.Vars["processor"] = tlx.Int(0)
	s.Store.Vars["stream"] = tlx.Int(1000)
	stream := specenv.Counter()
	if SpecFaithfulStream {
		s.Store.Vars["stream"] = tlx.Int(0)
		stream = specenv.CyclicReads(bufSize)
	}
	consts := distsys.EnsureMPCalContextConfigs(
		distsys.DefineConstantValue("NUM_CONSUMERS", tla.MakeNumber(int32(n))),
		distsys.DefineConstantValue("PRODUCER", tla.MakeNumber(0)))
	net := func() distsys.MPCalContextConfigFn {
		return distsys.EnsureArchetypeRefParam("net", s.Store.Var("network", 1, specenv.TCPChannel(bufSize)))
	}
	s.add("producer", "Producer(0)", 0, dqueue.AProducer, consts, net(),
		distsys.EnsureArchetypeRefParam("s", s.Store.Var("stream", 0, stream)))
	for c := 1; c <= n; c++ {
		s.add("consumer", fmt.Sprintf("Consumer(%d)", c), c, dqueue.AConsumer, consts, net(),
			distsys.EnsureArchetypeRefParam("proc", s.Store.Var("processor", 0, specenv.Identity)))
	}
	return s
}

// NewLoadBalancer: load balancer id 0, servers 1..ns, clients ns+1..ns+nc.
func NewLoadBalancer(ns, nc, bufSize int, draw func(string, int) int, choose func(*sched.Instance, string, uint) uint) *Sys {
	s := newSys(draw, choose)
	s.Store.Vars["network"] = seqOfEmpty(0, ns+nc)
	s.Store.Vars["in"] = tlx.Int(0)
	s.Store.Vars["out"] = tlx.Int(0)
	s.Store.Vars["fs"] = tlx.Fn(nil, nil)
	consts := distsys.EnsureMPCalContextConfigs(
		distsys.DefineConstantValue("NUM_CLIENTS", tla.MakeNumber(int32(nc))),
		distsys.DefineConstantValue("NUM_SERVERS", tla.MakeNumber(int32(ns))),
		distsys.DefineConstantValue("LoadBalancerId", tla.MakeNumber(0)),
		distsys.DefineConstantValue("GET_PAGE", tla.MakeNumber(200)))
	mb := func() distsys.MPCalContextConfigFn {
		return distsys.EnsureArchetypeRefParam("mailboxes", s.Store.Var("network", 1, specenv.TCPChannel(bufSize)))
	}
	s.add("lb", "LoadBalancer(0)", 0, loadbalancer.ALoadBalancer, consts, mb())
	for i := 1; i <= ns; i++ {
		s.add("server", fmt.Sprintf("Server(%d)", i), i, loadbalancer.AServer, consts, mb(),
			distsys.EnsureArchetypeRefParam("file_system", &pageFS{self: i}))
	}
	for c := ns + 1; c <= ns+nc; c++ {
		s.add("client", fmt.Sprintf("Client(%d)", c), c, loadbalancer.AClient, consts, mb(),
			distsys.EnsureArchetypeRefParam("instream", s.Store.Var("in", 0, specenv.Counter())),
			distsys.EnsureArchetypeRefParam("outstream", s.Store.Var("out", 0, specenv.Identity)))
	}
	return s
}

// pageFS: file_system[path] yields a page naming the path and the serving server (WebPages macro, made informative).
type pageFS struct {
	distsys.ArchetypeResourceMapMixin
	self int
}

func (p *pageFS) Index(_ distsys.ArchetypeInterface, idx tla.Value) (distsys.ArchetypeResource, error) {
	page := tla.MakeRecord([]tla.RecordField{{Key: tla.MakeString("path"), Value: idx}, {Key: tla.MakeString("server"), Value: tla.MakeNumber(int32(p.self))}})
	return &fn{read: func() (tla.Value, error) { return page, nil }}, nil
}
func (p *pageFS) PreCommit(distsys.ArchetypeInterface) chan error { return nil }
func (p *pageFS) Commit(distsys.ArchetypeInterface) chan struct{} { return nil }
func (p *pageFS) Abort(distsys.ArchetypeInterface) chan struct{}  { return nil }
func (p *pageFS) Close() error                                    { return nil }

// ProxyFailChoice: the either of the proxy spec's mayFail macro (branch 1 = crash).
func ProxyFailChoice(id string) bool {
	return id == "AServer.serverLoop.0" || id == "AServer.serverRcvMsg.0" || id == "AServer.serverSendMsg.0"
}

// NewProxy: servers 1..ns, clients ns+1..ns+nc, proxy id ns+nc+1; perfect failure detector.
func NewProxy(ns, nc int, draw func(string, int) int, choose func(*sched.Instance, string, uint) uint) *Sys {
	s := newSys(draw, choose)
	nn := ns + nc + 1
	link := tlx.Rec(map[string]tlx.Val{"queue": tlx.Tup(), "enabled": tlx.Bool(true)})
	var nk, nv, ids, fdv []tlx.Val
	for id := 1; id <= nn; id++ {
		ids = append(ids, tlx.Int(int64(id)))
		fdv = append(fdv, tlx.Bool(false))
		for typ := 1; typ <= 4; typ++ {
			nk = append(nk, tlx.Tup(tlx.Int(int64(id)), tlx.Int(int64(typ))))
			nv = append(nv, link)
		}
	}
	s.Store.Vars["network"] = tlx.Fn(nk, nv)
	s.Store.Vars["fd"] = tlx.Fn(ids, fdv)
	s.Store.Vars["output"] = tlx.Tup()
	s.Store.Vars["input"] = tlx.Int(0)
	consts := distsys.EnsureMPCalContextConfigs(
		distsys.DefineConstantValue("NUM_SERVERS", tla.MakeNumber(int32(ns))),
		distsys.DefineConstantValue("NUM_CLIENTS", tla.MakeNumber(int32(nc))),
		distsys.DefineConstantValue("EXPLORE_FAIL", tla.ModuleTRUE),
		distsys.DefineConstantValue("CLIENT_RUN", tla.ModuleTRUE))
	net := func() distsys.MPCalContextConfigFn {
		return distsys.EnsureArchetypeRefParam("net", s.Store.Var("network", 1, specenv.FIFOLinkRecord()))
	}
	fd := func() distsys.MPCalContextConfigFn {
		return distsys.EnsureArchetypeRefParam("fd", s.Store.Var("fd", 1, specenv.Identity))
	}
	s.add("proxy", fmt.Sprintf("Proxy(%d)", nn), nn, proxy.AProxy, consts, net(), fd())
	for i := 1; i <= ns; i++ {
		s.add("server", fmt.Sprintf("Server(%d)", i), i, proxy.AServer, consts, net(), fd(),
			distsys.EnsureArchetypeRefParam("netEnabled", s.Store.Var("network", 1, specenv.NetworkToggle())))
	}
	for c := ns + 1; c <= ns+nc; c++ {
		s.add("client", fmt.Sprintf("Client(%d)", c), c, proxy.AClient, consts, net(),
			distsys.EnsureArchetypeRefParam("input", s.Store.Var("input", 0, specenv.Counter())),
			distsys.EnsureArchetypeRefParam("output", s.Store.Var("output", 0, specenv.Identity)))
	}
	return s
}

// CRDTEnv gives each node of a CRDT-based system a real CRDT value (resources.GCounter, ...)
// behind a transactional harness resource; merges between nodes happen when the test schedules them.
type CRDTEnv struct {
	Vals   map[int]resources.CRDTValue
	snap   map[int]resources.CRDTValue
	closed func() bool
}

func (e *CRDTEnv) begin() {
	e.snap = make(map[int]resources.CRDTValue, len(e.Vals))
	for k, v := range e.Vals {
		e.snap[k] = v
	}
}
func (e *CRDTEnv) end(abort bool) {
	if abort {
		e.Vals = e.snap
	}
	e.snap = nil
}

// Merge folds node j's state into node i and back (the spec's UpdateGCntr step).
func (e *CRDTEnv) Merge(i, j int) {
	m := e.Vals[i].Merge(e.Vals[j])
	e.Vals[i], e.Vals[j] = m, m
}

func (e *CRDTEnv) resource() distsys.ArchetypeResource {
	return &indexed{at: func(idx tla.Value) distsys.ArchetypeResource {
		node := int(idx.AsNumber())
		return &fn{
			read: func() (tla.Value, error) {
				if e.closed() {
					return tla.Value{}, errAbort
				}
				return e.Vals[node].Read(), nil
			},
			write: func(v tla.Value) error {
				if e.closed() {
					return errAbort
				}
				e.Vals[node] = e.Vals[node].Write(idx, v)
				return nil
			},
		}
	}}
}

// NewGCounterSys: n ANode (or ANodeBench with the given rounds) archetypes of systems/gcounter over real GCounter values.
func NewGCounterSys(n int, benchRounds int, draw func(string, int) int, choose func(*sched.Instance, string, uint) uint) (*Sys, *CRDTEnv) {
	s := newSys(draw, choose)
	env := &CRDTEnv{Vals: map[int]resources.CRDTValue{}, closed: func() bool { return s.Sim.Closing }}
	var ids, empties []tlx.Val
	for i := 1; i <= n; i++ {
		env.Vals[i] = resources.GCounter{}.Init()
		ids = append(ids, tlx.Int(int64(i)))
		empties = append(empties, tlx.Set())
	}
	s.Store.Vars["c"] = tlx.Fn(ids, empties)
	s.Store.Vars["out"] = tlx.Int(0)
	b, e := s.Sim.Begin, s.Sim.End
	s.Sim.Begin = func(in *sched.Instance, pc string) { b(in, pc); env.begin() }
	s.Sim.End = func(in *sched.Instance, pc string, ev trace.Event) { e(in, pc, ev); env.end(ev.IsAbort) }
	consts := distsys.EnsureMPCalContextConfigs(
		distsys.DefineConstantValue("NUM_NODES", tla.MakeNumber(int32(n))),
		distsys.DefineConstantValue("BENCH_NUM_ROUNDS", tla.MakeNumber(int32(benchRounds))))
	union := specenv.Macro{
		Read: specenv.Identity.Read,
		Write: func(_ *specenv.Store, cur tlx.Val, v tlx.Val, _ string) (tlx.Val, bool) {
			return tlx.Set(append(append([]tlx.Val{}, cur.E...), v.E...)...), true
		},
	}
	for i := 1; i <= n; i++ {
		if benchRounds > 0 {
			s.add("node", fmt.Sprintf("NodeBench(%d)", i), i, gcounter.ANodeBench, consts,
				distsys.EnsureArchetypeRefParam("cntr", env.resource()),
				distsys.EnsureArchetypeRefParam("out", s.Store.Var("out", 0, specenv.Identity)))
		} else {
			s.add("node", fmt.Sprintf("Node(%d)", i), i, gcounter.ANode, consts,
				distsys.EnsureArchetypeRefParam("cntr", env.resource()),
				distsys.EnsureArchetypeRefParam("c", s.Store.Var("c", 1, union)))
		}
	}
	return s, env
}
