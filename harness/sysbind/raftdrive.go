package sysbind

import (
	"fmt"
	"sort"
	"strings"

	"github.com/DistCompiler/pgo/distsys/tla"
	"pgregory.net/rapid"

	"verif/harness/sched"
)

// RaftRun is one scheduled execution with everything the oracles need.
type RaftRun struct {
	R        *Raft
	Hist     strings.Builder
	Steps    int
	Commits  int
	Crashes  []int
	Requests map[int][]tla.Value // per client, in submission order
	StepNo   int                 // global index of the attempt being judged
}

type RaftDriveOpts struct {
	MinClients, MaxClients int
	MaxSteps               int
	// OnCommit is called after every committed attempt; a non-empty string is a violation.
	OnCommit func(run *RaftRun, in *sched.Instance, st sched.Step) string
	// OnAbort is called after every aborted attempt (nothing may have changed).
	OnAbort func(run *RaftRun, in *sched.Instance, st sched.Step) string
	// AtEnd is called once after the last scheduled attempt, before the instances are shut down
	// (shutting down grants further attempts, which may still commit purely local steps).
	AtEnd func(run *RaftRun) string
	// Done: stop early (e.g. all requests answered); checked every few steps.
	Done func(run *RaftRun) bool
	// OnStart is called once every instance is parked at its first label (the spec's initial state).
	OnStart func(run *RaftRun)
	// SpecChannels: see RaftOpts.
	SpecChannels bool
	// PreCommitRefusals: draw a probability with which the network refuses sections at pre-commit.
	PreCommitRefusals bool
	// ServersFrom / CapsFrom, when set, replace the default choices of cluster size and mailbox capacity
	// (C02 groups its traces by constant assignment: fewer assignments, fewer TLC runs).
	ServersFrom, CapsFrom []int
}

func pctDraw(t *rapid.T) func(string, int) bool {
	return func(what string, pct int) bool {
		if pct <= 0 {
			return false
		}
		if pct >= 100 {
			return true
		}
		return rapid.IntRange(0, 99).Draw(t, what) < pct
	}
}

// DriveRaft draws a configuration, a workload, a crash plan and a schedule, and runs it.
func DriveRaft(t *rapid.T, d RaftDriveOpts) (*RaftRun, string) {
	serversFrom, capsFrom := []int{1, 2, 3, 3, 3, 4, 5, 5}, []int{3, 10, 100, 100}
	if len(d.ServersFrom) > 0 {
		serversFrom = d.ServersFrom
	}
	if len(d.CapsFrom) > 0 {
		capsFrom = d.CapsFrom
	}
	n := rapid.SampledFrom(serversFrom).Draw(t, "servers")
	nc := rapid.IntRange(d.MinClients, d.MaxClients).Draw(t, "clients")
	o := RaftOpts{
		NumServers: n, NumClients: nc,
		Persist:          rapid.IntRange(0, 3).Draw(t, "persist") == 0,
		MailboxCap:       rapid.SampledFrom(capsFrom).Draw(t, "mailboxcap"),
		Pick:             func(what string, k int) int { return rapid.IntRange(0, k-1).Draw(t, what) },
		Pct:              pctDraw(t),
		ElectPct:         rapid.SampledFrom([]int{2, 5, 15, 40}).Draw(t, "electpct"),
		ElectPctOf:       map[int]int{},
		ClientTimeoutPct: rapid.SampledFrom([]int{0, 2, 10}).Draw(t, "clienttimeoutpct"),
		FalseSuspectPct:  rapid.SampledFrom([]int{0, 0, 5}).Draw(t, "falsesuspectpct"),
		SpecChannels:     d.SpecChannels,
	}
	if d.PreCommitRefusals {
		o.PreCommitRefusePct = rapid.SampledFrom([]int{0, 0, 2, 10}).Draw(t, "precommit-refusals")
	}
	if rapid.Bool().Draw(t, "uneven-timeouts") {
		// servers time out at different rates, so that elections are not all split votes
		for s := 1; s <= n; s++ {
			o.ElectPctOf[s] = rapid.SampledFrom([]int{0, 2, 10, 40}).Draw(t, "electpct-of")
		}
	}
	r := NewRaft(o, func(in *sched.Instance, id string, k uint) uint { return uint(rapid.IntRange(0, int(k)-1).Draw(t, id)) })
	run := &RaftRun{R: r, Requests: map[int][]tla.Value{}}
	if err := r.Sim.Start(); err != nil {
		return run, "INCONCLUSIVE: " + err.Error()
	}
	defer func() {
		r.Sim.Shutdown()
		r.Close()
	}()
	if d.OnStart != nil {
		d.OnStart(run)
	}
	// workload
	keys := []string{"k1", "k2", "k3"}[:rapid.IntRange(1, 3).Draw(t, "keys")]
	tok := 0
	for c := 1; c <= nc; c++ {
		self := 6*n + c
		for i, m := 0, rapid.IntRange(1, 4).Draw(t, "ops"); i < m; i++ {
			key := keys[rapid.IntRange(0, len(keys)-1).Draw(t, "key")]
			var req tla.Value
			if rapid.IntRange(0, 9).Draw(t, "isput") < 6 {
				tok++
				req = tla.MakeRecord([]tla.RecordField{
					{Key: tla.MakeString("type"), Value: tla.MakeString("put")},
					{Key: tla.MakeString("key"), Value: tla.MakeString(key)},
					{Key: tla.MakeString("value"), Value: tla.MakeString(fmt.Sprintf("v%d", tok))}})
			} else {
				req = tla.MakeRecord([]tla.RecordField{
					{Key: tla.MakeString("type"), Value: tla.MakeString("get")},
					{Key: tla.MakeString("key"), Value: tla.MakeString(key)}})
			}
			r.Submit(self, req)
			run.Requests[self] = append(run.Requests[self], req)
		}
	}
	// crash plan: a minority, at drawn steps
	maxCrash := (n - 1) / 2
	crashAt := map[int]int{}
	budget := rapid.SampledFrom([]int{300, 800, 1500, 2500, 4000}).Draw(t, "steps")
	if budget > d.MaxSteps {
		budget = d.MaxSteps
	}
	for i, k := 0, rapid.IntRange(0, maxCrash).Draw(t, "crashes"); i < k; i++ {
		s := rapid.IntRange(1, n).Draw(t, "crash-server")
		if _, dup := crashAt[s]; !dup {
			crashAt[s] = rapid.IntRange(0, budget).Draw(t, "crash-step")
		}
	}
	fdDelay := rapid.IntRange(0, 100).Draw(t, "fd-delay")
	// partitions: every so many attempts a new set of cut-off servers is drawn (their traffic waits)
	partitionEvery := rapid.SampledFrom([]int{0, 0, 150, 400}).Draw(t, "partition-every")
	nextPartition := partitionEvery
	// nemesis: a leader that has just appended an entry is cut off (with this probability) for a drawn number of
	// attempts, so that entries stay unreplicated on deposed leaders — the situations log repair and the commit rule exist for
	nemesisPct := rapid.SampledFrom([]int{0, 0, 25, 60}).Draw(t, "cut-off-leader-on-append")
	healAt := -1
	logLen := make([]int, n+1)
	var all []*sched.Instance
	for _, g := range r.Servers {
		all = append(all, g...)
	}
	all = append(all, r.Clients...)
	byNode := map[int][]*sched.Instance{}
	for _, in := range all {
		byNode[r.NodeOf(in)] = append(byNode[r.NodeOf(in)], in)
	}
	_ = byNode
	for step := 0; step < budget; {
		for s := 1; s <= n; s++ {
			at, planned := crashAt[s]
			if !planned {
				continue
			}
			if step >= at && !r.Crashed[s] {
				r.Crashed[s] = true
				run.Crashes = append(run.Crashes, s)
				fmt.Fprintf(&run.Hist, "-- server %d crashes (step %d)\n", s, step)
			}
			if step >= at+fdDelay && r.Crashed[s] {
				r.FDKnows[s] = true
			}
		}
		if healAt >= 0 && step >= healAt {
			healAt = -1
			r.Isolate(map[int]bool{})
			fmt.Fprintf(&run.Hist, "-- network healed at step %d\n", step)
		}
		if partitionEvery > 0 && step >= nextPartition && healAt < 0 {
			nextPartition = step + partitionEvery
			iso := map[int]bool{}
			if rapid.IntRange(0, 3).Draw(t, "partition-on") > 0 {
				for s := 1; s <= n; s++ {
					if rapid.IntRange(0, 2).Draw(t, "cut-off") == 0 {
						iso[s] = true
					}
				}
			}
			r.Isolate(iso)
			if len(iso) > 0 {
				fmt.Fprintf(&run.Hist, "-- servers %v are cut off from step %d\n", sortedKeys(iso), step)
			} else {
				fmt.Fprintf(&run.Hist, "-- network healed at step %d\n", step)
			}
		}
		var cand []*sched.Instance
		total := 0
		for _, in := range all {
			if in.Live && !(r.NodeOf(in) <= n && r.Crashed[r.NodeOf(in)]) {
				cand = append(cand, in)
				// bias: instances whose next attempt can probably commit get most of the turns; the
				// leader's always-enabled loops get fewer, so that they do not crowd out everything else
				w := 1
				if en, steady := r.LikelyEnabled(in); en {
					w = 12
					if steady {
						w = 3
					}
				}
				r.Weight[in] = w
				total += w
			}
		}
		if len(cand) == 0 {
			break
		}
		x := rapid.IntRange(0, total-1).Draw(t, "who")
		var in *sched.Instance
		for _, c := range cand {
			if x < r.Weight[c] {
				in = c
				break
			}
			x -= r.Weight[c]
		}
		burst := rapid.IntRange(1, 4).Draw(t, "burst")
		for b := 0; b < burst && step < budget; b++ {
			run.StepNo = step
			st := r.Sim.Step(in)
			step++
			run.Steps++
			switch st.Kind {
			case sched.Committed:
				run.Commits++
				fmt.Fprintf(&run.Hist, "%d: %s commits %s\n", step-1, in.Name, short(st.PC))
				if node := r.NodeOf(in); nemesisPct > 0 && node <= n {
					l := r.Shadow[node-1]["log"].AsTuple().Len()
					if l > logLen[node] && r.Shadow[node-1]["state"].AsString() == "leader" && n > 1 && healAt < 0 &&
						rapid.IntRange(0, 99).Draw(t, "cut-off-now") < nemesisPct {
						r.Isolate(map[int]bool{node: true})
						healAt = step + rapid.SampledFrom([]int{40, 120, 300}).Draw(t, "cut-off-for")
						nextPartition = healAt + partitionEvery
						fmt.Fprintf(&run.Hist, "-- leader %d is cut off after appending entry %d (until step %d)\n", node, l, healAt)
					}
					logLen[node] = l
				}
				if st.Err != nil {
					return run, fmt.Sprintf("%s ended with an error: %v", in.Name, st.Err)
				}
				if d.OnCommit != nil {
					if msg := d.OnCommit(run, in, st); msg != "" {
						return run, msg
					}
				}
			case sched.Aborted:
				b = burst
				if d.OnAbort != nil {
					if msg := d.OnAbort(run, in, st); msg != "" {
						return run, fmt.Sprintf("after an ABORTED attempt of %s at %s: %s", in.Name, st.PC, msg)
					}
				}
			case sched.Exited:
				if st.Err != nil {
					return run, fmt.Sprintf("%s failed: %v", in.Name, st.Err)
				}
				b = burst
			case sched.Stuck:
				return run, fmt.Sprintf("INCONCLUSIVE: %s stuck at %s", in.Name, st.PC)
			default:
				b = burst
			}
		}
		if d.Done != nil && step%16 == 0 && d.Done(run) {
			break
		}
	}
	if d.AtEnd != nil {
		if msg := d.AtEnd(run); msg != "" {
			return run, msg
		}
	}
	return run, ""
}

func sortedKeys(m map[int]bool) []int {
	var ks []int
	for k := range m {
		ks = append(ks, k)
	}
	sort.Ints(ks)
	return ks
}

func short(pc string) string {
	if i := strings.IndexByte(pc, '.'); i >= 0 {
		return pc[i+1:]
	}
	return pc
}
