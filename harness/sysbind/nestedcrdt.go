package sysbind

import (
	"fmt"

	"github.com/DistCompiler/pgo/distsys"
	"github.com/DistCompiler/pgo/distsys/resources"
	"github.com/DistCompiler/pgo/distsys/tla"
	"github.com/DistCompiler/pgo/systems/nestedcrdtimpl"
	"github.com/benbjohnson/immutable"

	"verif/harness/sched"
	"verif/harness/specenv"
	"verif/harness/tlx"
)

// EmptyCell is the harness's EMPTY_CELL (the spec leaves the constant open).
var EmptyCell = tlx.Str("@@empty-cell@@")

// SingleCellChannel is NestedCRDTImpl.tla's mapping macro: a cell that holds at most one value.
func SingleCellChannel() specenv.Macro {
	return specenv.Macro{
		Read: func(_ *specenv.Store, cur tlx.Val, _ string) (tlx.Val, tlx.Val, bool) {
			if cur.K == tlx.KStr && cur.S == EmptyCell.S {
				return cur, tlx.Val{}, false
			}
			return EmptyCell, cur, true
		},
		Write: func(_ *specenv.Store, cur tlx.Val, v tlx.Val, _ string) (tlx.Val, bool) {
			if !(cur.K == tlx.KStr && cur.S == EmptyCell.S) {
				return cur, false
			}
			return v, true
		},
	}
}

// NewNestedCRDT: n instances of systems/nestedcrdtimpl's ACRDTResource (ids 1..n, each the others' peer) on the spec's
// environment: `in`/`out` single-cell channels, `network` bounded FIFO channels. The counter functions are the ones the
// shipped test rig configures (a grow-only counter: per-node maxima, own entry incremented, view = sum).
func NewNestedCRDT(n, bufSize int, draw func(string, int) int, choose func(*sched.Instance, string, uint) uint) *Sys {
	s := newSys(draw, choose)
	var ids, seqs, cells []tlx.Val
	for i := 1; i <= n; i++ {
		ids = append(ids, tlx.Int(int64(i)))
		seqs = append(seqs, tlx.Tup())
		cells = append(cells, EmptyCell)
	}
	s.Store.Vars["network"] = tlx.Fn(ids, seqs)
	s.Store.Vars["in"] = tlx.Fn(ids, cells)
	s.Store.Vars["out"] = tlx.Fn(ids, cells)
	consts := distsys.EnsureMPCalContextConfigs(
		resources.NestedArchetypeConstantDefs,
		distsys.DefineConstantValue("ZERO_VALUE", tla.MakeRecord(nil)),
		distsys.DefineConstantOperator("COMBINE_FN", func(lhs, rhs tla.Value) tla.Value {
			builder := immutable.NewMapBuilder[tla.Value, tla.Value](&tla.ValueHasher{})
			incorporate := func(fn tla.Value) {
				it := fn.AsFunction().Iterator()
				for !it.Done() {
					k, v, _ := it.Next()
					if v2, ok := builder.Get(k); ok {
						if v.AsNumber() > v2.AsNumber() {
							builder.Set(k, v)
						}
					} else {
						builder.Set(k, v)
					}
				}
			}
			incorporate(lhs)
			incorporate(rhs)
			return tla.MakeRecordFromMap(builder.Map())
		}),
		distsys.DefineConstantOperator("UPDATE_FN", func(self, state, v tla.Value) tla.Value {
			origVal := tla.ModuleZero
			if orig, ok := state.AsFunction().Get(self); ok {
				origVal = orig
			}
			return tla.MakeRecordFromMap(state.AsFunction().Set(self, tla.ModulePlusSymbol(origVal, v)))
		}),
		distsys.DefineConstantOperator("VIEW_FN", func(state tla.Value) tla.Value {
			var total int32
			it := state.AsFunction().Iterator()
			for !it.Done() {
				_, c, _ := it.Next()
				total += c.AsNumber()
			}
			return tla.MakeNumber(total)
		}),
	)
	for i := 1; i <= n; i++ {
		var peers []tla.Value
		for j := 1; j <= n; j++ {
			if j != i {
				peers = append(peers, tla.MakeNumber(int32(j)))
			}
		}
		s.add("resource", fmt.Sprintf("CRDTResource(%d)", i), i, nestedcrdtimpl.ACRDTResource, consts,
			distsys.EnsureArchetypeRefParam("in", s.Store.Var("in", 1, SingleCellChannel())),
			distsys.EnsureArchetypeRefParam("out", s.Store.Var("out", 1, SingleCellChannel())),
			distsys.EnsureArchetypeRefParam("network", s.Store.Var("network", 1, specenv.TCPChannel(bufSize))),
			distsys.EnsureArchetypeRefParam("peers", distsys.NewLocalArchetypeResource(tla.MakeSet(peers...))),
			distsys.EnsureArchetypeRefParam("timer", distsys.NewLocalArchetypeResource(tla.ModuleTRUE)))
	}
	return s
}
