package sysbind

import (
	"bytes"
	"encoding/gob"
	"fmt"
	"sort"
	"time"

	"github.com/DistCompiler/pgo/distsys"
	"github.com/DistCompiler/pgo/distsys/resources"
	"github.com/DistCompiler/pgo/distsys/tla"
	"github.com/DistCompiler/pgo/distsys/trace"
	"github.com/DistCompiler/pgo/systems/raftkvs"
	"github.com/dgraph-io/badger/v3"

	"verif/harness/hx"
	"verif/harness/sched"
)

// RaftOpts configures one run of the generated Raft KV store under the scheduler.
type RaftOpts struct {
	NumServers, NumClients int
	Persist                bool // real Persistent / PersistentLog over an in-memory badger, as bootstrap does with c.Persist
	MailboxCap             int
	// Pick resolves all environment nondeterminism: returns a number < n.
	Pick func(what string, n int) int
	// Pct answers "does this happen?" with the given probability in percent (a drawn decision).
	Pct func(what string, pct int) bool
	// swarm parameters of this run
	ElectPct, ClientTimeoutPct, FalseSuspectPct int
	ElectPctOf                                  map[int]int // per server; overrides ElectPct
	// PreCommitRefusePct: the network resource refuses a section at pre-commit with this probability (the deployed TCP
	// mailboxes do when a connection dies after the write); the section must then leave no trace.
	PreCommitRefusePct int
	// SpecChannels: AServer's writes to appendEntriesCh are queued as the spec's Channel macro says (the deployment binds
	// a Dummy there; what AppendEntries reads is TRUE either way), so that the spec variable can be rendered.
	SpecChannels bool
}

// Raft is the raftkvs spec/Go pair under the scheduler: real generated archetypes, real
// LocalShared state wired as bootstrap/server.go wires it, harness-owned network,
// failure detector, timers and channels.
type Raft struct {
	O       RaftOpts
	Sim     *sched.Sim
	Servers [][]*sched.Instance // [server-1][0..4]: AServer, RequestVote, AppendEntries, AdvanceCommitIndex, BecomeLeader
	Clients []*sched.Instance
	Mgrs    []map[string]*resources.LocalSharedManager // per server: variable -> manager
	dbs     []*badger.DB
	txn     []txnPart
	net     *fifoNet
	// environment state
	Crashed  map[int]bool
	FDKnows  map[int]bool
	reqQ     map[int]*queue // per client self id
	Resp     map[int][]tla.Value
	becomeCh map[int]*queue
	appendCh map[int]*queue
	// Shadow of every server variable, maintained from committed write events: [server][var]
	Shadow []map[string]tla.Value
	// spec view of plog (PersistentLog macro applied to the committed writes) and of respCh (last committed write)
	PlogSpec []tla.Value
	LastResp tla.Value
	// last committed write to leaderTimeout (the spec variable starts as TRUE and is only ever set to LeaderTimeoutReset)
	LeaderTimeout tla.Value
	// per-instance scheduling weight
	Weight map[*sched.Instance]int
	nodeOf map[*sched.Instance]int
}

var raftVars = []string{"state", "currentTerm", "log", "commitIndex", "nextIndex", "matchIndex", "votedFor", "votesResponded", "votesGranted", "leader", "sm", "smDomain"}

type txnPart interface {
	begin()
	end(abort bool)
}

// ---- harness resources -------------------------------------------------------------------------

type leaf struct {
	distsys.ArchetypeResourceLeafMixin
}

func (leaf) PreCommit(distsys.ArchetypeInterface) chan error { return nil }
func (leaf) Commit(distsys.ArchetypeInterface) chan struct{} { return nil }
func (leaf) Abort(distsys.ArchetypeInterface) chan struct{}  { return nil }
func (leaf) Close() error                                    { return nil }

// fn is a leaf resource given by closures.
type fn struct {
	leaf
	read  func() (tla.Value, error)
	write func(tla.Value) error
	// refuse, when set, is asked at PreCommit: true refuses the section (as a deployed mailbox may)
	refuse func() bool
}

func (f *fn) PreCommit(distsys.ArchetypeInterface) chan error {
	if f.refuse != nil && f.refuse() {
		ch := make(chan error, 1)
		ch <- errAbort
		return ch
	}
	return nil
}

func (f *fn) ReadValue(distsys.ArchetypeInterface) (tla.Value, error) {
	if f.read == nil {
		panic("harness: this resource is not read by the spec")
	}
	return f.read()
}
func (f *fn) WriteValue(_ distsys.ArchetypeInterface, v tla.Value) error {
	if f.write == nil {
		panic("harness: this resource is not written by the spec")
	}
	return f.write(v.StripVClock())
}

// indexed gives `ref x[_]` access to per-index leaf resources.
type indexed struct {
	distsys.ArchetypeResourceMapMixin
	at     func(idx tla.Value) distsys.ArchetypeResource
	refuse func() bool // see fn.refuse
}

func (m *indexed) Index(_ distsys.ArchetypeInterface, idx tla.Value) (distsys.ArchetypeResource, error) {
	return m.at(idx), nil
}
func (m *indexed) PreCommit(distsys.ArchetypeInterface) chan error {
	if m.refuse != nil && m.refuse() {
		ch := make(chan error, 1)
		ch <- errAbort
		return ch
	}
	return nil
}
func (m *indexed) Commit(distsys.ArchetypeInterface) chan struct{} { return nil }
func (m *indexed) Abort(distsys.ArchetypeInterface) chan struct{}  { return nil }
func (m *indexed) Close() error                                    { return nil }

var errAbort = distsys.ErrCriticalSectionAborted

type queue struct {
	items []tla.Value
	snap  []tla.Value
}

func (q *queue) begin() { q.snap = q.items }
func (q *queue) end(abort bool) {
	if abort {
		q.items = q.snap
	}
	q.snap = nil
}
func (q *queue) push(v tla.Value) { q.items = append(q.items[:len(q.items):len(q.items)], v) }
func (q *queue) pop() (tla.Value, bool) {
	if len(q.items) == 0 {
		return tla.Value{}, false
	}
	v := q.items[0]
	q.items = q.items[1:]
	return v, true
}

// fifoNet: per-(sender instance, destination) FIFO links; which link a read delivers from is drawn.
type fifoNet struct {
	links    map[string]*queue
	fromNode map[string]int
	cap      int
	// Isolated nodes neither receive nor have their queued messages delivered for now
	// (messages are only delayed, never lost): this is how partitions are scheduled.
	Isolated map[int]bool
}

func (n *fifoNet) begin() {
	for _, q := range n.links {
		q.begin()
	}
}
func (n *fifoNet) end(abort bool) {
	for _, q := range n.links {
		q.end(abort)
	}
}
func (n *fifoNet) link(from string, fromNode int, to int) *queue {
	k := fmt.Sprintf("%03d<%s", to, from)
	q, ok := n.links[k]
	if !ok {
		q = &queue{}
		n.links[k] = q
		n.fromNode[k] = fromNode
	}
	return q
}
func (n *fifoNet) pendingFor(to int) []*queue {
	var ks []string
	if n.Isolated[to] {
		return nil
	}
	p := fmt.Sprintf("%03d<", to)
	for k, q := range n.links {
		if len(k) >= 4 && k[:4] == p && len(q.items) > 0 && !n.Isolated[n.fromNode[k]] {
			ks = append(ks, k)
		}
	}
	sort.Strings(ks)
	out := make([]*queue, len(ks))
	for i, k := range ks {
		out[i] = n.links[k]
	}
	return out
}
func (n *fifoNet) count(to int) int {
	c := 0
	for _, q := range n.pendingFor(to) {
		c += len(q.items)
	}
	return c
}

// queued counts everything addressed to a node, deliverable now or not (for the buffer bound).
func (n *fifoNet) queued(to int) int {
	c := 0
	p := fmt.Sprintf("%03d<", to)
	for k, q := range n.links {
		if len(k) >= 4 && k[:4] == p {
			c += len(q.items)
		}
	}
	return c
}

// ---- construction ------------------------------------------------------------------------------------

func NewRaft(o RaftOpts, choose func(in *sched.Instance, id string, k uint) uint) *Raft {
	r := &Raft{O: o, Sim: sched.New(), Crashed: map[int]bool{}, FDKnows: map[int]bool{}, reqQ: map[int]*queue{}, Resp: map[int][]tla.Value{},
		becomeCh: map[int]*queue{}, appendCh: map[int]*queue{}, Weight: map[*sched.Instance]int{}, nodeOf: map[*sched.Instance]int{}}
	r.Sim.Choose = choose
	// environment decisions are requested from the running archetype's goroutine but drawn on the scheduler's
	pick, pct := o.Pick, o.Pct
	r.Sim.Draw = func(what string, k int) int {
		if len(what) > 4 && what[:4] == "pct:" {
			var p int
			var name string
			fmt.Sscanf(what[4:], "%d:%s", &p, &name)
			if pct(name, p) {
				return 1
			}
			return 0
		}
		return pick(what, k)
	}
	o.Pick = func(what string, k int) int { return r.Sim.Ask(what, k) }
	o.Pct = func(what string, p int) bool {
		if p <= 0 {
			return false
		}
		return r.Sim.Ask(fmt.Sprintf("pct:%d:%s", p, what), 2) == 1
	}
	r.LeaderTimeout = tla.ModuleTRUE
	r.net = &fifoNet{links: map[string]*queue{}, fromNode: map[string]int{}, cap: o.MailboxCap, Isolated: map[int]bool{}}
	r.txn = append(r.txn, r.net)
	closing := func() bool { return r.Sim.Closing }
	n := o.NumServers
	consts := distsys.EnsureMPCalContextConfigs(
		distsys.DefineConstantValue("NumServers", tla.MakeNumber(int32(n))),
		distsys.DefineConstantValue("NumClients", tla.MakeNumber(int32(o.NumClients))),
		distsys.DefineConstantValue("ExploreFail", tla.ModuleFALSE),
		distsys.DefineConstantValue("Debug", tla.ModuleFALSE),
		raftkvs.PersistentLogConstantDefs, raftkvs.LeaderTimeoutConstantDefs)
	iface := distsys.NewMPCalContextWithoutArchetype(consts).IFace()

	netFor := func(inst string, node int) distsys.ArchetypeResource {
		return &indexed{refuse: func() bool { return !closing() && o.Pct("network-refuses-precommit", o.PreCommitRefusePct) }, at: func(idx tla.Value) distsys.ArchetypeResource {
			dest := int(idx.AsNumber())
			return &fn{
				read: func() (tla.Value, error) {
					if closing() || dest != node {
						if dest != node {
							panic(fmt.Sprintf("harness: %s reads mailbox %d, not its own", inst, dest))
						}
						return tla.Value{}, errAbort
					}
					ls := r.net.pendingFor(dest)
					if len(ls) == 0 {
						return tla.Value{}, errAbort
					}
					q := ls[0]
					if len(ls) > 1 {
						q = ls[o.Pick("deliver-from-link", len(ls))]
					}
					v, _ := q.pop()
					return v, nil
				},
				write: func(v tla.Value) error {
					if closing() || r.net.queued(dest) >= r.net.cap {
						return errAbort
					}
					r.net.link(inst, node, dest).push(v)
					return nil
				},
			}
		}}
	}
	netLenFor := func(node int, alwaysZero bool) distsys.ArchetypeResource {
		return &indexed{at: func(idx tla.Value) distsys.ArchetypeResource {
			return &fn{read: func() (tla.Value, error) {
				if closing() {
					return tla.Value{}, errAbort
				}
				c := r.net.count(int(idx.AsNumber()))
				if alwaysZero || c == 0 || o.Pct("netLen-underestimates", 30) {
					return tla.MakeNumber(0), nil // the macro may yield any length up to the real one
				}
				return tla.MakeNumber(int32(c)), nil
			}}
		}}
	}
	fdRes := &indexed{at: func(idx tla.Value) distsys.ArchetypeResource {
		j := int(idx.AsNumber())
		return &fn{read: func() (tla.Value, error) {
			if closing() {
				return tla.Value{}, errAbort
			}
			if r.Crashed[j] && r.FDKnows[j] {
				return tla.MakeBool(!o.Pct("fd-misses-crash", 10)), nil
			}
			return tla.MakeBool(o.Pct("fd-false-suspicion", o.FalseSuspectPct)), nil
		}}
	}}
	leaderTimeoutOf := func(srv int) distsys.ArchetypeResource {
		pct := o.ElectPct
		if p, ok := o.ElectPctOf[srv]; ok {
			pct = p
		}
		return &fn{
			read: func() (tla.Value, error) {
				if closing() {
					return tla.Value{}, errAbort
				}
				return tla.MakeBool(o.Pct("election-timeout", pct)), nil
			},
			write: func(tla.Value) error { return nil },
		}
	}
	one := func(res distsys.ArchetypeResource) distsys.ArchetypeResource {
		return &indexed{at: func(tla.Value) distsys.ArchetypeResource { return res }}
	}
	toMap := func(srv int, res distsys.ArchetypeResource) distsys.ArchetypeResource {
		return resources.NewIncMap(func(index tla.Value) distsys.ArchetypeResource {
			if int(index.AsNumber()) == srv {
				return res
			}
			panic("wrong index")
		})
	}
	lsOpt := resources.WithLocalSharedResourceTimeout(2 * time.Millisecond)
	names := []string{"AServer", "AServerRequestVote", "AServerAppendEntries", "AServerAdvanceCommitIndex", "AServerBecomeLeader"}
	archs := []distsys.MPCalArchetype{raftkvs.AServer, raftkvs.AServerRequestVote, raftkvs.AServerAppendEntries, raftkvs.AServerAdvanceCommitIndex, raftkvs.AServerBecomeLeader}
	for s := 1; s <= n; s++ {
		s := s
		srvId := tla.MakeNumber(int32(s))
		var db *badger.DB
		if o.Persist {
			db = hx.MemBadger()
			r.dbs = append(r.dbs, db)
		}
		init := map[string]tla.Value{
			"state": raftkvs.Follower(iface), "currentTerm": tla.MakeNumber(1), "log": tla.MakeTuple(), "commitIndex": tla.MakeNumber(0),
			"nextIndex":  tla.MakeFunction([]tla.Value{raftkvs.ServerSet(iface)}, func([]tla.Value) tla.Value { return tla.MakeNumber(1) }),
			"matchIndex": tla.MakeFunction([]tla.Value{raftkvs.ServerSet(iface)}, func([]tla.Value) tla.Value { return tla.MakeNumber(0) }),
			"votedFor":   raftkvs.Nil(iface), "votesResponded": tla.MakeSet(), "votesGranted": tla.MakeSet(), "leader": raftkvs.Nil(iface),
			"sm":       tla.MakeFunction([]tla.Value{raftkvs.KeySet(iface)}, func([]tla.Value) tla.Value { return raftkvs.Nil(iface) }),
			"smDomain": raftkvs.KeySet(iface),
		}
		mgrs := map[string]*resources.LocalSharedManager{}
		shadow := map[string]tla.Value{}
		for _, v := range raftVars {
			mgrs[v] = resources.NewLocalSharedManager(init[v], lsOpt)
			shadow[v] = init[v]
		}
		r.Mgrs = append(r.Mgrs, mgrs)
		r.Shadow = append(r.Shadow, shadow)
		r.PlogSpec = append(r.PlogSpec, tla.MakeTuple())
		r.becomeCh[s] = &queue{}
		r.appendCh[s] = &queue{}
		if n == 1 {
			r.becomeCh[s].push(tla.ModuleTRUE)
		}
		r.txn = append(r.txn, r.becomeCh[s], r.appendCh[s])
		var insts []*sched.Instance
		for k := 0; k < 5; k++ {
			self := tla.MakeNumber(int32(s + k*n))
			instName := fmt.Sprintf("%s(%d)", names[k], s)
			cfg := []distsys.MPCalContextConfigFn{consts,
				distsys.EnsureArchetypeValueParam("srvId", srvId),
				distsys.EnsureArchetypeRefParam("net", netFor(instName, s)),
				distsys.EnsureArchetypeRefParam("netLen", netLenFor(s, true)),
				distsys.EnsureArchetypeRefParam("netEnabled", resources.NewPlaceHolder()),
				distsys.EnsureArchetypeRefParam("fd", fdRes),
				distsys.EnsureArchetypeRefParam("leaderTimeout", leaderTimeoutOf(s)),
			}
			for _, v := range raftVars {
				var res distsys.ArchetypeResource = mgrs[v].MakeLocalShared()
				if o.Persist && (v == "currentTerm" || v == "votedFor") {
					res = resources.MakePersistent(fmt.Sprintf("Server%d.%s", s, v), db, mgrs[v].MakeLocalShared())
				}
				cfg = append(cfg, distsys.EnsureArchetypeRefParam(v, toMap(s, res)))
			}
			var plog distsys.ArchetypeResource = resources.NewDummy()
			if o.Persist {
				plog = raftkvs.NewPersistentLog(fmt.Sprintf("Server%d.plog", s), db)
			}
			cfg = append(cfg, distsys.EnsureArchetypeRefParam("plog", toMap(s, plog)))
			// channels, wired as bootstrap/server.go wires them
			aeq, blq := r.appendCh[s], r.becomeCh[s]
			switch k {
			case 0: // AServer: appendEntriesCh is a Dummy, becomeLeaderCh an output channel
				var aeRes distsys.ArchetypeResource = toMap(s, resources.NewDummy())
				if o.SpecChannels {
					aeRes = one(&fn{write: func(v tla.Value) error {
						if closing() {
							return errAbort
						}
						aeq.push(v)
						return nil
					}})
				}
				cfg = append(cfg,
					distsys.EnsureArchetypeRefParam("appendEntriesCh", aeRes),
					distsys.EnsureArchetypeRefParam("becomeLeaderCh", one(&fn{write: func(v tla.Value) error {
						if closing() {
							return errAbort
						}
						blq.push(v)
						return nil
					}})))
			case 2: // AppendEntries: CustomInChan yields TRUE when nothing is queued (periodic heartbeat)
				cfg = append(cfg,
					distsys.EnsureArchetypeRefParam("appendEntriesCh", one(&fn{read: func() (tla.Value, error) {
						if closing() {
							return tla.Value{}, errAbort
						}
						if v, ok := aeq.pop(); ok {
							return v, nil
						}
						return tla.ModuleTRUE, nil
					}})),
					distsys.EnsureArchetypeRefParam("becomeLeaderCh", resources.NewPlaceHolder()))
			case 4: // BecomeLeader: input channel (blocks while empty), appendEntriesCh an output channel
				cfg = append(cfg,
					distsys.EnsureArchetypeRefParam("appendEntriesCh", one(&fn{write: func(v tla.Value) error {
						if closing() {
							return errAbort
						}
						aeq.push(v)
						return nil
					}})),
					distsys.EnsureArchetypeRefParam("becomeLeaderCh", one(&fn{read: func() (tla.Value, error) {
						if closing() {
							return tla.Value{}, errAbort
						}
						if v, ok := blq.pop(); ok {
							return v, nil
						}
						return tla.Value{}, errAbort
					}})))
			default:
				cfg = append(cfg,
					distsys.EnsureArchetypeRefParam("appendEntriesCh", resources.NewPlaceHolder()),
					distsys.EnsureArchetypeRefParam("becomeLeaderCh", resources.NewPlaceHolder()))
			}
			in := r.Sim.Add(instName, self, archs[k], cfg...)
			r.nodeOf[in] = s
			r.Weight[in] = 4
			insts = append(insts, in)
		}
		r.Servers = append(r.Servers, insts)
	}
	for c := 1; c <= o.NumClients; c++ {
		self := 6*n + c
		q := &queue{}
		r.reqQ[self] = q
		r.txn = append(r.txn, q)
		name := fmt.Sprintf("AClient(%d)", self)
		in := r.Sim.Add(name, tla.MakeNumber(int32(self)), raftkvs.AClient, consts,
			distsys.EnsureArchetypeRefParam("net", netFor(name, self)),
			distsys.EnsureArchetypeRefParam("netLen", netLenFor(self, false)),
			distsys.EnsureArchetypeRefParam("fd", fdRes),
			distsys.EnsureArchetypeRefParam("reqCh", &fn{read: func() (tla.Value, error) {
				if closing() {
					return tla.Value{}, errAbort
				}
				if v, ok := q.pop(); ok {
					return v, nil
				}
				return tla.Value{}, errAbort
			}}),
			distsys.EnsureArchetypeRefParam("respCh", &fn{write: func(tla.Value) error {
				if closing() {
					return errAbort
				}
				return nil // collected from the committed write event
			}}),
			distsys.EnsureArchetypeRefParam("timeout", &fn{read: func() (tla.Value, error) {
				if closing() {
					return tla.Value{}, errAbort
				}
				return tla.MakeBool(o.Pct("client-timeout", o.ClientTimeoutPct)), nil
			}}))
		r.nodeOf[in] = self
		r.Weight[in] = 4
		r.Clients = append(r.Clients, in)
	}
	r.Sim.Begin = func(*sched.Instance, string) {
		for _, p := range r.txn {
			p.begin()
		}
	}
	r.Sim.End = func(in *sched.Instance, pc string, ev trace.Event) {
		for _, p := range r.txn {
			p.end(ev.IsAbort)
		}
		if ev.IsAbort {
			return
		}
		node := r.nodeOf[in]
		for _, el := range ev.Elements {
			if w, ok := el.(trace.WriteElement); ok && node <= n {
				if _, tracked := r.Shadow[node-1][w.Name]; tracked && w.Prefix != "" && len(w.Indices) == 1 {
					r.Shadow[node-1][w.Name] = w.Value
				}
				if w.Name == "leaderTimeout" && w.Prefix != "" {
					r.LeaderTimeout = w.Value.StripVClock()
				}
				if w.Name == "plog" && w.Prefix != "" && len(w.Indices) == 1 {
					val := w.Value.StripVClock()
					cur := r.PlogSpec[node-1]
					switch val.ApplyFunction(tla.MakeString("cmd")).AsString() {
					case "log_concat":
						cur = tla.ModuleOSymbol(cur, val.ApplyFunction(tla.MakeString("entries")))
					case "log_pop":
						cur = tla.ModuleSubSeq(cur, tla.MakeNumber(1), tla.ModuleMinusSymbol(tla.ModuleLen(cur), val.ApplyFunction(tla.MakeString("cnt"))))
					}
					r.PlogSpec[node-1] = cur
				}
			} else if ok && w.Name == "respCh" && w.Prefix != "" {
				r.LastResp = w.Value.StripVClock()
			}
		}
	}
	return r
}

// Queued lists every message waiting in a node's mailbox (all links, cut off or not), for rendering the spec's bag.
func (r *Raft) Queued(to int) []tla.Value {
	var ks []string
	p := fmt.Sprintf("%03d<", to)
	for k := range r.net.links {
		if len(k) >= 4 && k[:4] == p {
			ks = append(ks, k)
		}
	}
	sort.Strings(ks)
	var out []tla.Value
	for _, k := range ks {
		out = append(out, r.net.links[k].items...)
	}
	return out
}

// ChanItems lists what is queued in a server's appendEntriesCh ("append") or becomeLeaderCh ("become").
func (r *Raft) ChanItems(which string, s int) []tla.Value {
	if which == "append" {
		return r.appendCh[s].items
	}
	return r.becomeCh[s].items
}

// Submit queues a client request (a record [type |-> "put"/"get", key |-> k, value |-> v]).
func (r *Raft) Submit(client int, req tla.Value) { r.reqQ[client].push(req) }

// Pending: requests of the client not yet taken by its clientLoop.
func (r *Raft) Pending(client int) int { return len(r.reqQ[client].items) }

// Truth reads server s's variable from the real shared-variable manager (ground truth for the shadow).
func (r *Raft) Truth(s int, v string) (tla.Value, error) {
	b, err := r.Mgrs[s-1][v].MakeLocalShared().GetState()
	if err != nil {
		return tla.Value{}, err
	}
	var out tla.Value
	err = gob.NewDecoder(bytes.NewReader(b)).Decode(&out)
	return out, err
}

func (r *Raft) Close() {
	for _, db := range r.dbs {
		db.Close()
	}
}

// NodeOf is the server (1..N) or client id an instance belongs to.
func (r *Raft) NodeOf(in *sched.Instance) int { return r.nodeOf[in] }

// Isolate sets which nodes are cut off for now (their traffic is delayed, not lost).
func (r *Raft) Isolate(nodes map[int]bool) { r.net.Isolated = nodes }

// MailboxLen is the number of messages queued for a node.
func (r *Raft) MailboxLen(node int) int { return r.net.count(node) }

// LikelyEnabled guesses, from the label an instance is parked at and the visible state,
// whether its next attempt can commit. It only steers the scheduler's bias (an instance
// guessed disabled is still stepped now and then), it is never used by an oracle.
func (r *Raft) LikelyEnabled(in *sched.Instance) (enabled bool, steady bool) {
	node := r.nodeOf[in]
	state := ""
	if node <= r.O.NumServers {
		state = r.Shadow[node-1]["state"].AsString()
	}
	switch in.PC {
	case "AServer.serverLoop":
		return r.net.count(node) > 0, false
	case "AServerRequestVote.serverRequestVoteLoop":
		return false, false // a time-out is an event of the environment, not a ready step: stepped rarely, decided by a draw
	case "AServerAppendEntries.serverAppendEntriesLoop", "AServerAdvanceCommitIndex.serverAdvanceCommitIndexLoop":
		return state == "leader", true
	case "AServerAppendEntries.appendEntriesLoop":
		return true, true
	case "AServerBecomeLeader.serverBecomeLeaderLoop":
		return len(r.becomeCh[node].items) > 0, false
	case "AClient.clientLoop":
		return len(r.reqQ[node].items) > 0, false
	case "AClient.rcvResp":
		return r.net.count(node) > 0, false
	}
	return true, false
}
