package sysbind

import (
	"fmt"

	"github.com/DistCompiler/pgo/distsys"
	"github.com/DistCompiler/pgo/distsys/tla"
	"github.com/DistCompiler/pgo/distsys/trace"
	"github.com/DistCompiler/pgo/systems/pbkvs"

	"verif/harness/sched"
	"verif/harness/specenv"
	"verif/harness/tlx"
)

// PBKVS is the primary-backup store under the scheduler, on a spec-faithful environment.
type PBKVS struct {
	Sim      *sched.Sim
	Store    *specenv.Store
	Replicas []*sched.Instance
	Clients  []*sched.Instance
	NR, NC   int
	Keys     []string
}

// failChoice reports whether a choice id is the either of the mayFail macro (branch 1 = crash).
func PBFailChoice(id string) bool {
	switch id {
	case "AReplica.replicaLoop.0", "AReplica.sndSyncReqLoop.1", "AReplica.sndReplicaReqLoop.1", "AReplica.rcvReplicaRespLoop.1":
		return true
	}
	return false
}

func NewPBKVS(nr, nc int, keys []string, inputs []tlx.Val, draw func(what string, k int) int, choose func(in *sched.Instance, id string, k uint) uint) *PBKVS {
	p := &PBKVS{Sim: sched.New(), Store: specenv.NewStore(), NR: nr, NC: nc, Keys: keys}
	p.Sim.Draw = draw
	p.Sim.Choose = choose
	p.Store.Pick = func(what string, k int) int { return p.Sim.Ask(what, k) }
	p.Store.Closing = func() bool { return p.Sim.Closing }
	link := tlx.Rec(map[string]tlx.Val{"queue": tlx.Tup(), "enabled": tlx.Bool(true)})
	var nk, nv []tlx.Val
	for id := 1; id <= nr+nc; id++ {
		for typ := 1; typ <= 2; typ++ {
			nk = append(nk, tlx.Tup(tlx.Int(int64(id)), tlx.Int(int64(typ))))
			nv = append(nv, link)
		}
	}
	p.Store.Vars["network"] = tlx.Fn(nk, nv)
	var rs, fdv, fsv []tlx.Val
	kv := map[string]tlx.Val{}
	for _, k := range keys {
		kv[k] = tlx.Str("")
	}
	for r := 1; r <= nr; r++ {
		rs = append(rs, tlx.Int(int64(r)))
		fdv = append(fdv, tlx.Bool(false))
		fsv = append(fsv, tlx.Rec(kv))
	}
	p.Store.Vars["fd"] = tlx.Fn(rs, fdv)
	p.Store.Vars["fs"] = tlx.Fn(rs, fsv)
	p.Store.Vars["primary"] = tlx.Set(rs...)
	p.Store.Vars["clientInput"] = tlx.Tup(inputs...)
	p.Store.Vars["clientOutput"] = tlx.Str("@@defaultInitValue@@")
	p.Sim.Begin = func(*sched.Instance, string) { p.Store.Begin() }
	p.Sim.End = func(_ *sched.Instance, _ string, ev trace.Event) { p.Store.End(ev.IsAbort) }
	consts := distsys.EnsureMPCalContextConfigs(
		distsys.DefineConstantValue("NUM_REPLICAS", tla.MakeNumber(int32(nr))),
		distsys.DefineConstantValue("NUM_CLIENTS", tla.MakeNumber(int32(nc))),
		distsys.DefineConstantValue("EXPLORE_FAIL", tla.ModuleTRUE),
		distsys.DefineConstantValue("DEBUG", tla.ModuleFALSE))
	for r := 1; r <= nr; r++ {
		in := p.Sim.Add(fmt.Sprintf("Replica(%d)", r), tla.MakeNumber(int32(r)), pbkvs.AReplica, consts,
			distsys.EnsureArchetypeRefParam("net", p.Store.Var("network", 1, specenv.FIFOLinkRecord())),
			distsys.EnsureArchetypeRefParam("fs", p.Store.Var("fs", 2, specenv.Identity)),
			distsys.EnsureArchetypeRefParam("fd", p.Store.Var("fd", 1, specenv.Identity)),
			distsys.EnsureArchetypeRefParam("netEnabled", p.Store.Var("network", 1, specenv.NetworkToggle())),
			distsys.EnsureArchetypeRefParam("primary", p.Store.Var("primary", 0, specenv.LeaderElection())),
			distsys.EnsureArchetypeRefParam("netLen", p.Store.Var("network", 1, specenv.NetworkBufferLengthExact())))
		p.Replicas = append(p.Replicas, in)
	}
	for c := nr + 1; c <= nr+nc; c++ {
		in := p.Sim.Add(fmt.Sprintf("Client(%d)", c), tla.MakeNumber(int32(c)), pbkvs.AClient, consts,
			distsys.EnsureArchetypeRefParam("net", p.Store.Var("network", 1, specenv.FIFOLinkRecord())),
			distsys.EnsureArchetypeRefParam("fd", p.Store.Var("fd", 1, specenv.Identity)),
			distsys.EnsureArchetypeRefParam("primary", p.Store.Var("primary", 0, specenv.LeaderElection())),
			distsys.EnsureArchetypeRefParam("netLen", p.Store.Var("network", 1, specenv.NetworkBufferLengthExact())),
			distsys.EnsureArchetypeRefParam("input", p.Store.Var("clientInput", 0, specenv.BlockingChannel())),
			distsys.EnsureArchetypeRefParam("output", p.Store.Var("clientOutput", 0, specenv.Identity)))
		p.Clients = append(p.Clients, in)
	}
	return p
}

// Alive: the replica has neither crashed nor ended (the spec's IsAlive over pc).
func (p *PBKVS) Alive(r int) bool {
	in := p.Replicas[r-1]
	return in.Live && in.PC != "AReplica.failLabel" && in.PC != "AReplica.Done"
}
