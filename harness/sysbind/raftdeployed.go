//go:build verif

package sysbind

import (
	"fmt"
	"net"
	"os"
	"strings"
	"sync"
	"time"

	"github.com/DistCompiler/pgo/distsys"
	"github.com/DistCompiler/pgo/distsys/tla"
	"github.com/DistCompiler/pgo/distsys/trace"
	"github.com/DistCompiler/pgo/systems/raftkvs"
	"github.com/DistCompiler/pgo/systems/raftkvs/bootstrap"
	"github.com/DistCompiler/pgo/systems/raftkvs/configs"
	"github.com/dgraph-io/badger/v3"
	"pgregory.net/rapid"

	"verif/harness/hx"
	"verif/harness/sched"
)

// DeployedRaft is the Raft KV store exactly as systems/raftkvs/bootstrap wires it (NewServer / NewClient:
// real LocalSharedManagers, TCP relaxed mailboxes and monitors on loopback, real failure detectors, real
// election timers, CustomInChan heartbeats, Persistent / PersistentLog over badger), with one change: every
// context's fairness counter is the scheduler's gate, so that one critical-section attempt runs at a time,
// which attempt runs next and every either/with choice are drawn, and the state can be examined between
// attempts. Message delays, timer expiry and failure-detector answers are the deployment's own (real time).
type DeployedRaft struct {
	N, NC   int
	Cfg     configs.Root
	Sim     *sched.Sim
	Servers []*bootstrap.Server
	Clients []*bootstrap.Client
	Insts   [][]*sched.Instance // [server-1][0..4]
	CInsts  []*sched.Instance
	Shadow  []map[string]tla.Value // per server: variable -> last committed value, from the committed write events
	Crashed map[int]bool
	nodeOf  map[*sched.Instance]int
	dbs     []*badger.DB
	mu      sync.Mutex
	runErr  []string
	ReqCh   []chan bootstrap.Request
	RespCh  []chan bootstrap.Response
	// ReadMismatch is set by the End hook when a committed attempt read a per-server variable and did not get the value last committed on that server
	ReadMismatch string
	Submitted    int // requests handed to the clients
	view         *Raft
}

type DeployedOpts struct {
	NumServers, NumClients int
	Persist                bool
	ElectionTimeout        time.Duration
	ElectionOffset         time.Duration
	HeartbeatEvery         time.Duration
	ReceiveChanSize        int
	ClientTimeout          time.Duration
}

var nextPort = 20000 + (os.Getpid()*7919)%9000

// freeAddrs picks loopback ports below the ephemeral range (so that no outgoing connection of any process can
// take one between the probe and the deployment's own, lazy, bind) and probes each.
func freeAddrs(k int) ([]string, error) {
	var out []string
	for tries := 0; len(out) < k && tries < 20000; tries++ {
		nextPort++
		if nextPort >= 32000 {
			nextPort = 20000
		}
		addr := fmt.Sprintf("127.0.0.1:%d", nextPort)
		l, err := net.Listen("tcp", addr)
		if err != nil {
			continue
		}
		l.Close()
		out = append(out, addr)
	}
	if len(out) < k {
		return nil, fmt.Errorf("no free loopback ports")
	}
	return out, nil
}

// NewDeployedRaft wires the servers and clients and starts their archetypes (each parks at its first label).
func NewDeployedRaft(o DeployedOpts, choose func(in *sched.Instance, id string, k uint) uint) (*DeployedRaft, error) {
	n, nc := o.NumServers, o.NumClients
	addrs, err := freeAddrs(2*n + nc)
	if err != nil {
		return nil, err
	}
	cfg := configs.Root{
		NumServers: n, NumClients: nc, Persist: o.Persist,
		ClientRequestTimeout: o.ClientTimeout,
		FD:                   configs.FD{PullInterval: 30 * time.Millisecond, Timeout: 30 * time.Millisecond},
		Mailboxes: configs.Mailboxes{ReceiveChanSize: o.ReceiveChanSize, DialTimeout: 50 * time.Millisecond,
			ReadTimeout: 1 * time.Millisecond, WriteTimeout: 50 * time.Millisecond},
		LeaderElection:            configs.LeaderElection{Timeout: o.ElectionTimeout, TimeoutOffset: o.ElectionOffset},
		AppendEntriesSendInterval: o.HeartbeatEvery,
		SharedResourceTimeout:     2 * time.Millisecond,
		InputChanReadTimeout:      1 * time.Millisecond,
		Servers:                   map[int]configs.Server{}, Clients: map[int]configs.Client{},
	}
	for s := 1; s <= n; s++ {
		cfg.Servers[s] = configs.Server{MailboxAddr: addrs[2*(s-1)], MonitorAddr: addrs[2*(s-1)+1]}
	}
	for c := 1; c <= nc; c++ {
		cfg.Clients[c] = configs.Client{MailboxAddr: addrs[2*n+c-1]}
	}
	d := &DeployedRaft{N: n, NC: nc, Cfg: cfg, Sim: sched.New(), Crashed: map[int]bool{}, nodeOf: map[*sched.Instance]int{}}
	d.Sim.Choose = choose
	d.Sim.Draw = func(string, int) int { return 0 }
	d.view = &Raft{O: RaftOpts{NumServers: n, NumClients: nc}}
	names := []string{"AServer", "AServerRequestVote", "AServerAppendEntries", "AServerAdvanceCommitIndex", "AServerBecomeLeader"}
	bootstrap.ResetClientFailureDetector()
	for s := 1; s <= n; s++ {
		var db *badger.DB
		if o.Persist {
			db = hx.MemBadger()
			d.dbs = append(d.dbs, db)
		}
		srv := bootstrap.NewServer(s, cfg, db)
		d.Servers = append(d.Servers, srv)
		d.Shadow = append(d.Shadow, raftInitState(n))
		var insts []*sched.Instance
		for i, ctx := range srv.VerifContexts() {
			in := d.Sim.Adopt(fmt.Sprintf("%s(%d)", names[i], s), ctx)
			d.nodeOf[in] = s
			insts = append(insts, in)
		}
		d.Insts = append(d.Insts, insts)
	}
	d.view.Shadow = d.Shadow
	d.view.Crashed = d.Crashed // the same map: the invariants must know which servers can still vote
	for c := 1; c <= nc; c++ {
		cl := bootstrap.NewClient(c, cfg)
		d.Clients = append(d.Clients, cl)
		in := d.Sim.Adopt(fmt.Sprintf("AClient(%d)", 6*n+c), cl.VerifContext())
		d.nodeOf[in] = 6*n + c
		d.CInsts = append(d.CInsts, in)
		d.ReqCh = append(d.ReqCh, make(chan bootstrap.Request, 16))
		d.RespCh = append(d.RespCh, make(chan bootstrap.Response, 16))
	}
	d.Sim.End = d.onEnd
	// start: servers' archetypes under their monitors, clients through Client.Run
	for s := 1; s <= n; s++ {
		srv := d.Servers[s-1]
		for i, in := range d.Insts[s-1] {
			i, in := i, in
			go func() {
				var err error
				if p := hx.Catch(func() { err = srv.VerifRunArchetype(i) }); p != nil {
					err = p
				}
				if err != nil {
					d.noteErr(fmt.Sprintf("%s: %v", in.Name, err))
				}
				in.NoteExit(err)
			}()
			if err := d.Sim.AwaitFirst(in); err != nil {
				return d, err
			}
		}
	}
	for c := 1; c <= nc; c++ {
		cl, in := d.Clients[c-1], d.CInsts[c-1]
		reqCh, respCh := d.ReqCh[c-1], d.RespCh[c-1]
		go func() {
			var err error
			if p := hx.Catch(func() { err = cl.Run(reqCh, respCh) }); p != nil {
				err = p
			}
			if err != nil {
				d.noteErr(fmt.Sprintf("%s: %v", in.Name, err))
			}
			in.NoteExit(err)
		}()
		if err := d.Sim.AwaitFirst(in); err != nil {
			return d, err
		}
	}
	return d, nil
}

func (d *DeployedRaft) noteErr(s string) {
	d.mu.Lock()
	d.runErr = append(d.runErr, s)
	d.mu.Unlock()
}

// RunErrors: archetypes whose Run returned an error (assertion failure, resource error, panic).
func (d *DeployedRaft) RunErrors() string {
	d.mu.Lock()
	defer d.mu.Unlock()
	return strings.Join(d.runErr, "; ")
}

func (d *DeployedRaft) NodeOf(in *sched.Instance) int { return d.nodeOf[in] }

// View gives the invariant checker its view (shadow state per server).
func (d *DeployedRaft) View() *Raft { return d.view }

// raftInitState: the initial values bootstrap gives the per-server variables (raftkvs.tla's Init).
func raftInitState(n int) map[string]tla.Value {
	iface := distsys.NewMPCalContextWithoutArchetype(distsys.DefineConstantValue("NumServers", tla.MakeNumber(int32(n)))).IFace()
	return map[string]tla.Value{
		"state": raftkvs.Follower(iface), "currentTerm": tla.MakeNumber(1), "log": tla.MakeTuple(), "commitIndex": tla.MakeNumber(0),
		"nextIndex":  tla.MakeFunction([]tla.Value{raftkvs.ServerSet(iface)}, func([]tla.Value) tla.Value { return tla.MakeNumber(1) }),
		"matchIndex": tla.MakeFunction([]tla.Value{raftkvs.ServerSet(iface)}, func([]tla.Value) tla.Value { return tla.MakeNumber(0) }),
		"votedFor":   raftkvs.Nil(iface), "votesResponded": tla.MakeSet(), "votesGranted": tla.MakeSet(), "leader": raftkvs.Nil(iface),
		"sm":       tla.MakeFunction([]tla.Value{raftkvs.KeySet(iface)}, func([]tla.Value) tla.Value { return raftkvs.Nil(iface) }),
		"smDomain": raftkvs.KeySet(iface),
	}
}

var deployedInit = map[string]bool{}

func init() {
	for _, v := range raftVars {
		deployedInit[v] = true
	}
}

// onEnd maintains the shadow from committed writes and checks that every read of a per-server variable
// returned the value last committed on that server (by whichever of its five archetypes), or the
// attempt's own earlier write: this is what "shared by the server's five archetypes" means.
func (d *DeployedRaft) onEnd(in *sched.Instance, pc string, ev trace.Event) {
	node := d.nodeOf[in]
	if node > d.N {
		return
	}
	sh := d.Shadow[node-1]
	overlay := map[string]tla.Value{}
	for _, el := range ev.Elements {
		switch e := el.(type) {
		case trace.ReadElement:
			if !deployedInit[e.Name] || e.Prefix == "" || len(e.Indices) != 1 {
				continue
			}
			want, ok := overlay[e.Name]
			if !ok {
				want, ok = sh[e.Name]
			}
			got := e.Value.StripVClock()
			if ok && !want.Equal(got) && d.ReadMismatch == "" && !ev.IsAbort {
				d.ReadMismatch = fmt.Sprintf("%s at %s read %s[%d] = %v, but the value last committed on server %d is %v", in.Name, pc, e.Name, node, got, node, want)
			}
			if !ok {
				// first sight of the variable: its initial value
				sh[e.Name] = got
			}
		case trace.WriteElement:
			if !deployedInit[e.Name] || e.Prefix == "" || len(e.Indices) != 1 {
				continue
			}
			overlay[e.Name] = e.Value.StripVClock()
		}
	}
	if !ev.IsAbort {
		for k, v := range overlay {
			sh[k] = v
		}
	}
}

// Complete: every server's shadow knows all variables the invariants need.
func (d *DeployedRaft) Complete() bool {
	for _, sh := range d.Shadow {
		for _, v := range []string{"state", "currentTerm", "log", "commitIndex", "sm", "smDomain"} {
			if _, ok := sh[v]; !ok {
				return false
			}
		}
	}
	return true
}

// Close stops everything (archetypes first, all at once, then the deployment's own Close).
func (d *DeployedRaft) Close() {
	d.Sim.ShutdownParallel()
	for _, c := range d.ReqCh {
		close(c)
	}
	for _, cl := range d.Clients {
		cl.Close()
	}
	var wg sync.WaitGroup
	for _, srv := range d.Servers {
		srv := srv
		wg.Add(1)
		go func() { defer wg.Done(); _ = hx.Catch(func() { _ = srv.Close() }) }()
	}
	wg.Wait()
	for _, db := range d.dbs {
		db.Close()
	}
}

// DeployedRun is one scheduled execution of the deployed wiring.
type DeployedRun struct {
	D         *DeployedRaft
	Hist      strings.Builder
	Steps     int
	Commits   int
	Elections int
	StepNo    int
	Crashes   []int
}

type DeployedDriveOpts struct {
	MinClients, MaxClients int
	MaxOps                 int // per client (default 4)
	StepChoices            []int
	// OnCommit is called after every committed attempt; a non-empty string is a violation.
	OnCommit func(run *DeployedRun, in *sched.Instance, st sched.Step) string
	// Done: stop early; checked every few attempts.
	Done func(run *DeployedRun) bool
	// AtEnd runs after the last scheduled attempt, before anything is shut down.
	AtEnd func(run *DeployedRun) string
}

// DriveDeployed draws a deployment, a workload, a crash plan and a schedule, and runs it. The caller must Close run.D.
func DriveDeployed(t *rapid.T, dopt DeployedDriveOpts) (*DeployedRun, string) {
	n := rapid.SampledFrom([]int{1, 2, 3, 3, 3, 5}).Draw(t, "servers")
	nc := rapid.IntRange(dopt.MinClients, dopt.MaxClients).Draw(t, "clients")
	o := DeployedOpts{NumServers: n, NumClients: nc,
		Persist:         rapid.IntRange(0, 3).Draw(t, "persist") == 0,
		ElectionTimeout: time.Duration(rapid.SampledFrom([]int{1, 3}).Draw(t, "election-ms")) * time.Millisecond,
		ElectionOffset:  time.Millisecond,
		HeartbeatEvery:  time.Millisecond,
		ReceiveChanSize: rapid.SampledFrom([]int{3, 10, 100}).Draw(t, "chan-size"),
		ClientTimeout:   time.Duration(rapid.SampledFrom([]int{20, 80}).Draw(t, "client-timeout-ms")) * time.Millisecond,
	}
	d, err := NewDeployedRaft(o, func(in *sched.Instance, id string, k uint) uint {
		return uint(rapid.IntRange(0, int(k)-1).Draw(t, id))
	})
	run := &DeployedRun{D: d}
	if err != nil {
		return run, "INCONCLUSIVE: " + err.Error()
	}
	keys := []string{"k1", "k2"}[:rapid.IntRange(1, 2).Draw(t, "keys")]
	tok := 0
	for c := 0; c < nc; c++ {
		maxOps := dopt.MaxOps
		if maxOps == 0 {
			maxOps = 4
		}
		for i, m := 0, rapid.IntRange(1, maxOps).Draw(t, "ops"); i < m; i++ {
			key := keys[rapid.IntRange(0, len(keys)-1).Draw(t, "key")]
			if rapid.IntRange(0, 9).Draw(t, "isput") < 6 {
				tok++
				d.ReqCh[c] <- bootstrap.PutRequest{Key: key, Value: fmt.Sprintf("v%d", tok)}
			} else {
				d.ReqCh[c] <- bootstrap.GetRequest{Key: key}
			}
			d.Submitted++
		}
		ch := d.RespCh[c]
		go func() {
			for range ch {
			}
		}()
	}
	budget := rapid.SampledFrom(dopt.StepChoices).Draw(t, "steps")
	electPct := rapid.SampledFrom([]int{1, 3, 10}).Draw(t, "electpct")
	crashAt := map[int]int{}
	for i, k := 0, rapid.IntRange(0, (n-1)/2).Draw(t, "crashes"); i < k; i++ {
		crashAt[rapid.IntRange(1, n).Draw(t, "crash-server")] = rapid.IntRange(0, budget).Draw(t, "crash-step")
	}
	var all []*sched.Instance
	for _, g := range d.Insts {
		all = append(all, g...)
	}
	all = append(all, d.CInsts...)
	// nemesis: the leader crashes (with this probability per commit of its) once it has committed something, if a crash is still allowed
	leaderCrashPct := rapid.SampledFrom([]int{0, 0, 2, 10}).Draw(t, "crash-leader-after-commit")
	// nemesis: hand-over — once a leader has committed something, another server's election timer is made to expire
	// soon (with this probability per commit of the leader), so that servers that learnt commits as followers go on as leaders
	handoverPct := rapid.SampledFrom([]int{0, 10, 30, 60}).Draw(t, "handover-after-commit")
	favoured, favouredUntil := 0, -1
	for step := 0; step < budget; {
		for s := 1; s <= n; s++ {
			if at, ok := crashAt[s]; ok && step >= at && !d.Crashed[s] {
				d.Crashed[s] = true
				run.Crashes = append(run.Crashes, s)
				fmt.Fprintf(&run.Hist, "-- server %d crashes (step %d)\n", s, step)
			}
		}
		var cand []*sched.Instance
		var w []int
		total := 0
		for _, in := range all {
			node := d.NodeOf(in)
			if !in.Live || (node <= n && d.Crashed[node]) {
				continue
			}
			wt := 10
			if strings.HasPrefix(in.Name, "AServerRequestVote") {
				wt = electPct // stepping it means that its election timer expires
				if node == favoured && step < favouredUntil {
					wt = 120
				}
			} else if strings.HasPrefix(in.Name, "AServer(") {
				wt = 30
			}
			cand = append(cand, in)
			w = append(w, wt)
			total += wt
		}
		if len(cand) == 0 {
			break
		}
		x := rapid.IntRange(0, total-1).Draw(t, "who")
		var in *sched.Instance
		for i, c := range cand {
			if x < w[i] {
				in = c
				break
			}
			x -= w[i]
		}
		for b, burst := 0, rapid.IntRange(1, 4).Draw(t, "burst"); b < burst && step < budget; b++ {
			run.StepNo = step
			st := d.Sim.Step(in)
			step++
			run.Steps++
			switch st.Kind {
			case sched.Committed:
				run.Commits++
				fmt.Fprintf(&run.Hist, "%d: %s commits %s\n", step-1, in.Name, short(st.PC))
				if strings.HasSuffix(st.PC, "requestVoteLoop") {
					run.Elections++
				}
				if st.Err != nil {
					return run, fmt.Sprintf("%s ended with an error: %v", in.Name, st.Err)
				}
				if d.ReadMismatch != "" {
					return run, "the five archetypes of a server do not share its state: " + d.ReadMismatch
				}
				if dopt.OnCommit != nil {
					if msg := dopt.OnCommit(run, in, st); msg != "" {
						return run, msg
					}
				}
				if node := d.NodeOf(in); handoverPct > 0 && node <= n && n > 1 && step >= favouredUntil {
					sh := d.Shadow[node-1]
					if sh["state"].AsString() == "leader" && sh["commitIndex"].AsNumber() > 0 && rapid.IntRange(0, 99).Draw(t, "handover-now") < handoverPct {
						var others []int
						for s := 1; s <= n; s++ {
							if s != node && !d.Crashed[s] {
								others = append(others, s)
							}
						}
						if len(others) > 0 {
							favoured = others[rapid.IntRange(0, len(others)-1).Draw(t, "handover-to")]
							favouredUntil = step + 60
							fmt.Fprintf(&run.Hist, "-- server %d's election timer is about to expire (step %d)\n", favoured, step)
						}
					}
				}
				if node := d.NodeOf(in); leaderCrashPct > 0 && node <= n && len(run.Crashes)+len(crashAt) < (n-1)/2+0 && !d.Crashed[node] {
					sh := d.Shadow[node-1]
					if sh["state"].AsString() == "leader" && sh["commitIndex"].AsNumber() > 0 && rapid.IntRange(0, 99).Draw(t, "crash-leader-now") < leaderCrashPct {
						d.Crashed[node] = true
						run.Crashes = append(run.Crashes, node)
						fmt.Fprintf(&run.Hist, "-- leader %d crashes after a commit (step %d)\n", node, step)
						b = burst
					}
				}
			case sched.Aborted:
				b = burst
			case sched.Exited:
				if st.Err != nil {
					return run, fmt.Sprintf("%s failed: %v", in.Name, st.Err)
				}
				b = burst
			case sched.Stuck:
				if e := d.RunErrors(); e != "" {
					return run, "an archetype ended: " + e
				}
				return run, fmt.Sprintf("INCONCLUSIVE: %s stuck at %s", in.Name, st.PC)
			default:
				b = burst
			}
		}
		if dopt.Done != nil && step%16 == 0 && dopt.Done(run) {
			break
		}
	}
	if e := d.RunErrors(); e != "" {
		return run, "an archetype ended: " + e
	}
	if dopt.AtEnd != nil {
		if msg := dopt.AtEnd(run); msg != "" {
			return run, msg
		}
	}
	return run, ""
}
