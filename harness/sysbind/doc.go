// Package sysbind binds the shipped spec/Go pairs to the deterministic scheduler.
package sysbind

import (
	_ "github.com/DistCompiler/pgo/systems/dqueue"
	_ "github.com/DistCompiler/pgo/systems/loadbalancer"
	_ "github.com/DistCompiler/pgo/systems/locksvc"
	_ "github.com/DistCompiler/pgo/systems/pbkvs"
	_ "github.com/DistCompiler/pgo/systems/proxy"
	_ "github.com/DistCompiler/pgo/systems/raftkvs"
)
