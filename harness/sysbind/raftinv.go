package sysbind

import (
	"fmt"

	"github.com/DistCompiler/pgo/distsys/tla"
)

// RaftInv evaluates the invariants of raftkvs.tla (ElectionSafety, LogMatching,
// LeaderCompleteness, StateMachineSafety, ApplyLogOK, LeaderAppendOnly) over the
// servers' variables, plus their history forms (one leader per term ever; an index
// once committed keeps its entry).
type RaftInv struct {
	LeaderOf   map[int]int       // term -> the server seen as leader in it
	Committed  map[int]tla.Value // index -> entry, fixed when first committed anywhere
	CommitTerm map[int]int       // index -> term of the server on which it was first seen committed (the committing leader's term)
	prevLog    map[int]tla.Value
	prevLeader map[int]bool
	prevTerm   map[int]int
	// statistics for the non-triviality rule
	Truncations, LeaderChangesAfterCommit, LeaderCrashes int
	lastLeader                                           int
}

func NewRaftInv() *RaftInv {
	return &RaftInv{LeaderOf: map[int]int{}, Committed: map[int]tla.Value{}, CommitTerm: map[int]int{}, prevLog: map[int]tla.Value{}, prevLeader: map[int]bool{}, prevTerm: map[int]int{}}
}

type srvView struct {
	state       string
	term        int
	log         tla.Value
	n           int
	commitIndex int
	sm, smDom   tla.Value
}

func entryAt(log tla.Value, k int) tla.Value { return log.AsTuple().Get(k - 1) }
func termOf(e tla.Value) int                 { return int(e.ApplyFunction(tla.MakeString("term")).AsNumber()) }

func isPrefix(a, b tla.Value) bool {
	la, lb := a.AsTuple().Len(), b.AsTuple().Len()
	if la > lb {
		return false
	}
	for k := 1; k <= la; k++ {
		if !entryAt(a, k).Equal(entryAt(b, k)) {
			return false
		}
	}
	return true
}

// Check returns "" or a description of the violated invariant.
func (iv *RaftInv) Check(r *Raft) string {
	n := r.O.NumServers
	vs := make([]srvView, n+1)
	for s := 1; s <= n; s++ {
		sh := r.Shadow[s-1]
		vs[s] = srvView{state: sh["state"].AsString(), term: int(sh["currentTerm"].AsNumber()), log: sh["log"], n: sh["log"].AsTuple().Len(),
			commitIndex: int(sh["commitIndex"].AsNumber()), sm: sh["sm"], smDom: sh["smDomain"]}
	}
	for s := 1; s <= n; s++ {
		v := vs[s]
		if v.state == "leader" {
			if l, ok := iv.LeaderOf[v.term]; ok && l != s {
				return fmt.Sprintf("ElectionSafety: servers %d and %d are both leader of term %d", l, s, v.term)
			}
			if _, ok := iv.LeaderOf[v.term]; !ok {
				iv.LeaderOf[v.term] = s
				if len(iv.Committed) > 0 && iv.lastLeader != 0 && iv.lastLeader != s {
					iv.LeaderChangesAfterCommit++
				}
				iv.lastLeader = s
			}
		}
		if v.commitIndex > v.n {
			return fmt.Sprintf("server %d has commitIndex %d beyond its log of length %d", s, v.commitIndex, v.n)
		}
		// LeaderAppendOnly
		if pl, ok := iv.prevLog[s]; ok {
			if iv.prevLeader[s] && v.state == "leader" && !isPrefix(pl, v.log) {
				return fmt.Sprintf("LeaderAppendOnly: leader %d changed its log from %v to %v", s, pl, v.log)
			}
			if !isPrefix(pl, v.log) {
				iv.Truncations++
			}
		}
		iv.prevLog[s], iv.prevLeader[s], iv.prevTerm[s] = v.log, v.state == "leader", v.term
		// committed entries never change (history form of StateMachineSafety)
		for k := 1; k <= v.commitIndex; k++ {
			e := entryAt(v.log, k)
			if c, ok := iv.Committed[k]; ok {
				if !c.Equal(e) {
					return fmt.Sprintf("StateMachineSafety: index %d was committed as %v, server %d now holds %v below its commitIndex", k, c, s, e)
				}
			} else {
				iv.Committed[k] = e
				iv.CommitTerm[k] = v.term
			}
		}
	}
	for i := 1; i <= n; i++ {
		for j := 1; j <= n; j++ {
			if i == j {
				continue
			}
			a, b := vs[i], vs[j]
			if i < j {
				// LogMatching
				m := a.n
				if b.n < m {
					m = b.n
				}
				for k := m; k >= 1; k-- {
					if termOf(entryAt(a.log, k)) == termOf(entryAt(b.log, k)) {
						for q := 1; q <= k; q++ {
							if !entryAt(a.log, q).Equal(entryAt(b.log, q)) {
								return fmt.Sprintf("LogMatching: servers %d and %d agree on the term at index %d but differ at index %d: %v vs %v", i, j, k, q, entryAt(a.log, q), entryAt(b.log, q))
							}
						}
						break
					}
				}
				// StateMachineSafety
				mc := a.commitIndex
				if b.commitIndex < mc {
					mc = b.commitIndex
				}
				for k := 1; k <= mc; k++ {
					if !entryAt(a.log, k).Equal(entryAt(b.log, k)) {
						return fmt.Sprintf("StateMachineSafety: servers %d and %d committed different entries at index %d", i, j, k)
					}
				}
				// ApplyLogOK
				if a.commitIndex == b.commitIndex && (!a.sm.Equal(b.sm) || !a.smDom.Equal(b.smDom)) {
					return fmt.Sprintf("ApplyLogOK: servers %d and %d have commitIndex %d but stores %v / %v", i, j, a.commitIndex, a.sm, b.sm)
				}
			}
			// LeaderCompleteness, as the property states it: an entry committed in a term is in the log of every leader of
			// that or a later term. (raftkvs.tla compares with the term in which the entry was CREATED, which a stale
			// leader elected before the entry was committed legitimately violates; that stronger form is not checked.)
			if b.state == "leader" {
				for k := 1; k <= a.commitIndex; k++ {
					e := entryAt(a.log, k)
					if b.term >= iv.CommitTerm[k] && (k > b.n || !entryAt(b.log, k).Equal(e)) {
						return fmt.Sprintf("LeaderCompleteness: entry %v committed at index %d on server %d is missing from leader %d of term %d", e, k, i, j, b.term)
					}
				}
			}
		}
	}
	// Electability (LeaderCompleteness one election ahead). Raft keeps LeaderCompleteness because a server that lacks a
	// committed entry can never gather a majority of votes: a voter grants its vote only to a candidate whose log is at
	// least as up-to-date as its own (last term, then length), and every majority contains a server that holds the
	// entry. If, in the state reached, some live server c lacks an entry committed at index k and the live servers whose
	// logs are not more up-to-date than c's form a majority, then the schedule "c times out in a fresh term, exactly
	// those servers receive its request first and answer" — every step of which the environment may take — makes c the
	// leader of a later term without the entry: LeaderCompleteness is violated on a continuation of this very
	// execution. Reported at once, with the witnesses, instead of waiting for the draws to produce that continuation.
	lastTerm := func(v srvView) int {
		if v.n == 0 {
			return 0
		}
		return termOf(entryAt(v.log, v.n))
	}
	for c := 1; c <= n; c++ {
		if r.Crashed[c] {
			continue
		}
		missing := 0
		for k, e := range iv.Committed {
			if (k > vs[c].n || !entryAt(vs[c].log, k).Equal(e)) && (missing == 0 || k < missing) {
				missing = k
			}
		}
		if missing == 0 {
			continue
		}
		var voters []int
		for q := 1; q <= n; q++ {
			if r.Crashed[q] {
				continue
			}
			if q == c || lastTerm(vs[c]) > lastTerm(vs[q]) || (lastTerm(vs[c]) == lastTerm(vs[q]) && vs[c].n >= vs[q].n) {
				voters = append(voters, q)
			}
		}
		if len(voters)*2 > n {
			return fmt.Sprintf("LeaderCompleteness (one election ahead): index %d was committed as %v, server %d does not hold it (its log: %v), yet the live servers %v — a majority of %d — would all grant it their vote in a fresh term (their logs are not more up-to-date: last terms %v, lengths %v): it can become leader without a committed entry",
				missing, iv.Committed[missing], c, vs[c].log, voters, n, lastTermsOf(vs, voters, lastTerm), lensOf(vs, voters))
		}
	}
	// history form: every leader holds every entry ever committed in a term not after its own
	for s := 1; s <= n; s++ {
		if vs[s].state != "leader" {
			continue
		}
		for k, e := range iv.Committed {
			if vs[s].term >= iv.CommitTerm[k] && (k > vs[s].n || !entryAt(vs[s].log, k).Equal(e)) {
				return fmt.Sprintf("LeaderCompleteness: entry %v, once committed at index %d, is missing from leader %d of term %d", e, k, s, vs[s].term)
			}
		}
	}
	return ""
}

// Terms with a leader so far.
func (iv *RaftInv) TermsWithLeader() int { return len(iv.LeaderOf) }

func lastTermsOf(vs []srvView, who []int, f func(srvView) int) []int {
	out := make([]int, len(who))
	for i, q := range who {
		out[i] = f(vs[q])
	}
	return out
}

func lensOf(vs []srvView, who []int) []int {
	out := make([]int, len(who))
	for i, q := range who {
		out[i] = vs[q].n
	}
	return out
}
