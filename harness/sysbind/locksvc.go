package sysbind

import (
	"fmt"

	"github.com/DistCompiler/pgo/distsys"
	"github.com/DistCompiler/pgo/distsys/tla"
	"github.com/DistCompiler/pgo/distsys/trace"
	"github.com/DistCompiler/pgo/systems/locksvc"

	"verif/harness/sched"
	"verif/harness/specenv"
	"verif/harness/tlx"
)

// LockSvc is the locksvc spec/Go pair under the scheduler.
type LockSvc struct {
	Sim     *sched.Sim
	Store   *specenv.Store
	Server  *sched.Instance
	Clients []*sched.Instance
	N       int
}

// NewLockSvc wires AServer and n AClients to a spec-faithful bag network and hasLock.
func NewLockSvc(n int, pick func(what string, k int) int, choose func(in *sched.Instance, id string, k uint) uint) *LockSvc {
	ls := &LockSvc{Sim: sched.New(), Store: specenv.NewStore(), N: n}
	ls.Sim.Draw = pick
	ls.Store.Pick = func(what string, k int) int { return ls.Sim.Ask(what, k) }
	ls.Store.Closing = func() bool { return ls.Sim.Closing }
	ls.Sim.Choose = choose
	var nodes, empties, falses []tlx.Val
	for i := 0; i <= n; i++ {
		nodes = append(nodes, tlx.Int(int64(i)))
		empties = append(empties, tlx.Tup())
		falses = append(falses, tlx.Bool(false))
	}
	ls.Store.Vars["network"] = tlx.Fn(nodes, empties)
	ls.Store.Vars["hasLock"] = tlx.Fn(nodes, falses)
	ls.Sim.Begin = func(*sched.Instance, string) { ls.Store.Begin() }
	prevEnd := func(in *sched.Instance, pc string, ev trace.Event) { ls.Store.End(ev.IsAbort) }
	ls.Sim.End = prevEnd
	consts := distsys.DefineConstantValue("NumClients", tla.MakeNumber(int32(n)))
	ls.Server = ls.Sim.Add("Server(0)", tla.MakeNumber(0), locksvc.AServer, consts,
		distsys.EnsureArchetypeRefParam("network", ls.Store.Var("network", 1, specenv.ReliableBagLink())))
	for i := 1; i <= n; i++ {
		c := ls.Sim.Add(fmt.Sprintf("client(%d)", i), tla.MakeNumber(int32(i)), locksvc.AClient, consts,
			distsys.EnsureArchetypeRefParam("network", ls.Store.Var("network", 1, specenv.ReliableBagLink())),
			distsys.EnsureArchetypeRefParam("hasLock", ls.Store.Var("hasLock", 1, specenv.Identity)))
		ls.Clients = append(ls.Clients, c)
	}
	return ls
}
