package c13

// A GCounter payload whose wire image the harness can make undecodable for one broadcast
// round: every peer then answers the round's ReceiveValue call with an error (net/rpc
// reports "server cannot decode request" and keeps the connection), which is the only way
// a call to a *connected* peer can fail and later succeed. The property then says the
// sender still owes the update and a later round must deliver it.
//
// All CRDT logic is the shipped GCounter's; the wrapper adds twelve bytes (sender node,
// per-sender sequence number) in front of its wire image.

import (
	"encoding/binary"
	"encoding/gob"
	"errors"
	"os"
	"sync"
	"testing"

	"github.com/DistCompiler/pgo/distsys/resources"
	"github.com/DistCompiler/pgo/distsys/tla"
	"pgregory.net/rapid"
)

type flakyCounter struct {
	G    resources.GCounter
	Node int32
}

var refusals struct {
	mu       sync.Mutex
	seq      []uint64        // per sender: number of wire images made so far
	from     int32           // refuse every image made by this sender (-1: none)
	only     map[uint64]bool // if non-nil: refuse only these sequence numbers of that sender
	consumed int
}

func resetRefusals(n int) {
	refusals.mu.Lock()
	defer refusals.mu.Unlock()
	refusals.seq = make([]uint64, n+1) // index n: states made by the harness itself
	refusals.from, refusals.only, refusals.consumed = -1, nil, 0
}

func refuseRound(sender int) {
	refusals.mu.Lock()
	refusals.from, refusals.only, refusals.consumed = int32(sender), nil, 0
	refusals.mu.Unlock()
}

// refuseNth: refuse only the idx-th (0-based) wire image the sender makes from now on
func refuseNth(sender, idx int) {
	refusals.mu.Lock()
	refusals.from, refusals.consumed = int32(sender), 0
	refusals.only = map[uint64]bool{refusals.seq[sender] + 1 + uint64(idx): true}
	refusals.mu.Unlock()
}

func disarmRefusals() int {
	refusals.mu.Lock()
	defer refusals.mu.Unlock()
	refusals.from, refusals.only = -1, nil
	return refusals.consumed
}

// hold: while armed for a sender, every receiver that decodes a state made by that sender waits at
// the gate, so that the harness can act on the sender while its broadcast round is in flight.
var hold struct {
	mu      sync.Mutex
	from    int32
	arrived chan struct{}
	release chan struct{}
}

func init() { hold.from = -1 }

func holdFrom(sender int) (arrived <-chan struct{}, release func()) {
	hold.mu.Lock()
	defer hold.mu.Unlock()
	hold.from = int32(sender)
	hold.arrived = make(chan struct{}, 64)
	hold.release = make(chan struct{})
	rel := hold.release
	return hold.arrived, func() {
		hold.mu.Lock()
		hold.from = -1
		hold.mu.Unlock()
		close(rel)
	}
}

func (f flakyCounter) Init() resources.CRDTValue {
	return flakyCounter{G: resources.GCounter{}.Init().(resources.GCounter), Node: f.Node}
}
func (f flakyCounter) Read() tla.Value { return f.G.Read() }
func (f flakyCounter) Write(id tla.Value, v tla.Value) resources.CRDTValue {
	return flakyCounter{G: f.G.Write(id, v).(resources.GCounter), Node: f.Node}
}
func (f flakyCounter) Merge(other resources.CRDTValue) resources.CRDTValue {
	return flakyCounter{G: f.G.Merge(other.(flakyCounter).G).(resources.GCounter), Node: f.Node}
}
func (f flakyCounter) String() string { return f.G.String() }

func (f flakyCounter) GobEncode() ([]byte, error) {
	inner, err := f.G.GobEncode()
	if err != nil {
		return nil, err
	}
	refusals.mu.Lock()
	var seq uint64
	if int(f.Node) < len(refusals.seq) {
		refusals.seq[f.Node]++
		seq = refusals.seq[f.Node]
	}
	refusals.mu.Unlock()
	head := make([]byte, 12)
	binary.BigEndian.PutUint32(head, uint32(f.Node))
	binary.BigEndian.PutUint64(head[4:], seq)
	return append(head, inner...), nil
}

func (f *flakyCounter) GobDecode(b []byte) error {
	if len(b) < 12 {
		return errors.New("c13: short flakyCounter image")
	}
	node := int32(binary.BigEndian.Uint32(b))
	seq := binary.BigEndian.Uint64(b[4:])
	refusals.mu.Lock()
	refuse := refusals.from == node && (refusals.only == nil || refusals.only[seq])
	if refuse {
		refusals.consumed++
	}
	refusals.mu.Unlock()
	if refuse {
		return errors.New("c13: incoming state refused (injected)")
	}
	hold.mu.Lock()
	var arr, rel chan struct{}
	if hold.from == node {
		arr, rel = hold.arrived, hold.release
	}
	hold.mu.Unlock()
	if rel != nil {
		arr <- struct{}{}
		<-rel
	}
	f.Node = node
	return f.G.GobDecode(b[12:])
}

func init() { gob.Register(flakyCounter{}) }

var flakyKind = kind{
	name:    "GCounter+refusals",
	counter: true,
	flaky:   true,
	zero:    func(node int) resources.CRDTValue { return flakyCounter{Node: int32(node)} },
	bottom: func() resources.CRDTValue {
		refusals.mu.Lock()
		h := len(refusals.seq) - 1
		refusals.mu.Unlock()
		return flakyCounter{Node: int32(h)}.Init()
	},
}

// TestC13Refusals: the same machine, plus rounds in which every peer fails to decode the
// state (so every call of the round returns an error while the peers stay connected).
func TestC13Refusals(t *testing.T) {
	rapid.Check(t, func(t *rapid.T) { runCase(t, flakyKind) })
}

// TestC13DemoBudgetIsACount (opt-in: VERIF_C13_DEMO=1; expected to FAIL) replays one fixed
// history showing a further weakness found while building this check: needBroadcastCount
// counts successful calls, not peers. Two rounds in which the same connected peer answers
// with an error while the other peer answers normally use the whole budget up, and the
// first peer is never sent the update. It is not part of the generated space.
func TestC13DemoBudgetIsACount(t *testing.T) {
	if os.Getenv("VERIF_C13_DEMO") == "" {
		t.Skip("opt-in demonstration (VERIF_C13_DEMO=1); fails by design")
	}
	rapid.Check(t, func(rt *rapid.T) {
		c := newKase(rt, flakyKind, 3, true, false, []bool{false, false, false})
		defer c.close()
		c.doWrite(0, &upd{})
		c.doCommit(0, "")
		c.doTick(0, false, 1)
		c.doTick(0, false, 1)
		c.converge()
	})
}
