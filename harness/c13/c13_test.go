// C13 — the CRDT resource delivers every committed update and loses none.
//
// 2-4 real resources.NewCRDT instances on loopback, ticker set to one hour so that a
// broadcast round happens only when the harness calls the verif hook. One goroutine
// drives every node the way MPCalContext would (WriteValue/ReadValue inside a section,
// then PreCommit+Commit or Abort) and decides when rounds and incoming ReceiveValue
// calls happen. Every update is distinguishable in what a node reads (GCounter:
// increment 3^k for the k-th update, so a value names the exact set of updates it
// contains; AWORSet: every element has one designated writer, so the data type is exact
// and a read is a function of how much of that writer's committed history is known).
//
// Oracles (see checkObs / converge):
//
//	S1  no read, and no state handed to a peer, reflects an update of a section that is
//	    still open or was aborted;
//	S2  what a node has been seen to know of another node's committed updates never
//	    shrinks, and a node always reads all of its own committed updates;
//	S3  a section reads its own writes;
//	C   after updates stop and every node has ticked (<= 10 rounds), every node reads
//	    exactly the join of all committed updates, and all read equal values.
//
// The two defects listed for C13 in known_findings.json are recognised by the shape of
// the history (not by the property id), counted and set aside; everything else fails.
package c13

import (
	"fmt"
	"io"
	"log"
	"net"
	"net/rpc"
	"os"
	"runtime"
	"sort"
	"strings"
	"sync"
	"syscall"
	"testing"
	"time"

	"github.com/DistCompiler/pgo/distsys"
	"github.com/DistCompiler/pgo/distsys/resources"
	"github.com/DistCompiler/pgo/distsys/tla"
	"pgregory.net/rapid"

	"verif/harness/hx"
	"verif/harness/vstat"
)

func TestMain(m *testing.M) {
	if os.Getenv("VERIF_KEEP_LOG") == "" {
		log.SetOutput(io.Discard)
	}
	vstat.Main(m, "C13")
}

const (
	sigLostMerge = "CRDT-merge-lost-on-abort"
	sigBudget    = "CRDT-broadcast-budget-spent-before-commit"

	maxNodes        = 4
	maxCounterOps   = 20 // 3^0 .. 3^19, sum < 2^31
	numElems        = 4  // AWORSet: element e is written only by node e mod n
	settleTimeout   = 10 * time.Second
	rpcTimeout      = 10 * time.Second
	convergeRounds  = 10
	sendDialTimeout = 5 * time.Second
)

// inconclusive reports trouble that says nothing about the property (ports, sockets).
func inconclusive(format string, a ...any) {
	fmt.Printf("INCONCLUSIVE: c13: "+format+"\n", a...)
	vstat.Flush()
	os.Exit(2)
}

// ---- ports -------------------------------------------------------------------------------
//
// NewCRDT calls log.Fatalf when it cannot listen, so the addresses must really be free.
// A process claims one block of four ports below the kernel's ephemeral range (so no
// outgoing connection of any process can be given one of them) under an flock that lives
// as long as the process, and uses the same four addresses for every case.

var portBlock struct {
	once  sync.Once
	addrs []string
	keep  *os.File
}

func ephemeralLow() int {
	b, err := os.ReadFile("/proc/sys/net/ipv4/ip_local_port_range")
	lo := 32768
	if err == nil {
		var a, z int
		if n, _ := fmt.Sscan(string(b), &a, &z); n == 2 && a > 2048 {
			lo = a
		}
	}
	return lo
}

func canListen(addr string) bool {
	l, err := net.Listen("tcp", addr)
	if err != nil {
		return false
	}
	_ = l.Close()
	return true
}

func claimPorts() []string {
	portBlock.once.Do(func() {
		top := ephemeralLow()
		if top > 30000 {
			top = 30000
		}
		base := top - 10000
		if base < 2048 {
			inconclusive("no room below the ephemeral port range (%d)", top)
		}
		blocks := (top - base) / maxNodes
		dir := "/tmp/verif-c13-ports"
		if err := os.MkdirAll(dir, 0o777); err != nil {
			inconclusive("cannot create %s: %v", dir, err)
		}
		start := (os.Getpid() * 7919) % blocks
		for d := 0; d < blocks; d++ {
			b := (start + d) % blocks
			f, err := os.OpenFile(fmt.Sprintf("%s/block-%d.lock", dir, b), os.O_CREATE|os.O_RDWR, 0o666)
			if err != nil {
				continue
			}
			if syscall.Flock(int(f.Fd()), syscall.LOCK_EX|syscall.LOCK_NB) != nil {
				_ = f.Close()
				continue
			}
			var as []string
			ok := true
			for k := 0; k < maxNodes; k++ {
				a := fmt.Sprintf("127.0.0.1:%d", base+b*maxNodes+k)
				if !canListen(a) {
					ok = false
					break
				}
				as = append(as, a)
			}
			if !ok {
				_ = f.Close()
				continue
			}
			portBlock.addrs, portBlock.keep = as, f
			return
		}
		inconclusive("no free block of %d loopback ports in %d..%d", maxNodes, base, top)
	})
	return portBlock.addrs
}

// ---- payloads ----------------------------------------------------------------------------

type kind struct {
	name    string
	counter bool
	zero    func(node int) resources.CRDTValue // what NewCRDT is given
	bottom  func() resources.CRDTValue         // the empty state, for harness-made ReceiveValue calls
	flaky   bool                               // payload can refuse to be decoded (TestC13Refusals)
}

var elemVals = func() []tla.Value {
	var vs []tla.Value
	for e := 0; e < numElems; e++ {
		vs = append(vs, tla.MakeString(fmt.Sprintf("e%d", e)))
	}
	return vs
}()

func setCmd(add bool, elem int) tla.Value {
	cmd := int32(2)
	if add {
		cmd = 1
	}
	return tla.MakeRecord([]tla.RecordField{
		{Key: tla.MakeString("cmd"), Value: tla.MakeNumber(cmd)},
		{Key: tla.MakeString("elem"), Value: elemVals[elem]},
	})
}

func pow3(k int) int32 {
	p := int32(1)
	for i := 0; i < k; i++ {
		p *= 3
	}
	return p
}

// ---- the case ----------------------------------------------------------------------------

const (
	inflight = iota
	committed
	aborted
)

type upd struct {
	id     int // issue order over the whole case
	owner  int
	sec    int // serial of the owner's section that made it
	state  int
	amount int32 // counter
	add    bool  // set
	elem   int   // set
}

func (u *upd) String() string {
	st := [...]string{"in flight", "committed", "aborted"}[u.state]
	if u.amount != 0 {
		return fmt.Sprintf("u%d(+%d by n%d, section %d, %s)", u.id, u.amount, u.owner, u.sec, st)
	}
	op := "remove"
	if u.add {
		op = "add"
	}
	return fmt.Sprintf("u%d(%s e%d by n%d, section %d, %s)", u.id, op, u.elem, u.owner, u.sec, st)
}

type node struct {
	idx      int
	id       tla.Value
	addr     string
	peersStr string
	res      distsys.ArchetypeResource
	iface    distsys.ArchetypeInterface
	cli      *rpc.Client // the harness's own connection to this node's ReceiveValue

	open      bool // a section with at least one write is open
	sec       int
	inflight  []*upd
	committed []*upd // in commit order
	bounds    []int  // lengths of committed after each committed section; bounds[0] == 0

	mergedInSec      bool // a peer's state arrived during the open section
	tickedAfterWrite bool // a round of this node ran after the last write of the open section
	mustCommit       bool // avoid mode: the open section may not abort any more
	lostMerge        bool // shape of finding 12 occurred at this node
	budgetSpent      bool // shape of finding 13 occurred at this node

	lo   []int // lo[o]: this node has been SEEN to know committed[:lo[o]] of node o
	know []int // specification model: this node should know committed[:know[o]] of node o
	owes bool  // specification model: committed something not yet delivered by a round
}

type kase struct {
	t     *rapid.T
	k     kind
	n     int
	avoid bool
	nodes []*node
	upds  []*upd
	hist  strings.Builder

	setAside string // a listed finding was met: the rest of the case is not judged

	// shapes and counters
	nTicks, nRounds, nRefused, nRecv, nMergeInSec, nAbortAfterMerge, nTickInSec, nBudgetShape, nCommitInFlight int
	tickBetweenWriteAndEnd, mergeInSecThenAbort                                               bool
}

func (c *kase) logf(format string, a ...any) {
	fmt.Fprintf(&c.hist, format+"\n", a...)
}

func (c *kase) header() string {
	mode := "all shapes"
	if c.avoid {
		mode = "known shapes avoided"
	}
	var ps []string
	for _, nd := range c.nodes {
		ps = append(ps, fmt.Sprintf("n%d=%v peers %s", nd.idx, nd.id, nd.peersStr))
	}
	return fmt.Sprintf("%s, %d nodes (%s), %s\n", c.k.name, c.n, strings.Join(ps, "; "), mode)
}

func (c *kase) render() string { return c.header() + c.hist.String() }

func (c *kase) failf(format string, a ...any) {
	c.t.Helper()
	c.t.Fatalf("%s\n--- history ---\n%s", fmt.Sprintf(format, a...), c.render())
}

// known sets the case aside if sig is a listed open finding; otherwise the caller fails.
func (c *kase) known(sig string) bool {
	if vstat.Known(sig) {
		c.setAside = sig
		c.logf("   [set aside: %s]", sig)
		vstat.Class("set-aside." + sig)
		return true
	}
	return false
}

func (c *kase) guard(what string, f func()) {
	if p := hx.Catch(f); p != nil {
		c.failf("%s panicked: %v\n%s", what, p.Value, p.Stack)
	}
}

// ---- observations --------------------------------------------------------------------------

type obs struct {
	raw tla.Value
	vis map[int]bool // counter: ids of the updates contained in the value; set: elements present
	bad string
}

func (c *kase) decode(v tla.Value) obs {
	o := obs{raw: v, vis: map[int]bool{}}
	if p := hx.Catch(func() {
		if c.k.counter {
			x := v.AsNumber()
			if x < 0 {
				o.bad = "negative counter"
				return
			}
			for id := 0; x > 0; id++ {
				d := x % 3
				x /= 3
				if d == 0 {
					continue
				}
				if d == 2 || id >= len(c.upds) {
					o.bad = "not a sum of distinct issued increments"
					return
				}
				o.vis[id] = true
			}
			return
		}
		it := v.AsSet().Iterator()
		for !it.Done() {
			el, _, _ := it.Next()
			found := false
			for e, ev := range elemVals {
				if ev.Equal(el) {
					o.vis[e] = true
					found = true
				}
			}
			if !found {
				o.bad = fmt.Sprintf("element %v was never added", el)
				return
			}
		}
	}); p != nil {
		o.bad = fmt.Sprintf("value of the wrong kind (%v)", p.Value)
	}
	return o
}

// matches: does the observation show exactly the effect of list on the updates/elements of owner o?
func (c *kase) matches(ob obs, o int, list []*upd) bool {
	if c.k.counter {
		want := map[int]bool{}
		for _, u := range list {
			want[u.id] = true
		}
		for _, u := range c.upds {
			if u.owner == o && want[u.id] != ob.vis[u.id] {
				return false
			}
		}
		return true
	}
	for e := 0; e < numElems; e++ {
		if e%c.n != o {
			continue
		}
		present := false
		for _, u := range list {
			if u.elem == e {
				present = u.add
			}
		}
		if present != ob.vis[e] {
			return false
		}
	}
	return true
}

func (c *kase) abortedOf(o int) []*upd {
	var out []*upd
	for _, u := range c.upds {
		if u.owner == o && u.state == aborted {
			out = append(out, u)
		}
	}
	return out
}

func join(a, b []*upd) []*upd {
	out := make([]*upd, 0, len(a)+len(b))
	return append(append(out, a...), b...)
}

// candidates: which section boundaries of o's committed history explain what ob shows of o
func (c *kase) candidates(ob obs, o int, extra []*upd) []int {
	od := c.nodes[o]
	var ks []int
	for _, k := range od.bounds {
		if c.matches(ob, o, join(od.committed[:k], extra)) {
			ks = append(ks, k)
		}
	}
	return ks
}

// checkObs judges one observation of node r: its working value (what ReadValue gave), or its
// stable value (what it hands to peers: the reply of a ReceiveValue call).
func (c *kase) checkObs(r int, ob obs, stable bool, when string) {
	if c.setAside != "" {
		return
	}
	rd := c.nodes[r]
	what := "reads"
	if stable {
		what = "hands to peers a state reading"
	}
	if ob.bad != "" {
		c.failf("S1: %s: node %d %s %v: %s", when, r, what, ob.raw, ob.bad)
	}
	if c.k.counter {
		var ids []int
		for id := range ob.vis {
			ids = append(ids, id)
		}
		sort.Ints(ids)
		for _, id := range ids {
			u := c.upds[id]
			if u.state == committed || (u.state == inflight && u.owner == r && !stable) {
				continue
			}
			c.failf("S1: %s: node %d %s %v, which contains %v", when, r, what, ob.raw, u)
		}
	}
	for o := 0; o < c.n; o++ {
		od := c.nodes[o]
		m := len(od.committed)
		if o == r {
			var extra []*upd
			if !stable && rd.open {
				extra = rd.inflight
			}
			if c.matches(ob, r, join(rd.committed, extra)) {
				continue
			}
			switch {
			case stable && rd.open && c.matches(ob, r, join(rd.committed, rd.inflight)):
				c.failf("S1: %s: node %d %s %v: it contains the writes of its open section %d", when, r, what, ob.raw, rd.sec)
			case !stable && rd.open && len(c.candidates(ob, r, nil)) > 0:
				c.failf("S3: %s: node %d %s %v inside section %d: its own writes %v are not reflected", when, r, what, ob.raw, rd.sec, rd.inflight)
			case len(c.candidates(ob, r, extra)) > 0:
				c.failf("S2: %s: node %d %s %v: some of its own committed updates %v are gone (explained by the first %v of them)",
					when, r, what, ob.raw, rd.committed, c.candidates(ob, r, extra))
			default:
				tag := "S1"
				if len(extra) > 0 {
					tag = "S1/S3"
				}
				c.failf("%s: %s: node %d %s %v: not what its own committed updates %v and open-section writes %v give (aborted: %v)",
					tag, when, r, what, ob.raw, rd.committed, extra, c.abortedOf(r))
			}
		}
		ks := c.candidates(ob, o, nil)
		if len(ks) == 0 {
			c.failf("S1: %s: node %d %s %v: no committed prefix of node %d's sections explains it (committed %v, in flight %v; aborted or open sections must not show)",
				when, r, what, ob.raw, o, od.committed, od.inflight)
		}
		if stable {
			continue
		}
		best := ks[len(ks)-1]
		if best < rd.lo[o] {
			if rd.lostMerge && c.known(sigLostMerge) {
				return
			}
			c.failf("S2: %s: node %d reads %v: it had been seen to know the first %d committed updates of node %d (%v) and now shows at most %d",
				when, r, ob.raw, rd.lo[o], o, od.committed[:rd.lo[o]], best)
		}
		for _, k := range ks {
			if k >= rd.lo[o] {
				rd.lo[o] = k
				break
			}
		}
		if !rd.open && best < rd.know[o] && best < m {
			vstat.Class("model.delivery-not-yet-visible")
		}
	}
}

func (c *kase) readWorking(r int) obs {
	var v tla.Value
	var err error
	c.guard("ReadValue", func() { v, err = c.nodes[r].res.ReadValue(c.nodes[r].iface) })
	if err != nil {
		c.failf("ReadValue on node %d failed: %v", r, err)
	}
	return c.decode(v)
}

func (c *kase) observe(r int, when string) obs {
	ob := c.readWorking(r)
	c.checkObs(r, ob, false, when)
	return ob
}

// ---- incoming ReceiveValue calls made by the harness -------------------------------------------

// push makes one ReceiveValue call on node p, as a peer's broadcast would, and returns the
// state p replied with (its stable value).
func (c *kase) push(p int, v resources.CRDTValue) (resources.CRDTValue, error) {
	var reply resources.ReceiveValueResp
	call := c.nodes[p].cli.Go("CRDTRPCReceiver.ReceiveValue", resources.ReceiveValueArgs{Value: v}, &reply, nil)
	select {
	case <-call.Done:
		return reply.Value, call.Error
	case <-time.After(rpcTimeout):
		c.failf("ReceiveValue on node %d did not return within %v", p, rpcTimeout)
		return nil, nil
	}
}

func (c *kase) readState(p int, v resources.CRDTValue, when string) obs {
	if v == nil {
		c.failf("%s: node %d replied to ReceiveValue without a state", when, p)
	}
	var tv tla.Value
	c.guard("Read of a replied state", func() { tv = v.Read() })
	ob := c.decode(tv)
	c.checkObs(p, ob, true, when)
	return ob
}

// barrier: when it returns, every state node p had received before the call has been merged.
// The merger goroutine takes one state at a time and takes the next only when the previous
// merge is done; so once an empty state pushed after them has been taken, they are all in.
// The reply shows what p would hand to a peer right now, which is judged as well.
func (c *kase) barrier(p int, when string) resources.CRDTValue {
	st, err := c.push(p, c.k.bottom())
	if err != nil {
		c.failf("%s: ReceiveValue(empty state) on node %d failed: %v", when, p, err)
	}
	deadline := time.Now().Add(settleTimeout)
	for spins := 0; ; spins++ {
		un, _ := resources.VerifCRDTPending(c.nodes[p].res)
		if un == 0 {
			break
		}
		if time.Now().After(deadline) {
			c.failf("%s: node %d has not merged %d received state(s) after %v", when, p, un, settleTimeout)
		}
		if spins < 50 {
			runtime.Gosched()
		} else {
			time.Sleep(50 * time.Microsecond)
		}
	}
	c.readState(p, st, when+" (stable state of node "+fmt.Sprint(p)+")")
	return st
}

func (c *kase) settle(when string) {
	for p := 0; p < c.n; p++ {
		c.barrier(p, when)
	}
}

// ---- node operations ---------------------------------------------------------------------------

func (c *kase) doWrite(i int, u *upd) {
	nd := c.nodes[i]
	if !nd.open {
		nd.open = true
		nd.sec++
		nd.mergedInSec, nd.tickedAfterWrite, nd.mustCommit = false, false, false
	}
	u.id, u.owner, u.sec, u.state = len(c.upds), i, nd.sec, inflight
	var val tla.Value
	if c.k.counter {
		u.amount = pow3(u.id)
		val = tla.MakeNumber(u.amount)
	} else {
		val = setCmd(u.add, u.elem)
	}
	c.upds = append(c.upds, u)
	nd.inflight = append(nd.inflight, u)
	nd.tickedAfterWrite = false
	c.logf("n%d write %v", i, u)
	var err error
	c.guard("WriteValue", func() { err = nd.res.WriteValue(nd.iface, val) })
	if err != nil {
		c.failf("WriteValue on node %d failed: %v", i, err)
	}
}

func (c *kase) doCommit(i int, why string) {
	nd := c.nodes[i]
	c.logf("n%d commit section %d%s", i, nd.sec, why)
	problem := ""
	c.guard("PreCommit/Commit", func() {
		if ch := nd.res.PreCommit(nd.iface); ch != nil {
			if err, e2 := hx.Wait(ch, rpcTimeout); e2 != nil || err != nil {
				problem = fmt.Sprintf("PreCommit on node %d: %v %v", i, err, e2)
				return
			}
		}
		if ch := nd.res.Commit(nd.iface); ch != nil {
			if _, e2 := hx.Wait(ch, rpcTimeout); e2 != nil {
				problem = fmt.Sprintf("Commit on node %d did not finish", i)
			}
		}
	})
	if problem != "" {
		c.failf("%s", problem)
	}
	for _, u := range nd.inflight {
		u.state = committed
	}
	nd.committed = append(nd.committed, nd.inflight...)
	nd.bounds = append(nd.bounds, len(nd.committed))
	nd.inflight = nil
	nd.know[i] = len(nd.committed)
	nd.owes = true
	if nd.tickedAfterWrite {
		nd.budgetSpent = true
		c.nBudgetShape++
	}
	nd.open = false
}

func (c *kase) doAbort(i int) {
	nd := c.nodes[i]
	c.logf("n%d abort section %d", i, nd.sec)
	problem := ""
	c.guard("Abort", func() {
		if ch := nd.res.Abort(nd.iface); ch != nil {
			if _, e2 := hx.Wait(ch, rpcTimeout); e2 != nil {
				problem = fmt.Sprintf("Abort on node %d did not finish", i)
			}
		}
	})
	if problem != "" {
		c.failf("%s", problem)
	}
	for _, u := range nd.inflight {
		u.state = aborted
	}
	nd.inflight = nil
	if nd.mergedInSec {
		nd.lostMerge = true
		c.mergeInSecThenAbort = true
		c.nAbortAfterMerge++
	}
	nd.open = false
}

func maxInto(dst, src []int) {
	for i := range dst {
		if src[i] > dst[i] {
			dst[i] = src[i]
		}
	}
}

// arrived notes that a peer's state reached node p now.
func (c *kase) arrived(p int) {
	nd := c.nodes[p]
	if nd.open {
		nd.mergedInSec = true
		c.nMergeInSec++
		if c.avoid {
			nd.mustCommit = true
		}
	}
}

// doTick runs one broadcast round of node i (if the resource thinks one is due) and lets
// every merge it caused finish. Flaky payload only: refuseAll — no peer can decode the
// state sent in this round, so every call of the round fails; refusePeer >= 0 — only that
// peer cannot.
func (c *kase) doTick(i int, refuseAll bool, refusePeer int) (ran bool) {
	nd := c.nodes[i]
	_, owedBefore := resources.VerifCRDTPending(nd.res)
	switch {
	case refuseAll:
		refuseRound(i)
	case refusePeer >= 0:
		// the round encodes one copy of the state per connected peer, in peer-list order
		idx := refusePeer
		if refusePeer > i {
			idx--
		}
		refuseNth(i, idx)
	}
	c.guard("broadcast", func() { resources.VerifCRDTBroadcast(nd.res) })
	refused := disarmRefusals()
	_, owedAfter := resources.VerifCRDTPending(nd.res)
	c.nTicks++
	got := func(p int) bool { return p != i && !refuseAll && p != refusePeer }
	note := ""
	if refuseAll || refusePeer >= 0 {
		who := "every peer"
		if refusePeer >= 0 {
			who = fmt.Sprintf("node %d", refusePeer)
		}
		note = fmt.Sprintf("; %s cannot decode the state and answers with an error (%d such answers)", who, refused)
	}
	if nd.open {
		c.tickBetweenWriteAndEnd = true
	}
	if owedBefore > 0 {
		if note == "" {
			c.nRounds++
		} else {
			c.nRefused++
			if refusePeer >= 0 && refused != 1 {
				c.failf("harness: expected exactly one refused delivery, saw %d", refused)
			}
		}
		c.logf("n%d tick: round runs (owed %d -> %d)%s", i, owedBefore, owedAfter, note)
		replies := false
		for p := 0; p < c.n; p++ {
			if got(p) {
				c.arrived(p)
				replies = true
			}
		}
		if replies {
			c.arrived(i)
		}
		if nd.open {
			nd.tickedAfterWrite = true
			c.nTickInSec++
		}
	} else {
		c.logf("n%d tick: nothing owed", i)
	}
	// specification: a round of a node that owes delivers its committed state to every
	// connected peer, and each reply carries that peer's committed state back; the node
	// goes on owing as long as some peer has not been served
	if nd.owes {
		back := append([]int(nil), nd.know...)
		all := true
		for p := 0; p < c.n; p++ {
			if got(p) {
				maxInto(back, c.nodes[p].know)
				maxInto(c.nodes[p].know, nd.know)
			} else if p != i {
				all = false
			}
		}
		nd.know = back
		nd.owes = !all
	}
	c.settle(fmt.Sprintf("after tick of node %d", i))
	return owedBefore > 0
}

// doTickCommitInFlight (flaky payload only): a round of node i starts; while its calls are in flight (every
// receiver is held while decoding the state) node i commits a section; then the calls complete. The
// round carried the state committed before it started, so the new commit is still owed afterwards.
func (c *kase) doTickCommitInFlight(i int, peers int) {
	nd := c.nodes[i]
	knowBefore := append([]int(nil), nd.know...)
	_, owedBefore := resources.VerifCRDTPending(nd.res)
	arrivedCh, release := holdFrom(i)
	done := make(chan *hx.PanicError, 1)
	go func() { done <- hx.Catch(func() { resources.VerifCRDTBroadcast(nd.res) }) }()
	// one held receiver is enough to know that the round has taken its snapshot and that its calls are in flight
	// (every other receiver is held as well, whenever it gets there)
	select {
	case <-arrivedCh:
	case <-time.After(3 * time.Second):
		release()
		<-done
		inconclusive("no peer received the state of node %d's round", i)
	}
	c.nTicks++
	c.nRounds++
	c.nCommitInFlight++
	c.logf("n%d tick: round runs (owed %d); its calls are in flight ...", i, owedBefore)
	if !nd.open {
		c.doWrite(i, &upd{})
	}
	c.doCommit(i, " (while the round of this node is in flight)")
	release()
	select {
	case p := <-done:
		if p != nil {
			c.failf("broadcast panicked: %v", p)
		}
	case <-time.After(rpcTimeout):
		c.failf("the broadcast round of node %d did not finish within %v", i, rpcTimeout)
	}
	_, owedAfter := resources.VerifCRDTPending(nd.res)
	c.logf("n%d ... the round's calls complete (owed now %d)", i, owedAfter)
	// specification: the peers learn what node i had committed when the round started; their replies carry their
	// committed state back; node i still owes the section it committed meanwhile
	back := append([]int(nil), nd.know...)
	for p := 0; p < c.n; p++ {
		if p != i {
			c.arrived(p)
			maxInto(back, c.nodes[p].know)
			maxInto(c.nodes[p].know, knowBefore)
		}
	}
	nd.know = back
	c.settle(fmt.Sprintf("after the in-flight round of node %d", i))
}

// doRecv: node p receives, through ReceiveValue, the state node j would broadcast right now.
func (c *kase) doRecv(p, j int) {
	c.logf("n%d receives the stable state of n%d", p, j)
	st := c.barrier(j, fmt.Sprintf("fetching the stable state of node %d", j))
	reply, err := c.push(p, st)
	if err != nil {
		c.failf("ReceiveValue on node %d failed: %v", p, err)
	}
	c.readState(p, reply, fmt.Sprintf("reply of node %d to a received state", p))
	c.arrived(p)
	c.nRecv++
	maxInto(c.nodes[p].know, c.nodes[j].know)
	c.barrier(p, fmt.Sprintf("after node %d received a state", p))
}

// ---- convergence ---------------------------------------------------------------------------------

func (c *kase) converge() {
	if c.setAside != "" {
		return
	}
	c.logf("-- updates stop --")
	for i, nd := range c.nodes {
		if !nd.open {
			continue
		}
		commit := rapid.Bool().Draw(c.t, fmt.Sprintf("finalCommit%d", i))
		if commit || (c.avoid && nd.mustCommit) {
			c.doCommit(i, "")
		} else {
			c.doAbort(i)
		}
		c.observe(i, "after closing the last section")
		if c.setAside != "" {
			return
		}
	}
	full := func(r int, ob obs) (int, bool) {
		for o := 0; o < c.n; o++ {
			if !c.matches(ob, o, c.nodes[o].committed) {
				return o, false
			}
		}
		return -1, true
	}
	var last []obs
	rounds := 0
	for round := 1; round <= convergeRounds; round++ {
		rounds = round
		anyRan := false
		for i := 0; i < c.n; i++ {
			if c.doTick(i, false, -1) {
				anyRan = true
			}
			if c.setAside != "" {
				return
			}
		}
		last = last[:0]
		all := true
		for r := 0; r < c.n; r++ {
			ob := c.observe(r, fmt.Sprintf("convergence round %d", round))
			if c.setAside != "" {
				return
			}
			last = append(last, ob)
			if _, ok := full(r, ob); !ok {
				all = false
			}
		}
		if all {
			c.logf("-- converged after %d round(s): every node reads %v --", round, last[0].raw)
			for r := 1; r < c.n; r++ {
				if !last[r].raw.Equal(last[0].raw) {
					c.failf("C: nodes 0 and %d read different values %v and %v after convergence", r, last[0].raw, last[r].raw)
				}
			}
			vstat.ClassN("converge.rounds", int64(round))
			return
		}
		if !anyRan {
			// no node had anything owed: no state moved, and none will in later rounds
			c.logf("-- no node owes anything; further rounds cannot change any replica --")
			break
		}
	}
	// not converged: name what is missing where, then see whether it is a listed finding
	var miss []string
	lostAtReader, budgetAtOwner := false, false
	for r := 0; r < c.n; r++ {
		if o, ok := full(r, last[r]); !ok {
			miss = append(miss, fmt.Sprintf("node %d reads %v and does not reflect all committed updates of node %d %v",
				r, last[r].raw, o, c.nodes[o].committed))
			if c.nodes[r].lostMerge {
				lostAtReader = true
			}
			if c.nodes[o].budgetSpent {
				budgetAtOwner = true
			}
		}
	}
	anyLost, anyBudget := false, false
	for _, nd := range c.nodes {
		anyLost = anyLost || nd.lostMerge
		anyBudget = anyBudget || nd.budgetSpent
	}
	var sigs []string
	switch {
	case lostAtReader:
		sigs = []string{sigLostMerge, sigBudget}
	case budgetAtOwner:
		sigs = []string{sigBudget, sigLostMerge}
	default:
		sigs = []string{sigLostMerge, sigBudget}
	}
	for _, s := range sigs {
		if (s == sigLostMerge && anyLost) || (s == sigBudget && anyBudget) {
			if c.known(s) {
				return
			}
		}
	}
	c.failf("C: after updates stopped and %d round(s) in which every node ticked (until no node owed anything, or %d rounds), replicas have not converged to the join of all committed updates:\n  %s",
		rounds, convergeRounds, strings.Join(miss, "\n  "))
}

// ---- one generated case ----------------------------------------------------------------------------

// newKase starts the nodes of one case. close() must be called when the case is over.
func newKase(t *rapid.T, k kind, n int, avoid, strIDs bool, withSelf []bool) *kase {
	c := &kase{t: t, k: k, n: n, avoid: avoid}
	addrs := claimPorts()
	ids := make([]tla.Value, c.n)
	addrOf := map[string]string{}
	for i := 0; i < c.n; i++ {
		if strIDs {
			ids[i] = tla.MakeString(fmt.Sprintf("node%d", i))
		} else {
			ids[i] = tla.MakeNumber(int32(i + 1))
		}
		addrOf[ids[i].String()] = addrs[i]
	}
	mapping := func(id tla.Value) string {
		a, ok := addrOf[id.String()]
		if !ok {
			panic(fmt.Sprintf("c13: no address for %v", id))
		}
		return a
	}
	resetRefusals(c.n)
	for i := 0; i < c.n; i++ {
		var peers []tla.Value
		for j := 0; j < c.n; j++ {
			if j != i || withSelf[i] {
				peers = append(peers, ids[j])
			}
		}
		// the address was free a moment ago (the previous case shut down); make sure, because
		// NewCRDT exits the process when it cannot listen
		free := false
		for try := 0; try < 200 && !free; try++ {
			if free = canListen(addrs[i]); !free {
				time.Sleep(10 * time.Millisecond)
			}
		}
		if !free {
			inconclusive("address %s is no longer free", addrs[i])
		}
		nd := &node{idx: i, id: ids[i], addr: addrs[i], bounds: []int{0}, lo: make([]int, c.n), know: make([]int, c.n)}
		nd.peersStr = "all"
		if !withSelf[i] {
			nd.peersStr = "others"
		}
		nd.res = resources.NewCRDT(ids[i], peers, mapping, k.zero(i),
			resources.WithCRDTBroadcastInterval(time.Hour),
			resources.WithCRDTSendTimeout(sendDialTimeout),
			resources.WithCRDTDialTimeout(sendDialTimeout))
		nd.iface = distsys.NewMPCalContext(ids[i], distsys.MPCalArchetype{
			Name: "X", Label: "X.l",
			JumpTable: distsys.MakeMPCalJumpTable(), ProcTable: distsys.MakeMPCalProcTable(),
			PreAmble: func(distsys.ArchetypeInterface) {},
		}).IFace()
		c.nodes = append(c.nodes, nd)
	}
	for _, nd := range c.nodes {
		cli, err := rpc.Dial("tcp", nd.addr)
		if err != nil {
			inconclusive("cannot connect to node %d at %s: %v", nd.idx, nd.addr, err)
		}
		nd.cli = cli
	}
	return c
}

// close releases the sockets. (Not Close(): it waits for the next tick of the one-hour
// ticker. The ticker and merger goroutines of the case stay parked.)
func (c *kase) close() {
	for _, nd := range c.nodes {
		if nd.cli != nil {
			_ = nd.cli.Close()
		}
		if nd.res != nil {
			resources.VerifCRDTShutdown(nd.res)
		}
	}
}

func runCase(t *rapid.T, k kind) {
	if vstat.OverBudget() {
		return
	}
	vstat.Case()
	n := rapid.IntRange(2, maxNodes).Draw(t, "nodes")
	avoid := rapid.Bool().Draw(t, "avoidKnownShapes")
	if os.Getenv("VERIF_C13_AVOID_KNOWN") == "1" {
		avoid = true
	}
	strIDs := rapid.Bool().Draw(t, "stringIds")
	withSelf := make([]bool, n)
	for i := range withSelf {
		withSelf[i] = rapid.Bool().Draw(t, fmt.Sprintf("peersIncludeSelf%d", i))
	}
	c := newKase(t, k, n, avoid, strIDs, withSelf)
	defer c.close()
	if c.avoid {
		vstat.Class("cases.known-shapes-avoided")
	} else {
		vstat.Class("cases.all-shapes")
	}

	pickNode := func(t *rapid.T, label string) int { return rapid.IntRange(0, c.n-1).Draw(t, label) }
	knowsAdd := func(nd *node, e int) bool {
		for _, u := range join(nd.committed, nd.inflight) {
			if u.elem == e && u.add {
				return true
			}
		}
		return false
	}

	actions := map[string]func(*rapid.T){
		"write": func(t *rapid.T) {
			i := pickNode(t, "node")
			u := &upd{}
			if k.counter {
				if len(c.upds) >= maxCounterOps {
					t.Skip("no increments left")
				}
			} else {
				var own []int
				for e := 0; e < numElems; e++ {
					if e%c.n == i {
						own = append(own, e)
					}
				}
				u.elem = rapid.SampledFrom(own).Draw(t, "elem")
				u.add = rapid.IntRange(0, 9).Draw(t, "isAdd") < 6
				if !u.add && !knowsAdd(c.nodes[i], u.elem) {
					u.add = true // a remove by a node that knows no add is the data type's own listed defect (C12)
				}
			}
			if c.setAside != "" {
				return
			}
			c.doWrite(i, u)
		},
		"commit": func(t *rapid.T) {
			i := pickNode(t, "node")
			if !c.nodes[i].open {
				t.Skip("no open section")
			}
			if c.setAside != "" {
				return
			}
			c.doCommit(i, "")
		},
		"abort": func(t *rapid.T) {
			i := pickNode(t, "node")
			if !c.nodes[i].open {
				t.Skip("no open section")
			}
			if c.setAside != "" {
				return
			}
			if c.avoid && c.nodes[i].mustCommit {
				c.doCommit(i, " (abort drawn; committed instead: a state arrived during the section and known shapes are avoided)")
				return
			}
			c.doAbort(i)
		},
		"read": func(t *rapid.T) {
			i := pickNode(t, "node")
			if c.setAside != "" {
				return
			}
			ob := c.observe(i, "read")
			if c.setAside != "" {
				return
			}
			c.logf("n%d reads %v", i, ob.raw)
			c.barrier(i, fmt.Sprintf("read of node %d", i))
		},
		"tick": func(t *rapid.T) {
			i := pickNode(t, "node")
			refuse := k.flaky && rapid.IntRange(0, 3).Draw(t, "refused") == 0
			if c.avoid && c.nodes[i].open {
				t.Skip("known shapes avoided: no round of a node whose section is open")
			}
			if c.setAside != "" {
				return
			}
			c.doTick(i, refuse, -1)
		},
		"tick, commit while the round is in flight": func(t *rapid.T) {
			if !k.flaky {
				t.Skip("needs the gated payload")
			}
			i := pickNode(t, "node")
			nd := c.nodes[i]
			if c.avoid && nd.open {
				t.Skip("known shapes avoided: no round of a node whose section is open")
			}
			if _, owed := resources.VerifCRDTPending(nd.res); owed == 0 {
				t.Skip("no round would run")
			}
			if !nd.open && len(c.upds) >= maxCounterOps {
				t.Skip("no increments left")
			}
			if c.setAside != "" {
				return
			}
			peers := c.n - 1
			if withSelf[i] {
				peers = c.n
			}
			c.doTickCommitInFlight(i, peers)
		},
		"recv": func(t *rapid.T) {
			p := pickNode(t, "node")
			j := rapid.IntRange(0, c.n-2).Draw(t, "from")
			if j >= p {
				j++
			}
			if c.setAside != "" {
				return
			}
			c.doRecv(p, j)
		},
		"": func(t *rapid.T) {
			for r := 0; r < c.n && c.setAside == ""; r++ {
				c.observe(r, "after the last step")
			}
		},
	}
	actions["write more"] = actions["write"] // twice the weight
	actions["tick again"] = actions["tick"]
	t.Repeat(actions)
	c.converge()

	// what the case covered
	vstat.ClassN("ticks", int64(c.nTicks))
	vstat.ClassN("ticks.round-ran", int64(c.nRounds))
	vstat.ClassN("ticks.round-refused-by-peers", int64(c.nRefused))
	vstat.ClassN("ticks.inside-own-open-section", int64(c.nTickInSec))
	vstat.ClassN("received-states.harness-made", int64(c.nRecv))
	vstat.ClassN("merges-during-open-section", int64(c.nMergeInSec))
	vstat.ClassN("aborts-after-merge", int64(c.nAbortAfterMerge))
	vstat.ClassN("commits-after-own-tick", int64(c.nBudgetShape))
	vstat.ClassN("commits-while-own-round-in-flight", int64(c.nCommitInFlight))
	vstat.ClassN(k.name+".updates", int64(len(c.upds)))
	if c.tickBetweenWriteAndEnd && c.mergeInSecThenAbort {
		h := c.render()
		vstat.NonTrivial(h, func() string { return h })
	}
}

var counterKind = kind{
	name:    "GCounter",
	counter: true,
	zero:    func(int) resources.CRDTValue { return resources.GCounter{} },
	bottom:  func() resources.CRDTValue { return resources.GCounter{}.Init() },
}

var setKind = kind{
	name:   "AWORSet",
	zero:   func(int) resources.CRDTValue { return resources.AWORSet{} },
	bottom: func() resources.CRDTValue { return resources.AWORSet{}.Init() },
}

func TestC13GCounter(t *testing.T) {
	rapid.Check(t, func(t *rapid.T) { runCase(t, counterKind) })
}

func TestC13AWORSet(t *testing.T) {
	rapid.Check(t, func(t *rapid.T) { runCase(t, setKind) })
}
