// C01 — critical sections are atomic across every resource they touch.
package c01

import (
	"io"
	"log"
	"os"
	"strings"
	"testing"

	"pgregory.net/rapid"

	"verif/harness/prog"
	"verif/harness/vstat"
)

func TestMain(m *testing.M) {
	if os.Getenv("VERIF_KEEP_LOG") == "" {
		log.SetOutput(io.Discard) // the mailboxes log every listener and every injected abort
	}
	vstat.Main(m, "C01")
}

func runCase(t *rapid.T, sockets bool) {
	if vstat.OverBudget() {
		return
	}
	vstat.Case()
	insts := prog.GenMix(t, sockets)
	defer func() {
		for _, in := range insts {
			in.Teardown()
		}
	}()
	p := prog.GenProgram(t, insts, 3)
	async := map[int]bool{}
	for i := range insts {
		async[i] = rapid.IntRange(0, 2).Draw(t, "asyncwrapper") == 0
	}
	res := prog.Execute(p, insts, prog.Options{Async: async})
	desc := p.String(insts)
	if res.Failure != "" {
		if strings.HasPrefix(res.Failure, "INCONCLUSIVE") {
			t.Fatalf("%s\n%s\n%s", res.Failure, desc, res.History)
		}
		t.Fatalf("%s\nprogram:\n%s\nhistory:\n%s", res.Failure, desc, res.History)
	}
	for _, in := range insts {
		vstat.Class("kind." + in.Kind())
	}
	vstat.ClassN("attempts", int64(len(res.Events)))
	vstat.ClassN("aborts.unplanned-timeouts", int64(res.Unplanned))
	vstat.ClassN("reads.default-on-timeout-although-something-was-queued", int64(res.SpuriousDefaults))
	for _, e := range res.Events {
		if e.Injected != nil && e.Aborted {
			vstat.Class("abort.injected." + e.Injected.Mode.String())
		}
	}
	if res.NonTriv {
		vstat.NonTrivial(desc, func() string { return desc + "history:\n" + res.History })
	}
}

// TestC01Memory: in-process resource kinds only (fast).
func TestC01Memory(t *testing.T) { rapid.Check(t, func(t *rapid.T) { runCase(t, false) }) }

// TestC01Sockets: mixes that may include TCP mailboxes over loopback.
func TestC01Sockets(t *testing.T) { rapid.Check(t, func(t *rapid.T) { runCase(t, true) }) }
