package c01

// Nested-archetype resources (resources.NewNested) under generated sections and generated time-outs.
//
// The resource turns every operation of the outer section into a request to a nested archetype and gives up on it
// after a fixed 100 ms (ErrCriticalSectionAborted). What the harness draws: the operations of each section, which
// requests the nested archetype answers late (later than the resource's time-out), whether it refuses a
// pre-commit, and whether the outer side calls Abort at once or only after the late answer has been produced (the
// Run loop awaits other resources' aborts first, so both happen). The oracle is a register with transactional
// semantics: a section that fails at any point leaves the committed value, and the next section starts from it.

import (
	"errors"
	"fmt"
	"strings"
	"sync"
	"sync/atomic"
	"testing"
	"time"

	"github.com/DistCompiler/pgo/distsys"
	"github.com/DistCompiler/pgo/distsys/resources"
	"github.com/DistCompiler/pgo/distsys/tla"
	"pgregory.net/rapid"

	"verif/harness/hx"
	"verif/harness/vstat"
)

const nestedLate = 135 * time.Millisecond // longer than resources.nestedArchetypeTimeout (100 ms)

// nestedServer is the state the nested archetype keeps; its body runs one request per critical section.
type nestedServer struct {
	mu             sync.Mutex
	cur, committed tla.Value
	late           bool // answer the next request late
	refuse         bool // answer the next pre-commit with "aborted"
	served         atomic.Int64
	reading        atomic.Int64 // bumped every time the body is about to read the next request
}

type cellLeaf struct {
	distsys.ArchetypeResourceLeafMixin
}

func newIface(name string) distsys.ArchetypeInterface {
	return distsys.NewMPCalContext(tla.MakeString(name), distsys.MPCalArchetype{
		Name: name, Label: name + ".l",
		JumpTable: distsys.MakeMPCalJumpTable(), ProcTable: distsys.MakeMPCalProcTable(),
		PreAmble: func(distsys.ArchetypeInterface) {},
	}).IFace()
}

func buildNested(srv *nestedServer) (distsys.ArchetypeResource, error) {
	started := make(chan struct{})
	res := resources.NewNested(func(sendCh chan<- tla.Value, receiveCh <-chan tla.Value) []*distsys.MPCalContext {
		tpeK, valueK := tla.MakeString("tpe"), tla.MakeString("value")
		serve := distsys.MPCalCriticalSection{
			Name: "N.serve",
			Body: func(iface distsys.ArchetypeInterface) error {
				in, err := iface.RequireArchetypeResourceRef("N.in")
				if err != nil {
					return err
				}
				out, err := iface.RequireArchetypeResourceRef("N.out")
				if err != nil {
					return err
				}
				srv.reading.Add(1)
				req, err := iface.Read(in, nil)
				if err != nil {
					return err
				}
				// from here on the section commits (the output channel never refuses), so the server state may be
				// updated in place
				srv.mu.Lock()
				late, refuse := srv.late, srv.refuse
				srv.late = false
				srv.mu.Unlock()
				if late {
					time.Sleep(nestedLate)
				}
				c := func(n string) tla.Value { return iface.GetConstant(n)() }
				tpe := req.ApplyFunction(tpeK)
				fs := []tla.RecordField{}
				srv.mu.Lock()
				switch {
				case tpe.Equal(c("READ_REQ")):
					fs = append(fs, tla.RecordField{Key: tpeK, Value: c("READ_ACK")}, tla.RecordField{Key: valueK, Value: srv.cur})
				case tpe.Equal(c("WRITE_REQ")):
					srv.cur = req.ApplyFunction(valueK)
					fs = append(fs, tla.RecordField{Key: tpeK, Value: c("WRITE_ACK")})
				case tpe.Equal(c("PRECOMMIT_REQ")):
					if refuse {
						srv.refuse = false
						fs = append(fs, tla.RecordField{Key: tpeK, Value: c("ABORTED")})
					} else {
						fs = append(fs, tla.RecordField{Key: tpeK, Value: c("PRECOMMIT_ACK")})
					}
				case tpe.Equal(c("COMMIT_REQ")):
					srv.committed = srv.cur
					fs = append(fs, tla.RecordField{Key: tpeK, Value: c("COMMIT_ACK")})
				case tpe.Equal(c("ABORT_REQ")):
					srv.cur = srv.committed
					fs = append(fs, tla.RecordField{Key: tpeK, Value: c("ABORT_ACK")})
				default:
					srv.mu.Unlock()
					return fmt.Errorf("c01 nested: unexpected request %v", req)
				}
				srv.mu.Unlock()
				if err := iface.Write(out, nil, tla.MakeRecord(fs)); err != nil {
					return err
				}
				srv.served.Add(1)
				return iface.Goto("N.serve")
			},
		}
		arch := distsys.MPCalArchetype{
			Name: "N", Label: "N.serve",
			RequiredRefParams: []string{"N.in", "N.out"},
			JumpTable:         distsys.MakeMPCalJumpTable(serve),
			ProcTable:         distsys.MakeMPCalProcTable(),
			PreAmble:          func(distsys.ArchetypeInterface) { close(started) },
		}
		return []*distsys.MPCalContext{distsys.NewMPCalContext(tla.MakeString("nested"), arch,
			resources.NestedArchetypeConstantDefs,
			distsys.EnsureArchetypeRefParam("in", resources.NewInputChan(receiveCh, resources.WithInputChanReadTimeout(2*time.Millisecond))),
			distsys.EnsureArchetypeRefParam("out", resources.NewOutputChan(sendCh)),
		)}
	})
	select {
	case <-started:
		return res, nil
	case <-time.After(20 * time.Second):
		return res, errors.New("INCONCLUSIVE: (harness) the nested context did not start")
	}
}

// waitIdle waits until the nested archetype sits in its loop with nothing to do: two further attempts to read a
// request have begun while the number of requests served stayed the same (an attempt lasts 2 ms; the channel to the
// nested archetype is unbuffered, so a request is either taken by such an attempt or was never sent).
func (srv *nestedServer) waitIdle(int64) bool {
	deadline := time.Now().Add(60 * time.Second)
	for time.Now().Before(deadline) {
		served, r := srv.served.Load(), srv.reading.Load()
		for time.Now().Before(deadline) && srv.reading.Load() < r+2 {
			time.Sleep(time.Millisecond)
		}
		if srv.served.Load() == served && srv.reading.Load() >= r+2 {
			return true
		}
	}
	return false
}

func TestC01Nested(t *testing.T) {
	rapid.Check(t, func(t *rapid.T) {
		if vstat.OverBudget() {
			return
		}
		vstat.Case()
		init := tla.MakeNumber(0)
		srv := &nestedServer{cur: init, committed: init}
		res, err := buildNested(srv)
		if err != nil {
			t.Fatalf("%v", err)
		}
		iface := newIface("outer")
		var hist []string
		say := func(f string, a ...interface{}) { hist = append(hist, fmt.Sprintf(f, a...)) }
		fail := func(f string, a ...interface{}) {
			t.Fatalf("%s\nhistory:\n  %s", fmt.Sprintf(f, a...), strings.Join(hist, "\n  "))
		}
		mCommitted, mCur := int32(0), int32(0)
		sent := int64(0) // requests the nested archetype has been sent and will answer
		next := int32(1)
		lateAborts, lateThenIdle, refusals := 0, 0, 0
		nSections := rapid.IntRange(2, 6).Draw(t, "sections")
		budgetLate := 3 // each late answer costs > 100 ms
		for s := 0; s < nSections; s++ {
			failed := false
			nOps := rapid.IntRange(1, 4).Draw(t, "ops")
			for o := 0; o < nOps && !failed; o++ {
				late := budgetLate > 0 && rapid.IntRange(0, 5).Draw(t, "late") == 0
				if late {
					budgetLate--
					srv.mu.Lock()
					srv.late = true
					srv.mu.Unlock()
				}
				sent++
				if rapid.Bool().Draw(t, "write") {
					v := next
					next++
					var err error
					p := hx.Catch(func() { err = res.WriteValue(iface, tla.MakeNumber(v)) })
					say("section %d: write %d (late=%v) -> %v", s, v, late, err)
					switch {
					case p != nil:
						fail("WriteValue panicked: %v", p)
					case err == nil:
						// (a late answer may still get through: timers fire late on a busy machine, never early)
						mCur = v
					case errors.Is(err, distsys.ErrCriticalSectionAborted):
						failed = true
					default:
						fail("write failed with %v", err)
					}
				} else {
					var got tla.Value
					var err error
					p := hx.Catch(func() { got, err = res.ReadValue(iface) })
					say("section %d: read (late=%v) -> %v %v", s, late, got, err)
					switch {
					case p != nil:
						fail("ReadValue panicked: %v", p)
					case err == nil:
						if !got.Equal(tla.MakeNumber(mCur)) {
							fail("read returned %v; the section's view of the value is %d (last committed %d)", got, mCur, mCommitted)
						}
					case errors.Is(err, distsys.ErrCriticalSectionAborted):
						failed = true
					default:
						fail("read failed with %v", err)
					}
				}
				if failed && late {
					lateAborts++
				}
			}
			wantAbort := failed || rapid.IntRange(0, 3).Draw(t, "abort") == 0
			if !wantAbort {
				late := budgetLate > 0 && rapid.IntRange(0, 5).Draw(t, "latepc") == 0
				refuse := rapid.IntRange(0, 5).Draw(t, "refuse") == 0
				srv.mu.Lock()
				srv.late, srv.refuse = late, refuse
				srv.mu.Unlock()
				if late {
					budgetLate--
				}
				sent++
				var err error
				var werr error
				p := hx.Catch(func() { err, werr = hx.Wait(res.PreCommit(iface), 20*time.Second) })
				say("section %d: pre-commit (late=%v refuse=%v) -> %v", s, late, refuse, err)
				switch {
				case p != nil:
					fail("PreCommit panicked: %v", p)
				case werr != nil:
					fail("PreCommit did not answer within 20 s")
				case err == nil:
					if refuse {
						fail("pre-commit succeeded although the nested archetype refused it (late=%v)", late)
					}
				case errors.Is(err, distsys.ErrCriticalSectionAborted):
					wantAbort = true
					if late {
						lateAborts++
					} else if refuse {
						refusals++
					}
					if late && refuse {
						// the late answer is "aborted"; the resource gave up before seeing it
						refusals++
					}
				default:
					fail("pre-commit failed with %v", err)
				}
				if late {
					srv.mu.Lock()
					srv.refuse = false
					srv.mu.Unlock()
				}
				failed = wantAbort
			}
			if wantAbort {
				if failed && rapid.Bool().Draw(t, "abort-after-late-answer") {
					// the Run loop reaches this resource's Abort only after the late answer has been produced
					if !srv.waitIdle(sent) {
						fail("INCONCLUSIVE: (harness) the nested archetype did not get back to reading")
					}
					lateThenIdle++
				}
				sent++
				var werr error
				p := hx.Catch(func() { _, werr = hx.Wait(res.Abort(iface), 20*time.Second) })
				say("section %d: abort", s)
				if p != nil {
					fail("Abort panicked: %v", p)
				}
				if werr != nil {
					fail("Abort did not complete within 20 s")
				}
				mCur = mCommitted
			} else {
				sent++
				var werr error
				p := hx.Catch(func() { _, werr = hx.Wait(res.Commit(iface), 20*time.Second) })
				say("section %d: commit", s)
				if p != nil {
					fail("Commit panicked: %v", p)
				}
				if werr != nil {
					fail("Commit did not complete within 20 s")
				}
				mCommitted = mCur
			}
			// the state after the section, seen from the nested side
			if !srv.waitIdle(sent) {
				fail("INCONCLUSIVE: (harness) the nested archetype did not get back to reading")
			}
			srv.mu.Lock()
			cur, com := srv.cur, srv.committed
			srv.mu.Unlock()
			if !cur.Equal(tla.MakeNumber(mCommitted)) || !com.Equal(tla.MakeNumber(mCommitted)) {
				fail("after section %d the nested resource holds cur=%v committed=%v; the last committed value is %d", s, cur, com, mCommitted)
			}
		}
		if err := res.Close(); err != nil {
			fail("Close: %v", err)
		}
		vstat.Class("kind.nested-archetype")
		vstat.ClassN("nested.aborts-after-timeout", int64(lateAborts))
		vstat.ClassN("nested.abort-issued-after-the-late-answer", int64(lateThenIdle))
		vstat.ClassN("nested.precommit-refused", int64(refusals))
		if lateThenIdle > 0 {
			key := strings.Join(hist, "|")
			vstat.NonTrivial("nested|"+key, func() string { return "nested-archetype resource:\n  " + strings.Join(hist, "\n  ") })
		}
	})
}
