// C10 — nondeterministic choices are in range and no enabled alternative is starved.
package c10

import (
	"fmt"
	"math/rand"
	"strings"
	"testing"
	"time"

	"github.com/DistCompiler/pgo/distsys"
	"github.com/DistCompiler/pgo/distsys/tla"
	"pgregory.net/rapid"

	"verif/harness/hx"
	"verif/harness/vstat"
)

func TestMain(m *testing.M) { vstat.Main(m, "C10") }

type digit struct {
	id    string
	bound uint
}

// shapeModel tracks which (id, bound) digits the oracle holds — never their counts.
type shapeModel struct {
	pc    string
	stack []digit
}

func (m *shapeModel) begin(pc string) {
	if pc != m.pc {
		m.stack = m.stack[:0]
		m.pc = pc
	}
}

func (m *shapeModel) next(idx int, d digit) {
	if idx < len(m.stack) && m.stack[idx] != d {
		m.stack = m.stack[:idx]
	}
	if idx == len(m.stack) {
		m.stack = append(m.stack, d)
	}
}

type phase struct {
	pc       string
	q        []digit
	attempts int
	// prefixLens[i] = how many points attempt i consults (staged awaits); len(q) = all
	partial bool
}

func product(q []digit) int {
	p := 1
	for _, d := range q {
		p *= int(d.bound)
	}
	return p
}

func genQ(t *rapid.T, pc string, label string) []digit {
	depth := rapid.IntRange(1, 5).Draw(t, label+".depth")
	q := make([]digit, depth)
	for i := range q {
		// the code generator numbers choice points <Arch>.<label>.<n>; mostly follow
		// it so that phases at one label share identifier prefixes.
		n := i
		if rapid.IntRange(0, 9).Draw(t, label+".idperturb") == 0 {
			n = rapid.IntRange(0, 6).Draw(t, label+".idn")
		}
		b := rapid.SampledFrom([]uint{1, 2, 2, 2, 3, 3, 4, 5, 6}).Draw(t, label+".bound")
		q[i] = digit{fmt.Sprintf("%s.%d", pc, n), b}
	}
	// identifiers within one attempt are distinct in generated code
	seen := map[string]bool{}
	for i := range q {
		for seen[q[i].id] {
			q[i].id += "'"
		}
		seen[q[i].id] = true
	}
	return q
}

// TestC10Direct drives the shipped round-robin oracle directly.
func TestC10Direct(t *testing.T) {
	pcs := []string{"A.l1", "A.l2", "B.l1"}
	rapid.Check(t, func(t *rapid.T) {
		if vstat.OverBudget() {
			return
		}
		vstat.Case()
		rand.Seed(rapid.Int64().Draw(t, "globalRandSeed"))
		cnt := distsys.MakeRoundRobinFairnessCounter()
		nPhases := rapid.IntRange(1, 5).Draw(t, "phases")
		var model shapeModel
		var hist strings.Builder
		nontrivial := false
		var prevQ []digit
		prevPC := ""
		var runCombos []string   // combos of the current clean run
		lastSeen := map[string]int{} // combo -> index in runCombos
		for ph := 0; ph < nPhases; ph++ {
			lbl := fmt.Sprintf("p%d", ph)
			pc := rapid.SampledFrom(pcs).Draw(t, lbl+".pc")
			var q []digit
			mode := rapid.IntRange(0, 9).Draw(t, lbl+".mode")
			switch {
			case ph > 0 && mode < 2 && len(prevQ) > 0:
				// prefix-stable change: keep a prefix of the previous points
				keep := rapid.IntRange(0, len(prevQ)).Draw(t, lbl+".keep")
				q = append(q, prevQ[:keep]...)
				for i := range q {
					q[i].id = strings.Replace(q[i].id, prevPC, pc, 1)
				}
				ext := genQ(t, pc, lbl)
				for i := keep; i < len(ext) && len(q) < 5; i++ {
					q = append(q, ext[i])
				}
				if len(q) == 0 {
					q = ext
				}
			case ph > 0 && mode < 4 && len(prevQ) > 0:
				// same ids, one bound changed
				q = append(q, prevQ...)
				for i := range q {
					q[i].id = strings.Replace(q[i].id, prevPC, pc, 1)
				}
				i := rapid.IntRange(0, len(q)-1).Draw(t, lbl+".chg")
				q[i].bound = q[i].bound%6 + 1
			default:
				q = genQ(t, pc, lbl)
			}
			P := product(q)
			extra := rapid.IntRange(0, 7).Draw(t, lbl+".extra")
			attempts := 2*P + extra
			if rapid.IntRange(0, 3).Draw(t, lbl+".short") == 0 {
				attempts = rapid.IntRange(1, P+1).Draw(t, lbl+".n")
			}
			if attempts > 1500 {
				attempts = 1500
			}
			partial := rapid.IntRange(0, 5).Draw(t, lbl+".partial") == 0
			fmt.Fprintf(&hist, "phase %d: pc=%s q=%v attempts=%d partial=%v modelStackBefore=%v\n", ph, pc, q, attempts, partial, model.stack)
			warm := len(model.stack) > 0
			for a := 0; a < attempts; a++ {
				consult := len(q)
				if partial {
					consult = rapid.IntRange(1, len(q)).Draw(t, lbl+".consult")
				}
				cnt.BeginCriticalSection(pc)
				model.begin(pc)
				combo := make([]string, 0, consult)
				for i := 0; i < consult; i++ {
					v := cnt.NextFairnessCounter(q[i].id, q[i].bound)
					model.next(i, q[i])
					if v >= q[i].bound {
						t.Fatalf("choice out of range: id=%s bound=%d got=%d\n%s", q[i].id, q[i].bound, v, hist.String())
					}
					combo = append(combo, fmt.Sprint(v))
				}
				// clean = the oracle holds exactly the points this attempt consulted
				clean := consult == len(q) && len(model.stack) == len(q)
				sameAsPrev := clean && pc == prevPC && len(runCombos) > 0 && equalQ(q, prevQ)
				if !clean {
					runCombos, lastSeen = runCombos[:0], map[string]int{}
					vstat.Class("attempt.range-only")
					prevPC, prevQ = pc, nil
					continue
				}
				if !sameAsPrev {
					runCombos, lastSeen = runCombos[:0], map[string]int{}
				}
				key := strings.Join(combo, ",")
				if at, ok := lastSeen[key]; ok && len(runCombos)-at < P {
					t.Fatalf("combination (%s) repeated after %d attempts, inside a window of P=%d consecutive attempts that consult the same points %v at %s (so another combination is missing from that window)\n%s",
						key, len(runCombos)-at, P, q, pc, hist.String())
				}
				lastSeen[key] = len(runCombos)
				runCombos = append(runCombos, key)
				vstat.Class("attempt.window-checked")
				if len(q) >= 2 && P >= 4 && warm && len(runCombos) >= P {
					nontrivial = true
				}
				prevPC, prevQ = pc, q
			}
			// a full window must have seen every combination
			if len(runCombos) >= P && len(lastSeenRecent(runCombos, P)) != P {
				t.Fatalf("window of P=%d attempts at %s %v holds %d distinct combinations\n%s", P, pc, q, len(lastSeenRecent(runCombos, P)), hist.String())
			}
		}
		if nontrivial {
			h := hist.String()
			vstat.NonTrivial(h, func() string { return h })
		}
	})
}

func lastSeenRecent(combos []string, p int) map[string]bool {
	m := map[string]bool{}
	for _, c := range combos[len(combos)-p:] {
		m[c] = true
	}
	return m
}

func equalQ(a, b []digit) bool {
	if len(a) != len(b) {
		return false
	}
	for i := range a {
		if a[i] != b[i] {
			return false
		}
	}
	return true
}

// ---- (b) the real Run loop with the real oracle ------------------------------------------

type stage struct {
	points []digit
}

type visit struct {
	target []uint // one per choice point of the label, flattened over stages
}

type labelSpec struct {
	name   string
	stages []stage
	visits []visit // the label is entered len(visits) times in a row (self-loop)
}

func (l labelSpec) bound() int {
	// sum over stages of the product of all bounds up to and including that stage:
	// stage j is first reached after at most prod(1..j-1) attempts, then every
	// combination of stages 1..j is met within prod(1..j) attempts.
	b, p := 0, 1
	for _, s := range l.stages {
		for _, d := range s.points {
			p *= int(d.bound)
		}
		b += p
	}
	return b
}

// withSet is the set a `with` statement at position k ranges over: bound distinct
// numbers, inserted in an order unrelated to their value.
func withSet(bound uint, k int) tla.Value {
	elems := make([]tla.Value, 0, bound)
	for i := int(bound) - 1; i >= 0; i-- {
		elems = append(elems, tla.MakeNumber(int32(100*k)+int32((i*7)%int(bound))))
	}
	if bound == 7 {
		panic("7 not coprime")
	}
	return tla.MakeSet(elems...)
}

func TestC10RunLoop(t *testing.T) {
	rapid.Check(t, func(t *rapid.T) {
		if vstat.OverBudget() {
			return
		}
		vstat.Case()
		rand.Seed(rapid.Int64().Draw(t, "globalRandSeed"))
		nLabels := rapid.IntRange(1, 4).Draw(t, "labels")
		labels := make([]labelSpec, nLabels)
		var desc strings.Builder
		nontrivial := false
		for li := range labels {
			l := &labels[li]
			l.name = fmt.Sprintf("Arch.l%d", li)
			nStages := rapid.IntRange(1, 3).Draw(t, "stages")
			n := 0
			total := 1
			for s := 0; s < nStages; s++ {
				np := rapid.IntRange(1, 3).Draw(t, "points")
				var st stage
				for p := 0; p < np; p++ {
					b := rapid.SampledFrom([]uint{1, 2, 2, 3, 3, 4, 5}).Draw(t, "bound")
					if total*int(b) > 600 {
						b = 1
					}
					total *= int(b)
					st.points = append(st.points, digit{fmt.Sprintf("%s.%d", l.name, n), b})
					n++
				}
				l.stages = append(l.stages, st)
			}
			nVisits := rapid.IntRange(1, 3).Draw(t, "visits")
			for v := 0; v < nVisits; v++ {
				var vis visit
				for _, st := range l.stages {
					for _, d := range st.points {
						vis.target = append(vis.target, uint(rapid.IntRange(0, int(d.bound)-1).Draw(t, "target")))
					}
				}
				l.visits = append(l.visits, vis)
			}
			fmt.Fprintf(&desc, "label %s stages=%v visits=%v bound=%d\n", l.name, l.stages, l.visits, l.bound())
			if n >= 2 && total >= 4 && li > 0 {
				nontrivial = true
			}
		}

		attempts := 0
		visitIdx := make([]int, nLabels)
		var failure string
		var sections []distsys.MPCalCriticalSection
		for li := range labels {
			li := li
			l := labels[li]
			sections = append(sections, distsys.MPCalCriticalSection{
				Name: l.name,
				Body: func(iface distsys.ArchetypeInterface) error {
					attempts++
					vis := l.visits[visitIdx[li]]
					if attempts > l.bound() {
						if failure == "" {
							failure = fmt.Sprintf("label %s visit %d: enabled combination %v not taken within %d attempts", l.name, visitIdx[li], vis.target, l.bound())
						}
						// let the run end
					}
					k := 0
					for _, st := range l.stages {
						ok := true
						for _, d := range st.points {
							v := iface.NextFairnessCounter(d.id, d.bound)
							if v >= d.bound {
								failure = fmt.Sprintf("choice out of range id=%s bound=%d got %d", d.id, d.bound, v)
							}
							if k%2 == 0 {
								// `either`: the branch index is the choice
								if v != vis.target[k] {
									ok = false
								}
							} else {
								// `with x \in S`: the generated code selects the v-th element of S;
								// the await compares the element, as a spec would
								S := withSet(d.bound, k)
								want := tla.MakeNumber(int32(100*k) + int32(vis.target[k]))
								if !S.SelectElement(v).Equal(want) {
									ok = false
								}
							}
							k++
						}
						if !ok && failure == "" {
							return distsys.ErrCriticalSectionAborted // await
						}
					}
					attempts = 0
					visitIdx[li]++
					if visitIdx[li] < len(l.visits) {
						return iface.Goto(l.name)
					}
					if li+1 < len(labels) {
						return iface.Goto(labels[li+1].name)
					}
					return iface.Goto("Arch.Done")
				},
			})
		}
		sections = append(sections, distsys.MPCalCriticalSection{Name: "Arch.Done", Body: func(distsys.ArchetypeInterface) error { return distsys.ErrDone }})
		arch := distsys.MPCalArchetype{
			Name: "Arch", Label: labels[0].name,
			JumpTable: distsys.MakeMPCalJumpTable(sections...),
			ProcTable: distsys.MakeMPCalProcTable(),
			PreAmble:  func(distsys.ArchetypeInterface) {},
		}
		ctx := distsys.NewMPCalContext(tla.MakeNumber(1), arch)
		done := make(chan error, 1)
		go func() { done <- hx.SafeRun(ctx) }()
		select {
		case err := <-done:
			if err != nil {
				t.Fatalf("Run: %v\n%s", err, desc.String())
			}
		case <-time.After(60 * time.Second):
			t.Fatalf("INCONCLUSIVE: run did not finish in 60s\n%s", desc.String())
		}
		if failure != "" {
			t.Fatalf("%s\n%s", failure, desc.String())
		}
		if nontrivial {
			d := desc.String()
			vstat.NonTrivial(d, func() string { return d })
		}
	})
}
