//go:build verif

package c09

import (
	"testing"

	"pgregory.net/rapid"

	"verif/harness/sched"
	"verif/harness/sysbind"
	"verif/harness/vstat"
)

// TestC09Deployed: the same oracle on the store as systems/raftkvs/bootstrap wires it (real Client.Run
// with its request time-outs, TCP relaxed mailboxes, the servers' real shared state), scheduled one
// attempt at a time. The history is read from the AClient archetypes' committed steps.
func TestC09Deployed(t *testing.T) {
	rapid.Check(t, func(t *rapid.T) {
		if vstat.OverBudget() {
			return
		}
		vstat.Case()
		h := newHistRec()
		want := 0
		run, msg := sysbind.DriveDeployed(t, sysbind.DeployedDriveOpts{MinClients: 1, MaxClients: 3, MaxOps: 8, StepChoices: []int{800, 1500, 3000},
			OnCommit: func(run *sysbind.DeployedRun, in *sched.Instance, st sched.Step) string {
				return h.onCommit(run.D.NodeOf(in), run.StepNo, st, func(node int) int { return int(run.D.View().Shadow[node-1]["currentTerm"].AsNumber()) })
			},
			Done: func(run *sysbind.DeployedRun) bool {
				if want == 0 {
					want = run.D.Submitted
				}
				return len(h.open) == 0 && len(h.ops) >= want
			}})
		if run.D != nil {
			defer run.D.Close()
		}
		if msg != "" {
			t.Fatalf("%s\n%s", msg, h.hist.String())
		}
		h.judge(t, run.Steps, run.D.View(), "deployed.", run.Crashes)
	})
}
