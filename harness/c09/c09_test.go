// C09 — clients of the generated Raft KV store observe a linearizable key-value store.
package c09

import (
	"fmt"
	"io"
	"log"
	"strings"
	"testing"
	"time"

	"github.com/DistCompiler/pgo/distsys/tla"
	"github.com/DistCompiler/pgo/distsys/trace"
	"github.com/anishathalye/porcupine"
	"pgregory.net/rapid"

	"verif/harness/sched"
	"verif/harness/sysbind"
	"verif/harness/vstat"
)

func TestMain(m *testing.M) {
	log.SetOutput(io.Discard)
	vstat.Main(m, "C09")
}

type kvIn struct {
	put        bool
	key, value string
}
type kvOut struct {
	ok    bool
	value string
}

// one register per key: a Get returns the latest preceding Put (or not-found)
var kvModel = porcupine.Model{
	Partition: func(h []porcupine.Operation) [][]porcupine.Operation {
		by := map[string][]porcupine.Operation{}
		var keys []string
		for _, o := range h {
			k := o.Input.(kvIn).key
			if _, ok := by[k]; !ok {
				keys = append(keys, k)
			}
			by[k] = append(by[k], o)
		}
		var out [][]porcupine.Operation
		for _, k := range keys {
			out = append(out, by[k])
		}
		return out
	},
	Init: func() interface{} { return "\x00absent" },
	Step: func(state, input, output interface{}) (bool, interface{}) {
		in, out := input.(kvIn), output.(kvOut)
		if in.put {
			return true, in.value
		}
		cur := state.(string)
		if cur == "\x00absent" {
			return !out.ok, state
		}
		return out.ok && out.value == cur, state
	},
	DescribeOperation: func(input, output interface{}) string {
		in, out := input.(kvIn), output.(kvOut)
		if in.put {
			return fmt.Sprintf("put(%s,%s)", in.key, in.value)
		}
		return fmt.Sprintf("get(%s) -> ok=%v %s", in.key, out.ok, out.value)
	},
}

type pendingOp struct {
	in   kvIn
	call int64
	idx  int
}

func field(v tla.Value, f string) tla.Value { return v.ApplyFunction(tla.MakeString(f)) }

// duplicatePuts lists, for every Put that some server's log holds more than once (same client and request
// number: a client retry that was appended again), the number of extra copies — the shape of the listed finding.
func duplicatePuts(r *sysbind.Raft) map[string]int {
	extra := map[string]int{}
	for s := range r.Shadow {
		seen := map[string]int{}
		it := r.Shadow[s]["log"].AsTuple().Iterator()
		for !it.Done() {
			_, e := it.Next()
			cmd := field(e, "cmd")
			if field(cmd, "type").AsString() != "put" {
				continue
			}
			k := fmt.Sprintf("%v|%v|%v", field(e, "client").AsNumber(), field(cmd, "key").AsString(), field(cmd, "value").AsString())
			seen[k]++
		}
		for k, c := range seen {
			if c-1 > extra[k] {
				extra[k] = c - 1
			}
		}
	}
	for k, c := range extra {
		if c == 0 {
			delete(extra, k)
		}
	}
	return extra
}

// histRec builds the clients' invoke/return history from the committed steps of the AClient archetypes.
type histRec struct {
	open           map[int]*pendingOp // per client
	ops            []porcupine.Operation
	hist           strings.Builder
	retries        int
	leaderChanges  int
	lastLeaderTerm int
	sends          map[int]int
}

func newHistRec() *histRec { return &histRec{open: map[int]*pendingOp{}, sends: map[int]int{}} }

func (h *histRec) onCommit(node, stepNo int, st sched.Step, termOf func(node int) int) string {
	switch st.PC {
	case "AClient.clientLoop":
		for _, el := range st.Event.Elements {
			if rd, ok := el.(trace.ReadElement); ok && rd.Name == "reqCh" {
				req := rd.Value
				op := &pendingOp{call: int64(stepNo), in: kvIn{put: field(req, "type").AsString() == "put", key: field(req, "key").AsString()}}
				if op.in.put {
					op.in.value = field(req, "value").AsString()
				}
				h.open[node] = op
				h.sends[node] = 0
				fmt.Fprintf(&h.hist, "%d: client %d invokes %s\n", stepNo, node, kvModel.DescribeOperation(op.in, kvOut{}))
			}
		}
	case "AClient.sndReq":
		h.sends[node]++
		if h.sends[node] > 1 {
			h.retries++
			fmt.Fprintf(&h.hist, "%d: client %d re-sends its request\n", stepNo, node)
		}
	case "AClient.rcvResp":
		for _, el := range st.Event.Elements {
			if w, ok := el.(trace.WriteElement); ok && w.Name == "respCh" {
				op := h.open[node]
				if op == nil {
					return fmt.Sprintf("client %d published a response without an open request", node)
				}
				resp := field(w.Value, "mresponse")
				out := kvOut{ok: field(resp, "ok").AsBool()}
				if out.ok {
					out.value = field(resp, "value").AsString()
				}
				if got := field(resp, "key").AsString(); got != op.in.key {
					return fmt.Sprintf("client %d asked about key %s and was answered about key %s", node, op.in.key, got)
				}
				h.ops = append(h.ops, porcupine.Operation{ClientId: node, Input: op.in, Call: op.call, Output: out, Return: int64(stepNo)})
				fmt.Fprintf(&h.hist, "%d: client %d returns %s\n", stepNo, node, kvModel.DescribeOperation(op.in, out))
				delete(h.open, node)
			}
		}
	case "AServerBecomeLeader.serverBecomeLeaderLoop":
		term := termOf(node)
		if h.lastLeaderTerm != 0 && term != h.lastLeaderTerm && len(h.open) > 0 {
			h.leaderChanges++
		}
		h.lastLeaderTerm = term
		fmt.Fprintf(&h.hist, "%d: server %d becomes leader of term %d\n", stepNo, node, term)
	}
	return ""
}

// judge checks the history with porcupine; view gives the servers' logs for the listed-finding shape.
func (h *histRec) judge(t *rapid.T, steps int, view *sysbind.Raft, what string, crashes []int) {
	// operations still open at the end may or may not have taken effect
	end := int64(steps + 1)
	ops := h.ops
	for node, op := range h.open {
		if op.in.put {
			ops = append(ops, porcupine.Operation{ClientId: node, Input: op.in, Call: op.call, Output: kvOut{}, Return: end})
		}
	}
	res, _ := porcupine.CheckOperationsVerbose(kvModel, ops, 20*time.Second)
	vstat.ClassN(what+"operations", int64(len(ops)))
	vstat.ClassN(what+"client-retries", int64(h.retries))
	if res == porcupine.Unknown {
		vstat.Class("porcupine.timeout")
		return
	}
	if res != porcupine.Ok {
		// The listed finding: a re-sent Put is appended (and applied) once per copy. It is set aside only if the history
		// becomes linearizable once every extra copy found in a log is counted as a further Put of the same value that
		// may take effect at any time after the original invocation; anything else is still reported.
		if dups := duplicatePuts(view); len(dups) > 0 {
			relaxed := append([]porcupine.Operation{}, ops...)
			for _, o := range ops {
				in := o.Input.(kvIn)
				if !in.put {
					continue
				}
				for i := 0; i < dups[fmt.Sprintf("%d|%s|%s", o.ClientId, in.key, in.value)]; i++ {
					relaxed = append(relaxed, porcupine.Operation{ClientId: 1000 + len(relaxed), Input: in, Call: o.Call, Output: kvOut{}, Return: end})
				}
			}
			r2, _ := porcupine.CheckOperationsVerbose(kvModel, relaxed, 20*time.Second)
			if r2 == porcupine.Unknown {
				vstat.Class("porcupine.timeout")
				return
			}
			if r2 == porcupine.Ok && vstat.Known("raft-duplicate-put-applied-twice") {
				return
			}
		}
		t.Fatalf("the acknowledged client history is not linearizable (%sservers=%d clients=%d crashes=%v)\n%s", what, view.O.NumServers, view.O.NumClients, crashes, h.hist.String())
	}
	// overlapping operations of two clients on one key, and a retry or leader change inside an operation's interval
	overlap := false
	for i := range ops {
		for j := range ops {
			if i < j && ops[i].ClientId != ops[j].ClientId && ops[i].Input.(kvIn).key == ops[j].Input.(kvIn).key &&
				ops[i].Call < ops[j].Return && ops[j].Call < ops[i].Return {
				overlap = true
			}
		}
	}
	if overlap && (h.retries > 0 || h.leaderChanges > 0) {
		hs := what + h.hist.String()
		vstat.NonTrivial(hs, func() string { return hs })
	}
}

func TestC09Linearizable(t *testing.T) {
	rapid.Check(t, func(t *rapid.T) {
		if vstat.OverBudget() {
			return
		}
		vstat.Case()
		h := newHistRec()
		run, msg := sysbind.DriveRaft(t, sysbind.RaftDriveOpts{
			MinClients: 2, MaxClients: 3, MaxSteps: 4000,
			OnCommit: func(run *sysbind.RaftRun, in *sched.Instance, st sched.Step) string {
				return h.onCommit(run.R.NodeOf(in), run.StepNo, st, func(node int) int { return int(run.R.Shadow[node-1]["currentTerm"].AsNumber()) })
			},
			Done: func(run *sysbind.RaftRun) bool {
				for _, c := range run.R.Clients {
					if run.R.Pending(run.R.NodeOf(c)) > 0 {
						return false
					}
				}
				return len(h.open) == 0
			},
		})
		if msg != "" {
			t.Fatalf("%s\n%s", msg, h.hist.String())
		}
		h.judge(t, run.Steps, run.R, "", run.Crashes)
	})
}
