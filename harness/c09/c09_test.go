// C09 — clients of the generated Raft KV store observe a linearizable key-value store.
package c09

import (
	"fmt"
	"io"
	"log"
	"strings"
	"testing"
	"time"

	"github.com/DistCompiler/pgo/distsys/tla"
	"github.com/DistCompiler/pgo/distsys/trace"
	"github.com/anishathalye/porcupine"
	"pgregory.net/rapid"

	"verif/harness/sched"
	"verif/harness/sysbind"
	"verif/harness/vstat"
)

func TestMain(m *testing.M) {
	log.SetOutput(io.Discard)
	vstat.Main(m, "C09")
}

type kvIn struct {
	put        bool
	key, value string
}
type kvOut struct {
	ok    bool
	value string
}

// one register per key: a Get returns the latest preceding Put (or not-found)
var kvModel = porcupine.Model{
	Partition: func(h []porcupine.Operation) [][]porcupine.Operation {
		by := map[string][]porcupine.Operation{}
		var keys []string
		for _, o := range h {
			k := o.Input.(kvIn).key
			if _, ok := by[k]; !ok {
				keys = append(keys, k)
			}
			by[k] = append(by[k], o)
		}
		var out [][]porcupine.Operation
		for _, k := range keys {
			out = append(out, by[k])
		}
		return out
	},
	Init: func() interface{} { return "\x00absent" },
	Step: func(state, input, output interface{}) (bool, interface{}) {
		in, out := input.(kvIn), output.(kvOut)
		if in.put {
			return true, in.value
		}
		cur := state.(string)
		if cur == "\x00absent" {
			return !out.ok, state
		}
		return out.ok && out.value == cur, state
	},
	DescribeOperation: func(input, output interface{}) string {
		in, out := input.(kvIn), output.(kvOut)
		if in.put {
			return fmt.Sprintf("put(%s,%s)", in.key, in.value)
		}
		return fmt.Sprintf("get(%s) -> ok=%v %s", in.key, out.ok, out.value)
	},
}

type pendingOp struct {
	in   kvIn
	call int64
	idx  int
}

func field(v tla.Value, f string) tla.Value { return v.ApplyFunction(tla.MakeString(f)) }

// duplicatedPut: some server's log holds two entries with the same (client, idx) for a Put —
// the shape of the listed finding (a client retry was appended twice).
func duplicatedPut(r *sysbind.Raft) bool {
	for s := range r.Shadow {
		seen := map[string]bool{}
		it := r.Shadow[s]["log"].AsTuple().Iterator()
		for !it.Done() {
			_, e := it.Next()
			cmd := field(e, "cmd")
			if field(cmd, "type").AsString() != "put" {
				continue
			}
			k := fmt.Sprintf("%v/%v", field(e, "client"), field(cmd, "idx"))
			if seen[k] {
				return true
			}
			seen[k] = true
		}
	}
	return false
}

func TestC09Linearizable(t *testing.T) {
	rapid.Check(t, func(t *rapid.T) {
		vstat.Case()
		open := map[int]*pendingOp{} // per client
		var ops []porcupine.Operation
		var hist strings.Builder
		retries, leaderChanges := 0, 0
		lastLeaderTerm := 0
		sends := map[int]int{}
		run, msg := sysbind.DriveRaft(t, sysbind.RaftDriveOpts{
			MinClients: 2, MaxClients: 3, MaxSteps: 4000,
			OnCommit: func(run *sysbind.RaftRun, in *sched.Instance, st sched.Step) string {
				node := run.R.NodeOf(in)
				switch st.PC {
				case "AClient.clientLoop":
					for _, el := range st.Event.Elements {
						if rd, ok := el.(trace.ReadElement); ok && rd.Name == "reqCh" {
							req := rd.Value
							op := &pendingOp{call: int64(run.StepNo), in: kvIn{put: field(req, "type").AsString() == "put", key: field(req, "key").AsString()}}
							if op.in.put {
								op.in.value = field(req, "value").AsString()
							}
							open[node] = op
							sends[node] = 0
							fmt.Fprintf(&hist, "%d: client %d invokes %s\n", run.StepNo, node, kvModel.DescribeOperation(op.in, kvOut{}))
						}
					}
				case "AClient.sndReq":
					sends[node]++
					if sends[node] > 1 {
						retries++
						fmt.Fprintf(&hist, "%d: client %d re-sends its request\n", run.StepNo, node)
					}
				case "AClient.rcvResp":
					for _, el := range st.Event.Elements {
						if w, ok := el.(trace.WriteElement); ok && w.Name == "respCh" {
							op := open[node]
							if op == nil {
								return fmt.Sprintf("client %d published a response without an open request", node)
							}
							resp := field(w.Value, "mresponse")
							out := kvOut{ok: field(resp, "ok").AsBool()}
							if out.ok {
								out.value = field(resp, "value").AsString()
							}
							if got := field(resp, "key").AsString(); got != op.in.key {
								return fmt.Sprintf("client %d asked about key %s and was answered about key %s", node, op.in.key, got)
							}
							ops = append(ops, porcupine.Operation{ClientId: node, Input: op.in, Call: op.call, Output: out, Return: int64(run.StepNo)})
							fmt.Fprintf(&hist, "%d: client %d returns %s\n", run.StepNo, node, kvModel.DescribeOperation(op.in, out))
							delete(open, node)
						}
					}
				case "AServerBecomeLeader.serverBecomeLeaderLoop":
					term := int(run.R.Shadow[node-1]["currentTerm"].AsNumber())
					if lastLeaderTerm != 0 && term != lastLeaderTerm && len(open) > 0 {
						leaderChanges++
					}
					lastLeaderTerm = term
					fmt.Fprintf(&hist, "%d: server %d becomes leader of term %d\n", run.StepNo, node, term)
				}
				return ""
			},
			Done: func(run *sysbind.RaftRun) bool {
				for _, c := range run.R.Clients {
					if run.R.Pending(run.R.NodeOf(c)) > 0 {
						return false
					}
				}
				return len(open) == 0
			},
		})
		if msg != "" {
			t.Fatalf("%s\n%s", msg, hist.String())
		}
		// operations still open at the end may or may not have taken effect
		end := int64(run.Steps + 1)
		for node, op := range open {
			if op.in.put {
				ops = append(ops, porcupine.Operation{ClientId: node, Input: op.in, Call: op.call, Output: kvOut{}, Return: end})
			}
		}
		res, _ := porcupine.CheckOperationsVerbose(kvModel, ops, 20*time.Second)
		vstat.ClassN("operations", int64(len(ops)))
		vstat.ClassN("client-retries", int64(retries))
		if res == porcupine.Unknown {
			vstat.Class("porcupine.timeout")
			return
		}
		if res != porcupine.Ok {
			if duplicatedPut(run.R) && vstat.Known("raft-duplicate-put-applied-twice") {
				return
			}
			t.Fatalf("the acknowledged client history is not linearizable (servers=%d clients=%d crashes=%v)\n%s", run.R.O.NumServers, run.R.O.NumClients, run.Crashes, hist.String())
		}
		// overlapping operations of two clients on one key, and a retry or leader change inside an operation's interval
		overlap := false
		for i := range ops {
			for j := range ops {
				if i < j && ops[i].ClientId != ops[j].ClientId && ops[i].Input.(kvIn).key == ops[j].Input.(kvIn).key &&
					ops[i].Call < ops[j].Return && ops[j].Call < ops[i].Return {
					overlap = true
				}
			}
		}
		if overlap && (retries > 0 || leaderChanges > 0) {
			h := hist.String()
			vstat.NonTrivial(h, func() string { return h })
		}
	})
}
