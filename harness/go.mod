module verif/harness

go 1.23.0

require (
	github.com/DistCompiler/pgo/distsys v0.0.0
	github.com/anishathalye/porcupine v1.3.0
	github.com/benbjohnson/immutable v0.4.3
	pgregory.net/rapid v1.3.0
)

require (
	github.com/segmentio/fasthash v1.0.3 // indirect
	go.uber.org/multierr v1.11.0 // indirect
	golang.org/x/exp v0.0.0-20250218142911-aa4b98e5adaa // indirect
)

replace github.com/DistCompiler/pgo/distsys => /repo/distsys
