// C06 — mailboxes and channels are reliable FIFO exactly-once transactional links.
//
// Direct drive (DESIGN.md, E3): the test plays MPCalContext for 1-3 logical senders and 1-2
// logical receivers from ONE goroutine, calling Index/WriteValue/ReadValue/PreCommit/Commit/
// Abort on the real resources in the order the Run loop would, while a model keeps, per
// (sender, receiver) link, the committed stream and what the receiver has consumed.
//
// Three variants of the same machine: TCP mailboxes, relaxed mailboxes (sender sections
// restricted to the documented shape) and Go-channel resources (OutputChan -> InputChan, and
// raftkvs.CustomInChan, see customch_test.go).
package c06

import (
	"bytes"
	"errors"
	"fmt"
	"io"
	"log"
	"net"
	"runtime"
	"strings"
	"sync"
	"testing"
	"time"

	"github.com/DistCompiler/pgo/distsys"
	"github.com/DistCompiler/pgo/distsys/resources"
	"github.com/DistCompiler/pgo/distsys/tla"
	"pgregory.net/rapid"

	"verif/harness/hx"
	"verif/harness/vstat"
)

func TestMain(m *testing.M) { vstat.Main(m, "C06") }

const (
	watchdog    = 20 * time.Second // no resource call may block this long: a time-out aborts, it does not hang
	drainQuiet  = 3 * time.Second  // final drain gives up after this long without any message (and enough read rounds)
	commitGrace = 5 * time.Millisecond
	retryMark   = "network error during commit" // the code's own admission of a connection failure
)

type variant int

const (
	vTCP variant = iota
	vRelaxed
	vChan
)

func (v variant) String() string { return [...]string{"tcp", "relaxed", "chan"}[v] }

// Most cases send bare tokens; some pad every message so that the kernel's socket buffers fill
// while a receiver is slow, which is what makes a write time out.
var padChoices = []int{0, 0, 0, 0, 0, 0, 0, 0, 0, 0, 64 << 10, 2 << 20}

// customIn is set by customch_test.go (kept apart: it links the raftkvs module).
var customIn func(ch <-chan tla.Value, timeout time.Duration) distsys.ArchetypeResource

// ---- log capture ---------------------------------------------------------------------------

type caseLog struct {
	mu    sync.Mutex
	buf   []byte
	retry bool
}

func (l *caseLog) Write(p []byte) (int, error) {
	l.mu.Lock()
	defer l.mu.Unlock()
	if bytes.Contains(p, []byte(retryMark)) {
		l.retry = true
	}
	if len(l.buf) < 1<<18 {
		l.buf = append(l.buf, p...)
	}
	return len(p), nil
}

func (l *caseLog) sawRetry() bool {
	l.mu.Lock()
	defer l.mu.Unlock()
	return l.retry
}

func (l *caseLog) tail(n int) string {
	l.mu.Lock()
	defer l.mu.Unlock()
	b := l.buf
	if len(b) > n {
		b = b[len(b)-n:]
	}
	return string(b)
}

// ---- model -----------------------------------------------------------------------------------

type tokState int

const (
	tokOpen      tokState = iota // written by a sender section that has neither committed nor aborted
	tokAborted                   // its section aborted: must never be delivered
	tokCommitted                 // Commit was called for its section (or, relaxed: the write succeeded)
)

type token struct {
	s, r  int
	state tokState
	batch int // id of the (section, receiver) batch; -1 until committed
	pos   int // index in stream[s][r]
	bpos  int // index inside its batch
}

// stopCase is a panic sentinel: the case is not executed or asserted any further, and is
// counted under the given class (a commit retry, or a listed known finding).
type stopCase struct{ class string }

const (
	classRetry = "set-aside.commit-retry"
	// Known finding (signature in known_findings.json): after a relaxed remote mailbox timed out
	// on a write it drops its connection; messages it had written before are still queued behind
	// the old connection's handler and are overtaken by messages sent over the new connection.
	sigRelaxedReorder = "relaxed-reorder-after-write-timeout"
)

// failer is what the machine needs from *rapid.T / *testing.T.
type failer interface {
	Fatalf(format string, args ...any)
}

type machine struct {
	t   failer
	v   variant
	in  string // reader kind for the channel variant
	nS  int
	nR  int
	log *caseLog

	sIface, rIface []distsys.ArchetypeInterface
	snd, rcv, lens []distsys.ArchetypeResource
	ridx           []tla.Value

	toks      []*token
	batchSize []int
	stream    [][][]int // [s][r] tokens in commit order (visible, or about to be, to r)
	consumed  [][]int   // [s][r] how many of stream[s][r] were handed to r at least once
	rcommit   [][][]int // [s][r] tokens obtained by committed receiver sections, in order
	secToks   [][][]int // [s][r] tokens written by s's open section
	sOpen     []bool
	relSent   []bool          // relaxed: the open section holds a successful send, so it must commit
	commitCh  []chan struct{} // non-nil: Commit was called for s and has not returned yet
	commitAt  []time.Time
	inflight  [][]int // [r] reads of the open receiver section
	redeliver [][]int // [r] reads of aborted sections that must come back first, in order
	rOpen     []bool
	lenDirty  []bool
	partial   []int // [r] TCP: batch being consumed (-1 none)
	from      [][]bool

	padLen int // bytes of padding per message (0: the bare token)
	start  time.Time
	hist   strings.Builder
	header string
	dead   string   // non-empty: class under which the case was set aside; nothing more is executed or asserted
	sendTO [][]bool // [s][r] a write on this link was refused (time-out)
	hung   bool

	// non-triviality and counters
	sAbortAfterSend, rAbortAfterRead, multiBatch bool
	steps                                        int
}

func (m *machine) note(format string, a ...any) {
	fmt.Fprintf(&m.hist, format+"\n", a...)
}

func allStacks() string {
	buf := make([]byte, 1<<20)
	return string(buf[:runtime.Stack(buf, true)])
}

func (m *machine) violation(format string, a ...any) {
	if m.log.sawRetry() {
		panic(stopCase{classRetry})
	}
	m.t.Fatalf("C06/%s violated: %s\n---- history (%s)\n%s---- model\n%s---- log tail\n%s",
		m.v, fmt.Sprintf(format, a...), m.header, m.hist.String(), m.dump(), m.log.tail(3000))
}

func (m *machine) dump() string {
	var b strings.Builder
	for s := 0; s < m.nS; s++ {
		for r := 0; r < m.nR; r++ {
			fmt.Fprintf(&b, "link S%d->R%d committed %s, handed out %d, obtained by committed sections %s\n",
				s, r, toks(m.stream[s][r]), m.consumed[s][r], toks(m.rcommit[s][r]))
		}
	}
	for r := 0; r < m.nR; r++ {
		fmt.Fprintf(&b, "R%d open-section reads %s, to be redelivered first %s\n", r, toks(m.inflight[r]), toks(m.redeliver[r]))
	}
	return b.String()
}

func toks(l []int) string {
	p := make([]string, len(l))
	for i, x := range l {
		p[i] = fmt.Sprintf("t%d", x)
	}
	return "[" + strings.Join(p, " ") + "]"
}

// guard runs one resource call under the watchdog and turns a panic into a failure.
func (m *machine) guard(what string, f func()) {
	done := make(chan *hx.PanicError, 1)
	go func() { done <- hx.Catch(f) }()
	tm := time.NewTimer(watchdog)
	defer tm.Stop()
	select {
	case p := <-done:
		if p != nil {
			m.violation("%s panicked: %v\n%s", what, p.Value, p.Stack)
		}
	case <-tm.C:
		m.hung = true
		m.violation("%s did not return within %v (a time-out or a full buffer may abort a section, not block it)\n%s", what, watchdog, allStacks())
	}
}

func (m *machine) await(what string, ch <-chan struct{}) {
	if ch == nil {
		return
	}
	tm := time.NewTimer(watchdog)
	defer tm.Stop()
	select {
	case <-ch:
	case <-tm.C:
		m.hung = true
		m.violation("%s did not complete within %v\n%s", what, watchdog, allStacks())
	}
}

func (m *machine) awaitErr(what string, ch <-chan error) error {
	if ch == nil {
		return nil
	}
	tm := time.NewTimer(watchdog)
	defer tm.Stop()
	select {
	case err := <-ch:
		return err
	case <-tm.C:
		m.hung = true
		m.violation("%s did not complete within %v\n%s", what, watchdog, allStacks())
		return nil
	}
}

// poll notices commits that have returned; each gets up to d to do so.
func (m *machine) poll(d time.Duration) {
	for s := 0; s < m.nS; s++ {
		if m.commitCh[s] == nil {
			continue
		}
		tm := time.NewTimer(d)
		select {
		case <-m.commitCh[s]:
			m.commitCh[s] = nil
			m.note("S%d commit returned", s)
		case <-tm.C:
		}
		tm.Stop()
	}
}

func (m *machine) anyCommitting() bool {
	for _, c := range m.commitCh {
		if c != nil {
			return true
		}
	}
	return false
}

// ---- sender side -------------------------------------------------------------------------------

func (m *machine) send(s, r int) {
	if m.commitCh[s] != nil {
		m.note("S%d is still committing: no new section", s)
		return
	}
	if m.v == vRelaxed && m.relSent[s] {
		// documented shape: at most one send per section, nothing after it but the commit
		m.senderCommit(s)
		if m.commitCh[s] != nil {
			return
		}
	}
	id := len(m.toks)
	tk := &token{s: s, r: r, state: tokOpen, batch: -1}
	m.toks = append(m.toks, tk)
	var err error
	m.guard("WriteValue", func() {
		var el distsys.ArchetypeResource
		if el, err = m.snd[s].Index(m.sIface[s], m.ridx[r]); err == nil {
			err = el.WriteValue(m.sIface[s], m.encode(id))
		}
	})
	m.sOpen[s] = true
	switch {
	case err == nil:
		m.note("S%d send t%d -> R%d", s, id, r)
		m.secToks[s][r] = append(m.secToks[s][r], id)
		if m.v == vRelaxed {
			// a relaxed write cannot be taken back: it may be seen from now on
			m.relSent[s] = true
			m.commitTokens(s)
		}
	case errors.Is(err, distsys.ErrCriticalSectionAborted):
		m.note("S%d send t%d -> R%d: refused (time-out), section aborts", s, id, r)
		vstat.Class("timeout.send")
		vstat.Note("last refused send, log tail", m.log.tail(300))
		m.sendTO[s][r] = true
		tk.state = tokAborted
		m.senderAbort(s, false)
	default:
		m.violation("WriteValue returned %v (only ErrCriticalSectionAborted may refuse a write)", err)
	}
}

// commitTokens moves the open section's writes of s into the committed streams.
func (m *machine) commitTokens(s int) {
	for r := 0; r < m.nR; r++ {
		l := m.secToks[s][r]
		if len(l) == 0 {
			continue
		}
		b := len(m.batchSize)
		m.batchSize = append(m.batchSize, len(l))
		for i, id := range l {
			tk := m.toks[id]
			tk.state, tk.batch, tk.bpos, tk.pos = tokCommitted, b, i, len(m.stream[s][r])
			m.stream[s][r] = append(m.stream[s][r], id)
		}
		if len(l) >= 2 {
			m.multiBatch = true
			vstat.Class("batch.multi-message")
		} else {
			vstat.Class("batch.single-message")
		}
		m.secToks[s][r] = nil
	}
}

func (m *machine) senderAbort(s int, asked bool) {
	if m.commitCh[s] != nil {
		m.note("S%d is still committing: nothing to abort", s)
		return
	}
	if m.v == vRelaxed && m.relSent[s] {
		m.note("S%d: a relaxed section that has sent cannot abort (documented); not generated", s)
		return
	}
	var ch chan struct{}
	m.guard("sender Abort", func() { ch = m.snd[s].Abort(m.sIface[s]) })
	m.await("sender Abort", ch)
	n := 0
	for r := 0; r < m.nR; r++ {
		for _, id := range m.secToks[s][r] {
			m.toks[id].state = tokAborted
			n++
		}
		m.secToks[s][r] = nil
	}
	m.sOpen[s] = false
	if asked || n > 0 {
		m.note("S%d abort (%d sends dropped)", s, n)
	}
	if n > 0 {
		m.sAbortAfterSend = true
		vstat.Class("sender.abort-after-send")
	}
}

func (m *machine) senderCommit(s int) {
	if m.commitCh[s] != nil {
		m.note("S%d is still committing", s)
		return
	}
	var pre chan error
	m.guard("sender PreCommit", func() { pre = m.snd[s].PreCommit(m.sIface[s]) })
	if err := m.awaitErr("sender PreCommit", pre); err != nil {
		if !errors.Is(err, distsys.ErrCriticalSectionAborted) {
			m.violation("PreCommit returned %v (only ErrCriticalSectionAborted may refuse)", err)
		}
		m.note("S%d pre-commit refused (time-out / full buffer), section aborts", s)
		vstat.Class("timeout.precommit")
		vstat.Class("backpressure.precommit-refused")
		m.senderAbort(s, false)
		return
	}
	// From here on the section counts as committed: its messages may become visible at any time.
	var desc []string
	for r := 0; r < m.nR; r++ {
		if len(m.secToks[s][r]) > 0 {
			desc = append(desc, fmt.Sprintf("R%d:%s", r, toks(m.secToks[s][r])))
		}
	}
	m.commitTokens(s)
	m.sOpen[s] = false
	m.relSent[s] = false
	var ch chan struct{}
	m.guard("sender Commit", func() { ch = m.snd[s].Commit(m.sIface[s]) })
	m.note("S%d commit %s", s, strings.Join(desc, " "))
	vstat.Class("sender.commit")
	if ch == nil {
		return
	}
	tm := time.NewTimer(commitGrace)
	defer tm.Stop()
	select {
	case <-ch:
	case <-tm.C:
		// legitimate back-pressure: Commit may block until the receiver makes room; receivers go on
		m.commitCh[s], m.commitAt[s] = ch, time.Now()
		m.note("S%d commit is blocked (receiver buffer full?)", s)
		vstat.Class("backpressure.commit-blocked")
	}
}

// ---- receiver side -----------------------------------------------------------------------------

func (m *machine) recv(r int) (got bool) {
	var v tla.Value
	var err error
	m.guard("ReadValue", func() {
		var el distsys.ArchetypeResource
		if el, err = m.rcv[r].Index(m.rIface[r], m.ridx[r]); err == nil {
			v, err = el.ReadValue(m.rIface[r])
		}
	})
	m.rOpen[r] = true
	if err != nil {
		if !errors.Is(err, distsys.ErrCriticalSectionAborted) {
			m.violation("ReadValue returned %v (only ErrCriticalSectionAborted may refuse a read)", err)
		}
		m.note("R%d recv: time-out, section aborts", r)
		vstat.Class("timeout.recv")
		m.recvAbort(r, false)
		return false
	}
	v = v.StripVClock()
	if m.in == "CustomInChan" && v.IsBool() && v.AsBool() {
		m.note("R%d recv: nothing (CustomInChan default TRUE)", r)
		vstat.Class("timeout.recv-default")
		return false
	}
	x, ok := m.decode(v)
	if !ok {
		m.violation("R%d received %.200s, which no sender ever sent (invented or corrupted)", r, v.String())
	}
	m.delivered(r, x)
	return true
}

// A message is its token number, or <<token, padding>> when the case uses large messages
// (so that socket buffers, not only the mailbox's own queue, can fill up).
func (m *machine) encode(id int) tla.Value {
	if m.padLen == 0 {
		return tla.MakeNumber(int32(id))
	}
	return tla.MakeTuple(tla.MakeNumber(int32(id)), padding(m.padLen))
}

func (m *machine) decode(v tla.Value) (int, bool) {
	if m.padLen == 0 {
		if !v.IsNumber() {
			return 0, false
		}
		return int(v.AsNumber()), true
	}
	if !v.IsTuple() || v.AsTuple().Len() != 2 {
		return 0, false
	}
	id, pad := v.AsTuple().Get(0), v.AsTuple().Get(1)
	if !id.IsNumber() || !pad.IsString() || pad.AsString() != padding(m.padLen).AsString() {
		return 0, false
	}
	return int(id.AsNumber()), true
}

var pads = map[int]tla.Value{}

func padding(n int) tla.Value {
	if v, ok := pads[n]; ok {
		return v
	}
	v := tla.MakeString(strings.Repeat("0123456789abcdef", n/16))
	pads[n] = v
	return v
}

func (m *machine) delivered(r, x int) {
	if len(m.redeliver[r]) > 0 {
		want := m.redeliver[r][0]
		if x != want {
			m.note("R%d recv -> t%d", r, x)
			m.violation("R%d: reads of an aborted section must be redelivered first and in order: expected t%d, got t%d", r, want, x)
		}
		m.redeliver[r] = m.redeliver[r][1:]
		m.inflight[r] = append(m.inflight[r], x)
		m.note("R%d recv -> t%d (redelivered)", r, x)
		vstat.Class("recv.redelivered")
		return
	}
	m.note("R%d recv -> t%d", r, x)
	if x < 0 || x >= len(m.toks) {
		m.violation("R%d received t%d, which no sender ever sent (invented)", r, x)
	}
	tk := m.toks[x]
	if tk.r != r {
		m.violation("R%d received t%d, which S%d sent to R%d", r, x, tk.s, tk.r)
	}
	switch tk.state {
	case tokAborted:
		m.violation("R%d received t%d, written by a section of S%d that aborted", r, x, tk.s)
	case tokOpen:
		m.violation("R%d received t%d, written by a section of S%d that has not committed", r, x, tk.s)
	}
	s := tk.s
	next := m.consumed[s][r]
	if next >= len(m.stream[s][r]) || m.stream[s][r][next] != x {
		what := "reordered or an earlier message lost"
		if tk.pos < next {
			what = "duplicated"
		}
		if m.v == vRelaxed && m.sendTO[s][r] && tk.pos > next && !m.log.sawRetry() {
			m.note("  ^ overtook t%d, which S%d had sent earlier over a connection it dropped after a write time-out", m.stream[s][r][next], s)
			if vstat.Known(sigRelaxedReorder) {
				panic(stopCase{"known." + sigRelaxedReorder})
			}
			what = "reordered: overtook messages written before the sender's write time-out; signature " + sigRelaxedReorder
		}
		exp := "nothing (all committed messages were already delivered)"
		if next < len(m.stream[s][r]) {
			exp = fmt.Sprintf("t%d", m.stream[s][r][next])
		}
		m.violation("R%d received t%d from S%d but the next undelivered committed message on that link is %s (%s)", r, x, s, exp, what)
	}
	if m.v == vTCP {
		if p := m.partial[r]; p >= 0 && p != tk.batch {
			m.violation("R%d received t%d (S%d) in the middle of another section's batch: TCP mailbox batches arrive contiguously", r, x, s)
		}
		if tk.bpos+1 < m.batchSize[tk.batch] {
			m.partial[r] = tk.batch
		} else {
			m.partial[r] = -1
		}
	}
	m.consumed[s][r]++
	m.inflight[r] = append(m.inflight[r], x)
	m.from[r][s] = true
	vstat.Class("recv.message")
}

func (m *machine) recvCommit(r int) {
	var pre, preL chan error
	m.guard("receiver PreCommit", func() {
		pre = m.rcv[r].PreCommit(m.rIface[r])
		if m.lenDirty[r] {
			preL = m.lens[r].PreCommit(m.rIface[r])
		}
	})
	e1 := m.awaitErr("receiver PreCommit", pre)
	e2 := m.awaitErr("receiver PreCommit", preL)
	if e1 != nil || e2 != nil {
		// never happens with these resources; handled as the Run loop would
		m.note("R%d pre-commit refused, section aborts", r)
		m.recvAbort(r, false)
		return
	}
	var ch, chL chan struct{}
	m.guard("receiver Commit", func() {
		ch = m.rcv[r].Commit(m.rIface[r])
		if m.lenDirty[r] {
			chL = m.lens[r].Commit(m.rIface[r])
		}
	})
	m.await("receiver Commit", ch)
	m.await("receiver Commit", chL)
	for _, x := range m.inflight[r] {
		s := m.toks[x].s
		m.rcommit[s][r] = append(m.rcommit[s][r], x)
	}
	m.note("R%d commit %s", r, toks(m.inflight[r]))
	if len(m.inflight[r]) > 0 {
		vstat.Class("receiver.commit-with-reads")
	}
	m.inflight[r], m.rOpen[r], m.lenDirty[r] = nil, false, false
}

func (m *machine) recvAbort(r int, asked bool) {
	var ch, chL chan struct{}
	m.guard("receiver Abort", func() {
		ch = m.rcv[r].Abort(m.rIface[r])
		if m.lenDirty[r] {
			chL = m.lens[r].Abort(m.rIface[r])
		}
	})
	m.await("receiver Abort", ch)
	m.await("receiver Abort", chL)
	n := len(m.inflight[r])
	if n > 0 {
		m.redeliver[r] = append(append([]int(nil), m.inflight[r]...), m.redeliver[r]...)
		m.rAbortAfterRead = true
		vstat.Class("receiver.abort-after-read")
	}
	if asked || n > 0 {
		m.note("R%d abort, rolls back %s", r, toks(m.inflight[r]))
	}
	m.inflight[r], m.rOpen[r], m.lenDirty[r] = nil, false, false
}

func (m *machine) pending(r int) int {
	n := len(m.redeliver[r])
	for s := 0; s < m.nS; s++ {
		n += len(m.stream[s][r]) - m.consumed[s][r]
	}
	return n
}

func (m *machine) length(r int) {
	if m.lens == nil {
		return
	}
	var v tla.Value
	var err error
	m.guard("length ReadValue", func() {
		var el distsys.ArchetypeResource
		if el, err = m.lens[r].Index(m.rIface[r], m.ridx[r]); err == nil {
			v, err = el.ReadValue(m.rIface[r])
		}
	})
	m.rOpen[r], m.lenDirty[r] = true, true
	if err != nil {
		if !errors.Is(err, distsys.ErrCriticalSectionAborted) {
			m.violation("length read returned %v", err)
		}
		m.recvAbort(r, false)
		return
	}
	v = v.StripVClock()
	if !v.IsNumber() {
		m.violation("R%d: buffer length is %v, not a number", r, v)
	}
	n, p := int(v.AsNumber()), m.pending(r)
	m.note("R%d len -> %d (pending per model: %d)", r, n, p)
	vstat.Class("len.read")
	if n > 0 {
		vstat.Class("len.positive")
	}
	if n < 0 || n > p {
		m.violation("R%d: reported buffer length %d exceeds the %d messages actually pending (committed, not yet received, plus rolled back)", r, n, p)
	}
}

// ---- set-up / tear-down --------------------------------------------------------------------------

func freeAddr() string {
	l, err := net.Listen("tcp", "127.0.0.1:0")
	if err != nil {
		panic(err)
	}
	defer l.Close()
	return l.Addr().String()
}

func newIface(id int32, name string) distsys.ArchetypeInterface {
	return distsys.NewMPCalContext(tla.MakeNumber(id), distsys.MPCalArchetype{
		Name: name, Label: name + ".l",
		JumpTable: distsys.MakeMPCalJumpTable(), ProcTable: distsys.MakeMPCalProcTable(),
		PreAmble: func(distsys.ArchetypeInterface) {},
	}).IFace()
}

func (m *machine) setup(bufSize int, readTO, writeTO, dialTO time.Duration) {
	for s := 0; s < m.nS; s++ {
		m.sIface = append(m.sIface, newIface(int32(s), "Sender"))
	}
	for r := 0; r < m.nR; r++ {
		m.rIface = append(m.rIface, newIface(int32(100+r), "Receiver"))
		m.ridx = append(m.ridx, tla.MakeNumber(int32(100+r)))
	}
	which := func(idx tla.Value) int {
		for r, v := range m.ridx {
			if v.Equal(idx) {
				return r
			}
		}
		panic(fmt.Sprintf("harness: unexpected mailbox index %v", idx))
	}
	if m.v == vChan {
		chans := make([]chan tla.Value, m.nR)
		for r := range chans {
			chans[r] = make(chan tla.Value, bufSize)
			ch := chans[r]
			var in distsys.ArchetypeResource
			if m.in == "CustomInChan" {
				in = customIn(ch, readTO)
			} else {
				in = resources.NewInputChan(ch, resources.WithInputChanReadTimeout(readTO))
			}
			m.rcv = append(m.rcv, resources.NewIncMap(func(tla.Value) distsys.ArchetypeResource { return in }))
		}
		for s := 0; s < m.nS; s++ {
			m.snd = append(m.snd, resources.NewIncMap(func(idx tla.Value) distsys.ArchetypeResource {
				return resources.NewOutputChan(chans[which(idx)])
			}))
		}
		return
	}
	opts := []resources.MailboxesOption{
		resources.WithMailboxesReceiveChanSize(bufSize),
		resources.WithMailboxesReadTimeout(readTO),
		resources.WithMailboxesWriteTimeout(writeTO),
		resources.WithMailboxesDialTimeout(dialTO),
	}
	mk := resources.NewTCPMailboxes
	if m.v == vRelaxed {
		mk = resources.NewRelaxedMailboxes
	}
	addrs := make([]string, m.nR)
	for r := 0; r < m.nR; r++ {
		// the port found free may be taken by another process before the mailbox listens: retry
		var mb *resources.Mailboxes
		var p *hx.PanicError
		for try := 0; try < 20; try++ {
			addr := freeAddr()
			self := r
			mb = mk(func(idx tla.Value) (resources.MailboxKind, string) {
				if which(idx) == self {
					return resources.MailboxesLocal, addr
				}
				return resources.MailboxesRemote, addrs[which(idx)]
			}, opts...)
			p = hx.Catch(func() { _, _ = mb.Index(distsys.ArchetypeInterface{}, m.ridx[r]) }) // listen now
			if p == nil {
				addrs[r] = addr
				break
			}
			if !strings.Contains(fmt.Sprint(p.Value), "could not listen") {
				break
			}
		}
		if p != nil {
			m.t.Fatalf("INCONCLUSIVE: cannot start a listening mailbox: %v", p.Value)
		}
		m.rcv = append(m.rcv, mb)
		m.lens = append(m.lens, resources.NewMailboxesLength(mb))
	}
	for s := 0; s < m.nS; s++ {
		m.snd = append(m.snd, mk(func(idx tla.Value) (resources.MailboxKind, string) {
			return resources.MailboxesRemote, addrs[which(idx)]
		}, opts...))
	}
}

// tryRun is for tear-down: no assertion, bounded wait.
func tryRun(d time.Duration, f func()) bool {
	done := make(chan struct{})
	go func() { defer close(done); hx.Catch(f) }()
	select {
	case <-done:
		return true
	case <-time.After(d):
		return false
	}
}

func (m *machine) teardown() {
	// A commit still in flight (only after a failure or a set-aside) must be allowed to finish
	// while its receiver is alive: the TCP commit retries for ever otherwise.
	if !m.hung {
		deadline := time.Now().Add(5 * time.Second)
		for m.anyCommitting() && time.Now().Before(deadline) {
			m.poll(time.Millisecond)
			for r := 0; r < m.nR && m.anyCommitting(); r++ {
				r := r
				if !tryRun(2*time.Second, func() {
					if el, err := m.rcv[r].Index(m.rIface[r], m.ridx[r]); err == nil {
						_, _ = el.ReadValue(m.rIface[r])
					}
					if ch := m.rcv[r].Commit(m.rIface[r]); ch != nil {
						<-ch
					}
				}) {
					deadline = time.Now()
				}
			}
		}
	}
	// Senders first, so that every connection handler of a receiver ends on EOF before the
	// receiver is told to stop (a handler interrupted by Close leaves its reader goroutine
	// behind); each group concurrently: a TCP mailbox takes 500 ms to close.
	closeAll := func(l []distsys.ArchetypeResource) {
		var wg sync.WaitGroup
		for _, res := range l {
			res := res
			wg.Add(1)
			go func() { defer wg.Done(); hx.Catch(func() { _ = res.Close() }) }()
		}
		tryRun(watchdog, wg.Wait)
	}
	closeAll(m.snd)
	if m.v != vChan {
		time.Sleep(2 * time.Millisecond)
	}
	closeAll(append(append([]distsys.ArchetypeResource(nil), m.rcv...), m.lens...))
	log.SetOutput(io.Discard)
	// evidence that cases do not leak into each other (listeners, connection handlers, commits)
	vstat.Note("goroutines alive after the last case of "+m.v.String(), fmt.Sprint(runtime.NumGoroutine()))
}

// ---- one case ---------------------------------------------------------------------------------

func (m *machine) initModel() {
	m.stream, m.rcommit, m.secToks = make([][][]int, m.nS), make([][][]int, m.nS), make([][][]int, m.nS)
	m.consumed, m.sendTO = make([][]int, m.nS), make([][]bool, m.nS)
	for s := 0; s < m.nS; s++ {
		m.stream[s], m.rcommit[s], m.secToks[s] = make([][]int, m.nR), make([][]int, m.nR), make([][]int, m.nR)
		m.consumed[s], m.sendTO[s] = make([]int, m.nR), make([]bool, m.nR)
	}
	m.sOpen, m.relSent = make([]bool, m.nS), make([]bool, m.nS)
	m.commitCh, m.commitAt = make([]chan struct{}, m.nS), make([]time.Time, m.nS)
	m.inflight, m.redeliver = make([][]int, m.nR), make([][]int, m.nR)
	m.rOpen, m.lenDirty, m.partial = make([]bool, m.nR), make([]bool, m.nR), make([]int, m.nR)
	m.from = make([][]bool, m.nR)
	for r := 0; r < m.nR; r++ {
		m.partial[r] = -1
		m.from[r] = make([]bool, m.nS)
	}
}

// protect runs f; a stopCase panic ends the case quietly, anything else goes on to the caller.
func (m *machine) protect(f func()) {
	defer func() {
		if x := recover(); x != nil {
			if sc, ok := x.(stopCase); ok {
				m.dead = sc.class
				return
			}
			panic(x)
		}
	}()
	f()
}

func runCase(t *rapid.T, v variant) {
	if vstat.OverBudget() {
		return
	}
	vstat.Case()
	m := &machine{t: t, v: v, log: &caseLog{}, start: time.Now()}
	log.SetOutput(m.log)
	m.nS = rapid.IntRange(1, 3).Draw(t, "senders")
	m.nR = rapid.IntRange(1, 2).Draw(t, "receivers")
	minBuf := 1
	if v == vChan {
		minBuf = 0 // an unbuffered Go channel is a legal link too
		kinds := []string{"InputChan"}
		if customIn != nil {
			kinds = append(kinds, "CustomInChan")
		}
		m.in = rapid.SampledFrom(kinds).Draw(t, "reader")
	}
	bufSize := rapid.IntRange(minBuf, 3).Draw(t, "bufSize")
	if v != vChan {
		m.padLen = rapid.SampledFrom(padChoices).Draw(t, "paddingBytes")
	}
	readTO := time.Duration(rapid.IntRange(20, 50).Draw(t, "readTimeoutMs")) * time.Millisecond
	writeTO := time.Duration(rapid.IntRange(300, 400).Draw(t, "writeTimeoutMs")) * time.Millisecond
	dialTO := time.Duration(rapid.IntRange(300, 400).Draw(t, "dialTimeoutMs")) * time.Millisecond
	// swarm parameter: a slow receiver takes only a quarter of its reads, so buffers fill up
	slow := make([]bool, m.nR)
	for r := range slow {
		slow[r] = rapid.IntRange(0, 2).Draw(t, "slowReceiver") == 0
	}
	m.header = fmt.Sprintf("%s%s senders=%d receivers=%d buffer=%d read=%v write=%v dial=%v slow=%v padding=%dB", v, m.in, m.nS, m.nR, bufSize, readTO, writeTO, dialTO, slow, m.padLen)

	m.initModel()

	defer m.teardown()
	m.setup(bufSize, readTO, writeTO, dialTO)

	// rule wraps an action: arguments are drawn by the action first, whatever the state;
	// a set-aside case executes nothing more.
	rule := func(f func(t *rapid.T)) func(*rapid.T) {
		return func(t *rapid.T) {
			m.t = t
			m.protect(func() { f(t) })
		}
	}
	sender := func(t *rapid.T) int { return rapid.IntRange(0, m.nS-1).Draw(t, "sender") }
	receiver := func(t *rapid.T) int { return rapid.IntRange(0, m.nR-1).Draw(t, "receiver") }
	step := func() bool {
		if m.dead != "" {
			return false
		}
		m.steps++
		m.poll(time.Millisecond)
		return true
	}
	doSend := rule(func(t *rapid.T) {
		s, r := sender(t), receiver(t)
		if step() {
			m.send(s, r)
		}
	})
	doRecv := rule(func(t *rapid.T) {
		r, lag := receiver(t), rapid.IntRange(0, 3).Draw(t, "lag")
		if step() {
			if slow[r] && lag != 0 {
				m.note("R%d is slow: not stepped", r)
				return
			}
			m.recv(r)
		}
	})
	doSenderCommit := rule(func(t *rapid.T) {
		s := sender(t)
		if step() {
			m.senderCommit(s)
		}
	})
	actions := map[string]func(*rapid.T){
		// Repeat picks actions uniformly; aliases weight traffic (send, recv x3; senderCommit x2)
		// above aborts, so that messages actually flow
		"send":          doSend,
		"send'":         doSend,
		"send''":        doSend,
		"senderCommit":  doSenderCommit,
		"senderCommit'": doSenderCommit,
		"senderAbort": rule(func(t *rapid.T) {
			s := sender(t)
			if step() {
				m.senderAbort(s, true)
			}
		}),
		"recv":   doRecv,
		"recv'":  doRecv,
		"recv''": doRecv,
		"recvCommit": rule(func(t *rapid.T) {
			r := receiver(t)
			if step() {
				m.recvCommit(r)
			}
		}),
		"recvAbort": rule(func(t *rapid.T) {
			r := receiver(t)
			if step() {
				m.recvAbort(r, true)
			}
		}),
	}
	if v != vChan {
		actions["len"] = rule(func(t *rapid.T) {
			r := receiver(t)
			if step() {
				m.length(r)
			}
		})
	}
	t.Repeat(actions)
	m.t = t

	// how the sections still open end is drawn too
	endS := make([]bool, m.nS)
	for s := range endS {
		endS[s] = rapid.Bool().Draw(t, "lastSenderSectionCommits")
	}
	endR := make([]bool, m.nR)
	for r := range endR {
		endR[r] = rapid.Bool().Draw(t, "lastReceiverSectionCommits")
	}
	rule(func(*rapid.T) {
		if m.dead == "" {
			m.finish(endS, endR)
		}
	})(t)

	if m.dead == "" && m.log.sawRetry() {
		m.dead = classRetry
	}
	if m.dead != "" {
		// classRetry: the sender had to retry a commit over a new connection, a connection failure
		// by the code's own account, outside the property's premise ("absent connection failure");
		// known.*: a listed finding was met (also counted by vstat.Known under excluded_known)
		vstat.Class(m.dead)
		return
	}
	if m.padLen > 0 {
		vstat.Class(fmt.Sprintf("padding.%dKiB", m.padLen>>10))
	}
	vstat.Class("variant." + v.String() + m.in)
	vstat.ClassN("steps", int64(m.steps))
	two := false
	for r := 0; r < m.nR; r++ {
		n := 0
		for s := 0; s < m.nS; s++ {
			if m.from[r][s] {
				n++
			}
		}
		two = two || n >= 2
	}
	if two {
		vstat.Class("shape.two-senders-one-mailbox")
	}
	nt := two && m.rAbortAfterRead
	if v != vRelaxed { // a relaxed section has at most one send and cannot abort after it
		nt = nt && m.sAbortAfterSend && m.multiBatch
	}
	if nt {
		key := m.header + "\n" + m.hist.String()
		vstat.NonTrivial(key, func() string { return key })
	}
}

// finish ends every open section, drains every receiver and compares streams.
func (m *machine) finish(endS, endR []bool) {
	m.note("-- end of traffic")
	m.poll(time.Millisecond)
	for s := 0; s < m.nS; s++ {
		if m.commitCh[s] != nil || !m.sOpen[s] {
			continue
		}
		if endS[s] || (m.v == vRelaxed && m.relSent[s]) {
			m.senderCommit(s)
		} else {
			m.senderAbort(s, true)
		}
	}
	for r := 0; r < m.nR; r++ {
		if !m.rOpen[r] {
			continue
		}
		if endR[r] {
			m.recvCommit(r)
		} else {
			m.recvAbort(r, true)
		}
	}
	outstanding := func() int {
		n := 0
		for r := 0; r < m.nR; r++ {
			n += m.pending(r)
		}
		return n
	}
	// A message counts as lost when nothing arrived for drainQuiet AND that many fruitless read
	// rounds went by: the second condition stretches the wait when the whole process is starved
	// of CPU, so that wall-clock time alone never decides. Padded messages fill the kernel's
	// socket buffers while a receiver is slow; the sending kernel then probes the closed window
	// with exponential back-off and may take about as long as the stall lasted to resume
	// (4.4 s seen under load), so such cases wait at least three times their own duration.
	quiet, rounds := drainQuiet, 100
	if m.padLen > 0 {
		quiet, rounds = 4*drainQuiet, 300
		if d := 3 * time.Since(m.start); d > quiet {
			quiet = d
		}
	}
	last, fruitless := time.Now(), 0
	for outstanding() > 0 || m.anyCommitting() {
		progress := false
		for r := 0; r < m.nR; r++ {
			if m.pending(r) == 0 && !m.anyCommitting() {
				continue
			}
			if m.recv(r) {
				progress = true
				m.recvCommit(r)
			} else if m.in == "CustomInChan" {
				m.recvCommit(r)
			}
			m.poll(time.Millisecond)
		}
		if progress {
			m.noteDrainWait(time.Since(last))
			last, fruitless = time.Now(), 0
			continue
		}
		fruitless++
		if outstanding() > 0 && time.Since(last) > quiet && fruitless >= rounds {
			var lost []string
			for s := 0; s < m.nS; s++ {
				for r := 0; r < m.nR; r++ {
					if rest := m.stream[s][r][m.consumed[s][r]:]; len(rest) > 0 {
						lost = append(lost, fmt.Sprintf("S%d->R%d %s", s, r, toks(rest)))
					}
				}
			}
			for r := 0; r < m.nR; r++ {
				if len(m.redeliver[r]) > 0 {
					lost = append(lost, fmt.Sprintf("R%d rolled back and never saw again %s", r, toks(m.redeliver[r])))
				}
			}
			m.violation("messages of committed sections never arrived although the receivers were drained for %v (%d fruitless read rounds) without a message: %s", time.Since(last).Round(time.Millisecond), fruitless, strings.Join(lost, "; "))
		}
		if outstanding() == 0 && time.Since(last) > watchdog {
			m.hung = true
			m.violation("a sender Commit has not returned %v after every message it sent was received\n%s", watchdog, allStacks())
		}
	}
	// nothing more may arrive: one more read per receiver must find nothing
	for r := 0; r < m.nR; r++ {
		if m.recv(r) {
			m.violation("R%d obtained one more message after everything committed had been delivered", r) // unreachable: delivered() objects first
		}
		if m.rOpen[r] {
			m.recvCommit(r)
		}
		if m.lens != nil {
			m.length(r)
			m.recvCommit(r)
		}
	}
	for s := 0; s < m.nS; s++ {
		for r := 0; r < m.nR; r++ {
			if fmt.Sprint(m.stream[s][r]) != fmt.Sprint(m.rcommit[s][r]) {
				m.violation("link S%d->R%d: committed sender sections sent %s, committed receiver sections obtained %s", s, r, toks(m.stream[s][r]), toks(m.rcommit[s][r]))
			}
		}
	}
}

// noteDrainWait keeps, as evidence of the drain's margin, the longest time a message that did
// arrive kept the final drain waiting.
var longestDrainWait time.Duration

func (m *machine) noteDrainWait(d time.Duration) {
	if d > longestDrainWait {
		longestDrainWait = d
		vstat.Note("final drain: longest wait for a message that did arrive", fmt.Sprintf("%v (%s, padding %d B)", d.Round(time.Millisecond), m.v, m.padLen))
	}
	if d > time.Second {
		if m.padLen > 0 {
			vstat.Class("drain.waited-over-1s.padded-messages")
		} else {
			vstat.Class("drain.waited-over-1s.bare-tokens")
		}
	}
}

func TestC06TCP(t *testing.T)      { rapid.Check(t, func(t *rapid.T) { runCase(t, vTCP) }) }
func TestC06Relaxed(t *testing.T)  { rapid.Check(t, func(t *rapid.T) { runCase(t, vRelaxed) }) }
func TestC06Channels(t *testing.T) { rapid.Check(t, func(t *rapid.T) { runCase(t, vChan) }) }

// TestC06RelaxedWriteTimeout is one fixed history (no generation) for the known finding
// relaxed-reorder-after-write-timeout: one sender, one stopped receiver, 2 MiB messages. The
// sender sends and commits until a write times out (which, per the statement, only aborts that
// section), then sends and commits once more; the receiver is then drained. Passes when the
// order holds, or when the disagreement is the listed known finding.
func TestC06RelaxedWriteTimeout(t *testing.T) {
	if vstat.OverBudget() {
		return
	}
	vstat.Case()
	m := &machine{t: t, v: vRelaxed, log: &caseLog{}, nS: 1, nR: 1, padLen: 2 << 20, start: time.Now()}
	log.SetOutput(m.log)
	m.header = "relaxed senders=1 receivers=1 buffer=1 read=30ms write=300ms dial=300ms padding=2MiB, fixed scenario"
	m.initModel()
	defer m.teardown()
	m.setup(1, 30*time.Millisecond, 300*time.Millisecond, 300*time.Millisecond)
	m.protect(func() {
		for i := 0; i < 64 && !m.sendTO[0][0]; i++ {
			m.send(0, 0)
		}
		if !m.sendTO[0][0] {
			vstat.Class("fixed-scenario.no-write-timeout")
			t.Log("no write timed out after 64 unread 2 MiB messages: scenario not reached")
		}
		m.send(0, 0)
		m.finish([]bool{true}, []bool{true})
	})
	if m.dead != "" {
		vstat.Class(m.dead)
		t.Logf("set aside: %s\n%s", m.dead, m.hist.String())
	}
}
