//go:build verif_raftkvs

// raftkvs.CustomInChan as the reading end of the channel variant. It lives in the module
// github.com/DistCompiler/pgo/systems/raftkvs, which the harness go.mod does not require yet;
// once it does (require + replace => /repo/systems/raftkvs), build with -tags verif_raftkvs
// (or change the constraint above to `verif`) and TestC06Channels draws this reader too.
package c06

import "github.com/DistCompiler/pgo/systems/raftkvs"

func init() { customIn = raftkvs.NewCustomInChan }
