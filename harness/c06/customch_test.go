// raftkvs.CustomInChan as the reading end of the channel variant: like InputChan, but a
// time-out yields TRUE instead of aborting the section.
package c06

import "github.com/DistCompiler/pgo/systems/raftkvs"

func init() { customIn = raftkvs.NewCustomInChan }
