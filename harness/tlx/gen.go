package tlx

import (
	"fmt"
	"sort"
	"strings"
	"unicode"

	"pgregory.net/rapid"
)

type TK int

const (
	TBool TK = iota
	TInt
	TStr
	TSet
	TSeq
	TTup
	TFn
	TRec
)

// Type is the harness's typing discipline for generated expressions: it keeps
// well-typed trees inside what TLC can compare without complaint.
type Type struct {
	K      TK
	Elem   *Type   // set/seq member, function value
	Key    *Type   // function key
	Elems  []*Type // tuple components, record field types
	Fields []string
}

var (
	tBool = &Type{K: TBool}
	tInt  = &Type{K: TInt}
	tStr  = &Type{K: TStr}
)

func (g *Gen) BoolType() *Type { return tBool }
func (g *Gen) IntType() *Type  { return tInt }
func SetOf(t *Type) *Type      { return &Type{K: TSet, Elem: t} }
func SeqOf(t *Type) *Type      { return &Type{K: TSeq, Elem: t} }
func TupOf(t ...*Type) *Type   { return &Type{K: TTup, Elems: t} }
func FnOf(k, v *Type) *Type    { return &Type{K: TFn, Key: k, Elem: v} }

func (t *Type) String() string {
	switch t.K {
	case TBool:
		return "Bool"
	case TInt:
		return "Int"
	case TStr:
		return "Str"
	case TSet:
		return "Set(" + t.Elem.String() + ")"
	case TSeq:
		return "Seq(" + t.Elem.String() + ")"
	case TTup:
		p := make([]string, len(t.Elems))
		for i, e := range t.Elems {
			p[i] = e.String()
		}
		return "Tup(" + strings.Join(p, ",") + ")"
	case TFn:
		return "Fn(" + t.Key.String() + "->" + t.Elem.String() + ")"
	default:
		p := make([]string, len(t.Elems))
		for i, e := range t.Elems {
			p[i] = t.Fields[i] + ":" + e.String()
		}
		return "Rec(" + strings.Join(p, ",") + ")"
	}
}

func (t *Type) eq(u *Type) bool { return t.String() == u.String() }

// Gen carries generation parameters.
type Gen struct {
	T        *rapid.T
	IllTyped int // remaining budget of deliberately ill-typed subtrees
	Ops      map[string]int
	nvar     int
}

func (g *Gen) pick(n int, label string) int { return rapid.IntRange(0, n-1).Draw(g.T, label) }
func (g *Gen) coin(pct int, label string) bool {
	return rapid.IntRange(0, 99).Draw(g.T, label) < pct
}

var atomTypes = []*Type{tInt, tInt, tStr, tBool}
var recFields = []string{"a", "b", "c", "id", "val"}

// GenType draws a type nested to at most depth.
func (g *Gen) GenType(depth int) *Type {
	if depth <= 0 {
		return atomTypes[g.pick(len(atomTypes), "atomtype")]
	}
	switch g.pick(10, "typekind") {
	case 0, 1, 2:
		return atomTypes[g.pick(len(atomTypes), "atomtype")]
	case 3, 4:
		return SetOf(g.GenType(depth - 1))
	case 5, 6:
		return SeqOf(g.GenType(depth - 1))
	case 7:
		n := 2 + g.pick(2, "tuparity")
		ts := make([]*Type, n)
		for i := range ts {
			ts[i] = g.GenType(depth - 1)
		}
		return TupOf(ts...)
	case 8:
		return FnOf(g.keyType(depth-1), g.GenType(depth-1))
	default:
		n := 1 + g.pick(3, "recarity")
		if g.coin(15, "widerec") {
			n = 4 + g.pick(2, "recarity")
		}
		off := g.pick(len(recFields), "recoff")
		t := &Type{K: TRec}
		for i := 0; i < n; i++ {
			t.Fields = append(t.Fields, recFields[(off+i)%len(recFields)])
		}
		// canonical field order
		for i := range t.Fields {
			for j := i + 1; j < len(t.Fields); j++ {
				if t.Fields[j] < t.Fields[i] {
					t.Fields[i], t.Fields[j] = t.Fields[j], t.Fields[i]
				}
			}
		}
		for range t.Fields {
			t.Elems = append(t.Elems, g.GenType(depth-1))
		}
		return t
	}
}

func (g *Gen) keyType(depth int) *Type {
	if depth > 0 && g.coin(8, "fnkey") {
		return FnOf(tInt, tInt)
	}
	switch g.pick(8, "keytype") {
	case 0, 1, 2:
		return tInt
	case 3, 4:
		return tStr
	case 5:
		return tBool
	case 6:
		if depth > 0 {
			return TupOf(tInt, atomTypes[g.pick(len(atomTypes), "atomtype")])
		}
		return tInt
	default:
		if depth > 0 {
			return SetOf(tInt)
		}
		return tStr
	}
}

var interestingInts = []int64{0, 1, -1, 2, 3, 4, 5, 7, 10, -2, -3, -7, 31, 32, 46340, 46341, 65536, 2147483647, 2147483646, -2147483648, -2147483647}
var interestingStrs = []string{"", "a", "b", "ab", "k", `a"b`, `a\b`, "x y", "TRUE", "1", "{}", "<<>>", "Z|z~"}

func (g *Gen) GenInt() int64 {
	if g.coin(35, "intboundary") {
		return interestingInts[g.pick(len(interestingInts), "int")]
	}
	return int64(rapid.IntRange(-12, 12).Draw(g.T, "smallint"))
}

func (g *Gen) GenStr() string {
	if g.coin(75, "strknown") {
		return interestingStrs[g.pick(len(interestingStrs), "str")]
	}
	return rapid.StringOfN(rapid.RuneFrom(nil, printableASCII), 0, 6, -1).Draw(g.T, "rndstr")
}

var printableASCII = &unicode.RangeTable{R16: []unicode.Range16{{Lo: 0x20, Hi: 0x7e, Stride: 1}}}

// GenVal draws a canonical value of the type.
func (g *Gen) GenVal(ty *Type, size int) Val {
	if size < 0 {
		size = 0
	}
	n := func(max int) int {
		if max > size+1 {
			max = size + 1
		}
		return rapid.IntRange(0, max).Draw(g.T, "n")
	}
	switch ty.K {
	case TBool:
		return Bool(g.coin(50, "bool"))
	case TInt:
		return Int(g.GenInt())
	case TStr:
		return Str(g.GenStr())
	case TSet:
		k := n(4)
		es := make([]Val, k)
		for i := range es {
			es[i] = g.GenVal(ty.Elem, size-1)
		}
		return Set(es...)
	case TSeq:
		k := n(4)
		es := make([]Val, k)
		for i := range es {
			es[i] = g.GenVal(ty.Elem, size-1)
		}
		return Tup(es...)
	case TTup:
		es := make([]Val, len(ty.Elems))
		for i := range es {
			es[i] = g.GenVal(ty.Elems[i], size-1)
		}
		return Tup(es...)
	case TFn:
		k := n(3)
		ks := make([]Val, k)
		vs := make([]Val, k)
		for i := range ks {
			ks[i] = g.GenVal(ty.Key, size-1)
			vs[i] = g.GenVal(ty.Elem, size-1)
		}
		return Fn(ks, vs)
	default:
		ks := make([]Val, len(ty.Fields))
		vs := make([]Val, len(ty.Fields))
		for i := range ks {
			ks[i] = Str(ty.Fields[i])
			vs[i] = g.GenVal(ty.Elems[i], size-1)
		}
		return Fn(ks, vs)
	}
}

func (g *Gen) fresh() string {
	g.nvar++
	return fmt.Sprintf("x%d", g.nvar)
}

type tenv map[string]*Type

func (e tenv) names() []string {
	ns := make([]string, 0, len(e))
	for n := range e {
		ns = append(ns, n)
	}
	sort.Strings(ns)
	return ns
}

func (e tenv) with(n string, t *Type) tenv {
	e2 := make(tenv, len(e)+1)
	for k, v := range e {
		e2[k] = v
	}
	e2[n] = t
	return e2
}

func (g *Gen) count(op string) {
	if g.Ops != nil {
		g.Ops[op]++
	}
}

// GenExpr draws an expression of (nominally) type ty.
func (g *Gen) GenExpr(ty *Type, depth int, env tenv) *Expr {
	if g.IllTyped > 0 && depth >= 0 && g.coin(6, "illtyped") {
		g.IllTyped--
		g.count("ill-typed-subtree")
		ty = g.GenType(1)
	}
	if depth <= 0 {
		return g.leaf(ty, env)
	}
	type prod func() *Expr
	var ps []prod
	add := func(w int, p prod) {
		for i := 0; i < w; i++ {
			ps = append(ps, p)
		}
	}
	sub := func(t *Type) *Expr { return g.GenExpr(t, depth-1, env) }
	subEnv := func(t *Type, e tenv) *Expr { return g.GenExpr(t, depth-1, e) }
	op := func(name string, a ...*Expr) *Expr { g.count(name); return Op(name, a...) }
	anyT := func() *Type { return g.GenType(1) }
	smallInt := func() *Expr {
		if g.coin(70, "idxlit") {
			return Lit(Int(int64(rapid.IntRange(0, 4).Draw(g.T, "idx"))))
		}
		return sub(tInt)
	}
	// one bound `x \in S` (or a tuple pattern) over a set of member type mt
	bound := func(mt *Type, e tenv) (Bound, tenv) {
		if mt.K == TTup && g.coin(60, "tuplepattern") {
			names := make([]string, len(mt.Elems))
			for i := range names {
				names[i] = g.fresh()
				e = e.with(names[i], mt.Elems[i])
			}
			return Bound{Names: names, Tuple: true, Set: g.GenExpr(SetOf(mt), depth-1, env)}, e
		}
		n := g.fresh()
		return Bound{Names: []string{n}, Set: g.GenExpr(SetOf(mt), depth-1, env)}, e.with(n, mt)
	}
	bounds := func(max int) ([]Bound, tenv) {
		k := 1
		if max > 1 && g.coin(30, "twobounds") {
			k = 2
		}
		e := env
		var bs []Bound
		for i := 0; i < k; i++ {
			var b Bound
			mt := anyT()
			if g.coin(50, "boundint") {
				mt = tInt
			}
			b, e = bound(mt, e)
			bs = append(bs, b)
		}
		return bs, e
	}

	// ---- producers available for every type -------------------------------------------
	add(2, func() *Expr { return g.leaf(ty, env) })
	for _, n := range env.names() {
		if env[n].eq(ty) {
			n := n
			add(3, func() *Expr { return Var(n) })
		}
	}
	add(1, func() *Expr { // f[x]
		kt := g.keyType(0)
		if g.coin(60, "applyindomain") {
			// a literal function applied inside its domain
			f := g.GenVal(FnOf(kt, ty), 2)
			if len(f.Ks) > 0 {
				g.count("apply")
				return Op("apply", Lit(f), Lit(f.Ks[g.pick(len(f.Ks), "key")]))
			}
		}
		return op("apply", sub(FnOf(kt, ty)), sub(kt))
	})
	add(1, func() *Expr {
		if g.coin(60, "applyinrange") {
			s := g.GenVal(SeqOf(ty), 2)
			if len(s.E) > 0 {
				g.count("apply")
				return Op("apply", Lit(s), Lit(Int(int64(1+g.pick(len(s.E), "idx")))))
			}
		}
		return op("apply", sub(SeqOf(ty)), smallInt())
	})
	add(1, func() *Expr { return op("Head", sub(SeqOf(ty))) })
	add(1, func() *Expr { // r.f
		rt := &Type{K: TRec, Fields: []string{"a", "val"}, Elems: []*Type{anyT(), ty}}
		if g.coin(50, "recfieldpos") {
			rt = &Type{K: TRec, Fields: []string{"a", "b"}, Elems: []*Type{ty, anyT()}}
			e := op("dot", sub(rt))
			e.Names = []string{"a"}
			return e
		}
		e := op("dot", sub(rt))
		e.Names = []string{"val"}
		return e
	})
	add(1, func() *Expr { // <<..>>[i]
		k := 2 + g.pick(2, "tuparity")
		pos := g.pick(k, "tuppos")
		ts := make([]*Type, k)
		for i := range ts {
			ts[i] = anyT()
		}
		ts[pos] = ty
		idx := int64(pos + 1)
		if g.coin(8, "tupidxoff") {
			idx = int64(rapid.IntRange(0, 5).Draw(g.T, "idx"))
		}
		return op("apply", sub(TupOf(ts...)), Lit(Int(idx)))
	})
	add(1, func() *Expr { // CHOOSE
		b, e2 := bound(ty, env)
		var body *Expr
		if !b.Tuple && g.coin(60, "chooseunique") {
			body = Op("eq", Var(b.Names[0]), subEnv(ty, env))
		} else {
			body = subEnv(tBool, e2)
		}
		g.count("choose")
		return &Expr{Op: "choose", Bs: []Bound{b}, A: []*Expr{body}}
	})
	add(1, func() *Expr { // f[a, b]
		at, bt := tInt, atomTypes[g.pick(len(atomTypes), "atomtype")]
		return op("apply2", sub(FnOf(TupOf(at, bt), ty)), sub(at), sub(bt))
	})

	switch ty.K {
	case TBool:
		add(1, func() *Expr { return op("not", sub(tBool)) })
		for _, o := range []string{"and", "or", "implies", "equiv"} {
			o := o
			add(1, func() *Expr { return op(o, sub(tBool), sub(tBool)) })
		}
		add(3, func() *Expr { u := anyT(); return op("eq", sub(u), sub(u)) })
		add(1, func() *Expr { u := anyT(); return op("neq", sub(u), sub(u)) })
		for _, o := range []string{"lt", "le", "gt", "ge"} {
			o := o
			add(1, func() *Expr { return op(o, sub(tInt), sub(tInt)) })
		}
		add(3, func() *Expr { u := anyT(); return op("in", sub(u), sub(SetOf(u))) })
		add(1, func() *Expr { u := anyT(); return op("notin", sub(u), sub(SetOf(u))) })
		add(2, func() *Expr { u := anyT(); return op("subseteq", sub(SetOf(u)), sub(SetOf(u))) })
		add(1, func() *Expr { return op("IsFiniteSet", sub(SetOf(anyT()))) })
		add(1, func() *Expr { return op("Assert", sub(tBool), Lit(Str("msg"))) })
		add(1, func() *Expr { // closed operands: see the known finding on Seq
			u := atomTypes[g.pick(len(atomTypes), "atomtype")]
			return op("inseq", g.GenExpr(SeqOf(u), depth-1, tenv{}), g.GenExpr(SetOf(u), depth-1, tenv{}))
		})
		for _, o := range []string{"forall", "exists"} {
			o := o
			add(3, func() *Expr {
				bs, e2 := bounds(2)
				g.count(o)
				return &Expr{Op: o, Bs: bs, A: []*Expr{subEnv(tBool, e2)}}
			})
		}
	case TInt:
		for _, o := range []string{"plus", "minus", "times", "div", "mod", "pow"} {
			o := o
			add(2, func() *Expr { return op(o, sub(tInt), sub(tInt)) })
		}
		add(1, func() *Expr { return op("neg", sub(tInt)) })
		add(3, func() *Expr { return op("Cardinality", sub(SetOf(anyT()))) })
		add(2, func() *Expr { return op("Len", sub(SeqOf(anyT()))) })
	case TStr:
		add(2, func() *Expr { return op("ToString", sub(atomTypes[g.pick(len(atomTypes), "atomtype")])) })
	case TSet:
		u := ty.Elem
		add(3, func() *Expr {
			k := rapid.IntRange(0, 3).Draw(g.T, "setlit")
			a := make([]*Expr, k)
			for i := range a {
				a[i] = sub(u)
			}
			return op("set", a...)
		})
		for _, o := range []string{"cup", "cap", "setminus"} {
			o := o
			add(2, func() *Expr { return op(o, sub(ty), sub(ty)) })
		}
		add(3, func() *Expr {
			b, e2 := bound(u, env)
			g.count("refine")
			return &Expr{Op: "refine", Bs: []Bound{b}, A: []*Expr{subEnv(tBool, e2)}}
		})
		add(3, func() *Expr {
			bs, e2 := bounds(2)
			g.count("compr")
			return &Expr{Op: "compr", Bs: bs, A: []*Expr{subEnv(u, e2)}}
		})
		add(4, func() *Expr { return op("UNION", sub(SetOf(ty))) })
		add(2, func() *Expr { return op("DOMAIN", sub(FnOf(u, anyT()))) })
		switch u.K {
		case TSet:
			add(6, func() *Expr { return op("SUBSET", sub(u)) })
		case TInt:
			add(4, func() *Expr {
				lo := sub(tInt)
				if g.coin(70, "rangeclose") {
					w := int64(rapid.IntRange(-2, 8).Draw(g.T, "width"))
					base := g.GenInt()
					if base+w > 2147483647 {
						base = 2147483647 - w
					}
					if base+w < -2147483648 {
						base = -2147483648 - w
					}
					g.count("dotdot")
					return Op("dotdot", Lit(Int(base)), Lit(Int(base+w)))
				}
				return op("dotdot", lo, sub(tInt))
			})
		case TBool:
			add(1, func() *Expr { return Lit(Set(Bool(false), Bool(true))) })
		case TTup:
			add(6, func() *Expr {
				a := make([]*Expr, len(u.Elems))
				for i := range a {
					a[i] = sub(SetOf(u.Elems[i]))
				}
				return op("cross", a...)
			})
		case TRec:
			add(6, func() *Expr {
				a := make([]*Expr, len(u.Elems))
				for i := range a {
					a[i] = sub(SetOf(u.Elems[i]))
				}
				e := op("recordset", a...)
				e.Names = u.Fields
				return e
			})
		case TFn:
			add(6, func() *Expr {
				return op("funcset", g.leaf(SetOf(u.Key), env), g.leaf(SetOf(u.Elem), env))
			})
		}
	case TSeq:
		u := ty.Elem
		add(3, func() *Expr {
			k := rapid.IntRange(0, 3).Draw(g.T, "tuplit")
			a := make([]*Expr, k)
			for i := range a {
				a[i] = sub(u)
			}
			return op("tuple", a...)
		})
		add(2, func() *Expr { return op("concat", sub(ty), sub(ty)) })
		add(2, func() *Expr { return op("Append", sub(ty), sub(u)) })
		add(2, func() *Expr { return op("Tail", sub(ty)) })
		add(3, func() *Expr { return op("SubSeq", sub(ty), smallInt(), smallInt()) })
		add(1, func() *Expr { return g.except(ty, tInt, u, depth, env) })
	case TTup:
		add(4, func() *Expr {
			a := make([]*Expr, len(ty.Elems))
			for i := range a {
				a[i] = sub(ty.Elems[i])
			}
			return op("tuple", a...)
		})
	case TFn:
		add(3, func() *Expr { return op("mapsto", sub(ty.Key), sub(ty.Elem)) })
		add(3, func() *Expr { return op("atat", sub(ty), sub(ty)) })
		add(4, func() *Expr {
			if ty.Key.K == TTup && len(ty.Key.Elems) == 2 && g.coin(70, "multiarg") {
				n1, n2 := g.fresh(), g.fresh()
				e2 := env.with(n1, ty.Key.Elems[0]).with(n2, ty.Key.Elems[1])
				g.count("funcctor")
				return &Expr{Op: "funcctor", Bs: []Bound{
					{Names: []string{n1}, Set: sub(SetOf(ty.Key.Elems[0]))},
					{Names: []string{n2}, Set: sub(SetOf(ty.Key.Elems[1]))},
				}, A: []*Expr{subEnv(ty.Elem, e2)}}
			}
			b, e2 := bound(ty.Key, env)
			g.count("funcctor")
			return &Expr{Op: "funcctor", Bs: []Bound{b}, A: []*Expr{subEnv(ty.Elem, e2)}}
		})
		add(4, func() *Expr { return g.except(ty, ty.Key, ty.Elem, depth, env) })
	case TRec:
		add(4, func() *Expr {
			a := make([]*Expr, len(ty.Elems))
			for i := range a {
				a[i] = sub(ty.Elems[i])
			}
			e := op("record", a...)
			e.Names = ty.Fields
			return e
		})
		add(2, func() *Expr {
			i := g.pick(len(ty.Fields), "field")
			ft := ty.Elems[i]
			g.count("except")
			return &Expr{Op: "except", NKeys: 1, A: []*Expr{sub(ty), Lit(Str(ty.Fields[i])), subEnv(ft, env.with("@", ft))}}
		})
	}
	return ps[g.pick(len(ps), "producer")]()
}

// except builds [base EXCEPT ![k]... = v] for a container with key type kt and value type vt.
func (g *Gen) except(ty, kt, vt *Type, depth int, env tenv) *Expr {
	g.count("except")
	base := g.GenExpr(ty, depth-1, env)
	key := g.GenExpr(kt, depth-1, env)
	if kt.K == TInt && g.coin(60, "exceptidx") {
		key = Lit(Int(int64(rapid.IntRange(0, 4).Draw(g.T, "idx"))))
	}
	// nested path when the value is itself a container
	if (vt.K == TFn || vt.K == TSeq) && g.coin(50, "nestedexcept") {
		kt2, vt2 := tInt, vt.Elem
		if vt.K == TFn {
			kt2 = vt.Key
		}
		key2 := g.GenExpr(kt2, depth-1, env)
		return &Expr{Op: "except", NKeys: 2, A: []*Expr{base, key, key2, g.GenExpr(vt2, depth-1, env.with("@", vt2))}}
	}
	if kt.K == TTup && len(kt.Elems) == 2 && g.coin(50, "multikey") {
		return &Expr{Op: "except", NKeys: 2, Multi: true, A: []*Expr{base,
			g.GenExpr(kt.Elems[0], depth-1, env), g.GenExpr(kt.Elems[1], depth-1, env),
			g.GenExpr(vt, depth-1, env.with("@", vt))}}
	}
	return &Expr{Op: "except", NKeys: 1, A: []*Expr{base, key, g.GenExpr(vt, depth-1, env.with("@", vt))}}
}

func (g *Gen) leaf(ty *Type, env tenv) *Expr {
	for _, n := range env.names() {
		if env[n].eq(ty) && g.coin(50, "leafvar") {
			return Var(n)
		}
	}
	g.count("lit")
	return Lit(g.GenVal(ty, 2))
}
