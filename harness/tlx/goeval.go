package tlx

import (
	"errors"
	"fmt"
	"runtime/debug"
	"time"

	"github.com/DistCompiler/pgo/distsys/tla"
)

// GoEval evaluates the expression with the real runtime library, calling the
// same exported functions, in the same way, as MPCalGoCodegenPass.translateExpr
// emits them.
func GoEval(e *Expr, env map[string]tla.Value) tla.Value {
	var work int
	return goEval(e, env, &work)
}

// GuardStop is raised by the interpreter (never by the runtime) before it would
// ask the runtime for a collection beyond the harness's size guard, or after too
// many evaluation steps: the case is set aside, it is not a verdict.
type GuardStop struct{ What string }

func guardSetLen(v tla.Value) int {
	if v.IsSet() {
		return v.AsSet().Len()
	}
	return 0
}

func guard(ok bool, what string) {
	if !ok {
		panic(GuardStop{what})
	}
}

func guardProduct(what string, sets ...tla.Value) {
	total := 1
	for _, s := range sets {
		total *= guardSetLen(s)
		guard(total <= MaxColl, what)
	}
}

func goEval(e *Expr, env map[string]tla.Value, work *int) tla.Value {
	*work++
	guard(*work <= 100000, "evaluation steps")
	GoEval := func(e *Expr, env map[string]tla.Value) tla.Value { return goEval(e, env, work) }
	arg := func(i int) tla.Value { return GoEval(e.A[i], env) }
	switch e.Op {
	case "lit":
		return ToTLA(e.V, nil)
	case "var":
		v, ok := env[e.Names[0]]
		if !ok {
			panic("goeval: unbound variable " + e.Names[0])
		}
		return v
	case "set":
		ms := make([]tla.Value, len(e.A))
		for i := range e.A {
			ms[i] = arg(i)
		}
		return tla.MakeSet(ms...)
	case "tuple":
		ms := make([]tla.Value, len(e.A))
		for i := range e.A {
			ms[i] = arg(i)
		}
		return tla.MakeTuple(ms...)
	case "record":
		fs := make([]tla.RecordField, len(e.A))
		for i := range e.A {
			fs[i] = tla.RecordField{Key: tla.MakeString(e.Names[i]), Value: arg(i)}
		}
		return tla.MakeRecord(fs)
	case "recordset":
		fs := make([]tla.RecordField, len(e.A))
		sets := make([]tla.Value, len(e.A))
		for i := range e.A {
			sets[i] = arg(i)
			fs[i] = tla.RecordField{Key: tla.MakeString(e.Names[i]), Value: sets[i]}
		}
		guardProduct("record set", sets...)
		return tla.MakeRecordSet(fs)
	case "funcset":
		d, r := arg(0), arg(1)
		total := 1
		for i := 0; i < guardSetLen(d); i++ {
			total *= guardSetLen(r)
			guard(total <= MaxColl, "function set")
		}
		return tla.MakeFunctionSet(d, r)
	case "and":
		return tla.MakeBool(arg(0).AsBool() && arg(1).AsBool())
	case "or":
		return tla.MakeBool(arg(0).AsBool() || arg(1).AsBool())
	case "implies":
		return tla.MakeBool(!arg(0).AsBool() || arg(1).AsBool())
	case "not":
		return tla.ModuleLogicalNotSymbol(arg(0))
	case "equiv":
		return tla.ModuleEquivSymbol(arg(0), arg(1))
	case "eq":
		return tla.ModuleEqualsSymbol(arg(0), arg(1))
	case "neq":
		return tla.ModuleNotEqualsSymbol(arg(0), arg(1))
	case "plus":
		return tla.ModulePlusSymbol(arg(0), arg(1))
	case "minus":
		return tla.ModuleMinusSymbol(arg(0), arg(1))
	case "times":
		return tla.ModuleAsteriskSymbol(arg(0), arg(1))
	case "pow":
		return tla.ModuleSuperscriptSymbol(arg(0), arg(1))
	case "div":
		return tla.ModuleDivSymbol(arg(0), arg(1))
	case "mod":
		return tla.ModulePercentSymbol(arg(0), arg(1))
	case "neg":
		return tla.ModuleNegationSymbol(arg(0))
	case "lt":
		return tla.ModuleLessThanSymbol(arg(0), arg(1))
	case "le":
		return tla.ModuleLessThanOrEqualSymbol(arg(0), arg(1))
	case "gt":
		return tla.ModuleGreaterThanSymbol(arg(0), arg(1))
	case "ge":
		return tla.ModuleGreaterThanOrEqualSymbol(arg(0), arg(1))
	case "dotdot":
		a, b := arg(0), arg(1)
		if a.IsNumber() && b.IsNumber() {
			guard(int64(b.AsNumber())-int64(a.AsNumber()) < MaxColl, "range")
		}
		return tla.ModuleDotDotSymbol(a, b)
	case "in":
		return tla.ModuleInSymbol(arg(0), arg(1))
	case "notin":
		return tla.ModuleNotInSymbol(arg(0), arg(1))
	case "cap":
		return tla.ModuleIntersectSymbol(arg(0), arg(1))
	case "cup":
		return tla.ModuleUnionSymbol(arg(0), arg(1))
	case "setminus":
		return tla.ModuleBackslashSymbol(arg(0), arg(1))
	case "subseteq":
		return tla.ModuleSubsetOrEqualSymbol(arg(0), arg(1))
	case "SUBSET":
		a := arg(0)
		guard(guardSetLen(a) <= 10, "SUBSET")
		return tla.ModulePrefixSubsetSymbol(a)
	case "UNION":
		return tla.ModulePrefixUnionSymbol(arg(0))
	case "Cardinality":
		return tla.ModuleCardinality(arg(0))
	case "IsFiniteSet":
		return tla.ModuleIsFiniteSet(arg(0))
	case "Len":
		return tla.ModuleLen(arg(0))
	case "Head":
		return tla.ModuleHead(arg(0))
	case "Tail":
		return tla.ModuleTail(arg(0))
	case "Append":
		return tla.ModuleAppend(arg(0), arg(1))
	case "concat":
		return tla.ModuleOSymbol(arg(0), arg(1))
	case "SubSeq":
		return tla.ModuleSubSeq(arg(0), arg(1), arg(2))
	case "inseq":
		t, s := arg(0), arg(1)
		guard(guardSetLen(s) <= 6, "Seq") // the shipped Seq enumerates |S|! tuples
		return tla.ModuleInSymbol(t, tla.ModuleSeq(s))
	case "DOMAIN":
		return tla.ModuleDomainSymbol(arg(0))
	case "mapsto":
		return tla.ModuleColonGreaterThanSymbol(arg(0), arg(1))
	case "atat":
		return tla.ModuleDoubleAtSignSymbol(arg(0), arg(1))
	case "apply":
		return arg(0).ApplyFunction(arg(1))
	case "apply2":
		return arg(0).ApplyFunction(tla.MakeTuple(arg(1), arg(2)))
	case "dot":
		return arg(0).ApplyFunction(tla.MakeString(e.Names[0]))
	case "ToString":
		return tla.ModuleToString(arg(0))
	case "Assert":
		return tla.ModuleAssert(arg(0), arg(1))
	case "cross":
		ms := make([]tla.Value, len(e.A))
		for i := range e.A {
			ms[i] = arg(i)
		}
		guardProduct("cross product", ms...)
		return tla.CrossProduct(ms...)
	case "except":
		keys := make([]tla.Value, e.NKeys)
		for i := range keys {
			keys[i] = arg(1 + i)
		}
		if e.Multi {
			keys = []tla.Value{tla.MakeTuple(keys...)}
		}
		return tla.FunctionSubstitution(arg(0), []tla.FunctionSubstitutionRecord{{
			Keys: keys,
			Value: func(anchor tla.Value) tla.Value {
				return GoEval(e.A[1+e.NKeys], with(env, []string{"@"}, []tla.Value{anchor}))
			},
		}})
	case "forall", "exists", "compr", "funcctor":
		sets := make([]tla.Value, len(e.Bs))
		for i, b := range e.Bs {
			sets[i] = GoEval(b.Set, env)
		}
		guardProduct("bound product", sets...)
		bind := func(args []tla.Value) map[string]tla.Value {
			env2 := env
			for i, b := range e.Bs {
				env2 = bindOne(env2, b, args[i])
			}
			return env2
		}
		switch e.Op {
		case "forall":
			return tla.QuantifiedUniversal(sets, func(args []tla.Value) bool { return GoEval(e.A[0], bind(args)).AsBool() })
		case "exists":
			return tla.QuantifiedExistential(sets, func(args []tla.Value) bool { return GoEval(e.A[0], bind(args)).AsBool() })
		case "compr":
			return tla.SetComprehension(sets, func(args []tla.Value) tla.Value { return GoEval(e.A[0], bind(args)) })
		default:
			return tla.MakeFunction(sets, func(args []tla.Value) tla.Value { return GoEval(e.A[0], bind(args)) })
		}
	case "refine":
		return tla.SetRefinement(GoEval(e.Bs[0].Set, env), func(elem tla.Value) bool {
			return GoEval(e.A[0], bindOne(env, e.Bs[0], elem)).AsBool()
		})
	case "choose":
		return tla.Choose(GoEval(e.Bs[0].Set, env), func(elem tla.Value) bool {
			return GoEval(e.A[0], bindOne(env, e.Bs[0], elem)).AsBool()
		})
	}
	panic("goeval: unknown op " + e.Op)
}

func with(env map[string]tla.Value, names []string, vals []tla.Value) map[string]tla.Value {
	env2 := make(map[string]tla.Value, len(env)+len(names))
	for k, v := range env {
		env2[k] = v
	}
	for i, n := range names {
		env2[n] = vals[i]
	}
	return env2
}

func bindOne(env map[string]tla.Value, b Bound, elem tla.Value) map[string]tla.Value {
	if !b.Tuple {
		return with(env, b.Names, []tla.Value{elem})
	}
	vals := make([]tla.Value, len(b.Names))
	for i := range b.Names {
		vals[i] = elem.ApplyFunction(tla.MakeNumber(int32(i + 1)))
	}
	return with(env, b.Names, vals)
}

// GoOutcome is what the real runtime did with an expression.
type GoOutcome struct {
	Kind  string // "value", "tla-error", "panic", "hang", "guard"
	V     tla.Value
	Panic any
	Stack string
}

func (g GoOutcome) String() string {
	switch g.Kind {
	case "value":
		return "value " + g.V.String()
	case "hang":
		return "no result within the watchdog (hang)"
	default:
		return fmt.Sprintf("%s: %v", g.Kind, g.Panic)
	}
}

// RunGo evaluates under a watchdog; a goroutine that never returns is leaked.
func RunGo(f func() tla.Value, watchdog time.Duration) GoOutcome {
	ch := make(chan GoOutcome, 1)
	go func() {
		defer func() {
			if r := recover(); r != nil {
				kind := "panic"
				if err, ok := r.(error); ok && errors.Is(err, tla.ErrTLAType) {
					kind = "tla-error"
				}
				if _, ok := r.(GuardStop); ok {
					kind = "guard"
				}
				ch <- GoOutcome{Kind: kind, Panic: r, Stack: string(debug.Stack())}
			}
		}()
		ch <- GoOutcome{Kind: "value", V: f()}
	}()
	select {
	case o := <-ch:
		return o
	case <-time.After(watchdog):
		return GoOutcome{Kind: "hang"}
	}
}

// RunGoInline evaluates on the calling goroutine (no watchdog): for hot loops
// where the expression is known to terminate quickly on a healthy tree.
func RunGoInline(f func() tla.Value) (out GoOutcome) {
	defer func() {
		if r := recover(); r != nil {
			kind := "panic"
			if err, ok := r.(error); ok && errors.Is(err, tla.ErrTLAType) {
				kind = "tla-error"
			}
			if _, ok := r.(GuardStop); ok {
				kind = "guard"
			}
			out = GoOutcome{Kind: kind, Panic: r, Stack: string(debug.Stack())}
		}
	}()
	return GoOutcome{Kind: "value", V: f()}
}
