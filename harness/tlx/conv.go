package tlx

import (
	"fmt"

	"github.com/DistCompiler/pgo/distsys/tla"
)

// ToTLA builds the runtime value with the library's own constructors. perm, when
// non-nil, is consulted for an insertion order of set members / function pairs
// (perm(n) returns a permutation of 0..n-1), so that C05 can build equal values
// in different orders.
func ToTLA(v Val, perm func(n int) []int) tla.Value {
	order := func(n int) []int {
		if perm != nil {
			return perm(n)
		}
		p := make([]int, n)
		for i := range p {
			p[i] = i
		}
		return p
	}
	switch v.K {
	case KBool:
		return tla.MakeBool(v.B)
	case KInt:
		return tla.MakeNumber(int32(v.I))
	case KStr:
		return tla.MakeString(v.S)
	case KSet:
		ms := make([]tla.Value, 0, len(v.E))
		for _, i := range order(len(v.E)) {
			ms = append(ms, ToTLA(v.E[i], perm))
		}
		return tla.MakeSet(ms...)
	case KTup:
		ms := make([]tla.Value, len(v.E))
		for i := range v.E {
			ms[i] = ToTLA(v.E[i], perm)
		}
		return tla.MakeTuple(ms...)
	default:
		fs := make([]tla.RecordField, 0, len(v.Ks))
		for _, i := range order(len(v.Ks)) {
			fs = append(fs, tla.RecordField{Key: ToTLA(v.Ks[i], perm), Value: ToTLA(v.Vs[i], perm)})
		}
		return tla.MakeRecord(fs)
	}
}

// FromTLA reads a runtime value back through its public accessors only.
func FromTLA(v tla.Value) (Val, error) {
	switch {
	case v.IsBool():
		return Bool(v.AsBool()), nil
	case v.IsNumber():
		return Int(int64(v.AsNumber())), nil
	case v.IsString():
		return Str(v.AsString()), nil
	case v.IsSet():
		it := v.AsSet().Iterator()
		var es []Val
		for !it.Done() {
			k, _, _ := it.Next()
			e, err := FromTLA(k)
			if err != nil {
				return Val{}, err
			}
			es = append(es, e)
		}
		s := Set(es...)
		if len(s.E) != len(es) {
			return s, fmt.Errorf("set %v iterates over %d members of which only %d are distinct", v, len(es), len(s.E))
		}
		if v.AsSet().Len() != len(es) {
			return s, fmt.Errorf("set %v reports Len %d but iterates %d members", v, v.AsSet().Len(), len(es))
		}
		return s, nil
	case v.IsTuple():
		it := v.AsTuple().Iterator()
		var es []Val
		for !it.Done() {
			_, x := it.Next()
			e, err := FromTLA(x)
			if err != nil {
				return Val{}, err
			}
			es = append(es, e)
		}
		return Tup(es...), nil
	case v.IsFunction():
		it := v.AsFunction().Iterator()
		var ks, vs []Val
		for !it.Done() {
			k, x, _ := it.Next()
			kk, err := FromTLA(k)
			if err != nil {
				return Val{}, err
			}
			vv, err := FromTLA(x)
			if err != nil {
				return Val{}, err
			}
			ks = append(ks, kk)
			vs = append(vs, vv)
		}
		f := Fn(ks, vs)
		if len(f.Ks) != len(ks) {
			return f, fmt.Errorf("function %v iterates over %d pairs of which only %d have distinct keys", v, len(ks), len(f.Ks))
		}
		return f, nil
	}
	return Val{}, fmt.Errorf("value %v has no kind (zero Value?)", v)
}
