package tlx

import (
	"fmt"
	"strconv"
	"strings"
)

// ParseExpr parses the subset of TLA+ in which values are printed: TRUE/FALSE,
// integer literals with unary minus, string literals with TLA+ escapes, set and
// tuple enumerations, :> and @@, parentheses, and the empty function
// [x \in {} |-> x]. It is written from the TLA+ grammar, not from the printer.
func ParseExpr(s string) (e *Expr, err error) {
	p := &parser{s: s}
	defer func() {
		if r := recover(); r != nil {
			if pe, ok := r.(parseErr); ok {
				e, err = nil, fmt.Errorf("at offset %d: %s", p.i, string(pe))
				return
			}
			panic(r)
		}
	}()
	e = p.atat()
	p.ws()
	if p.i != len(p.s) {
		panic(parseErr("trailing input " + strconv.Quote(p.s[p.i:])))
	}
	return e, nil
}

type parseErr string

type parser struct {
	s string
	i int
}

func (p *parser) ws() {
	for p.i < len(p.s) && (p.s[p.i] == ' ' || p.s[p.i] == '\t' || p.s[p.i] == '\n') {
		p.i++
	}
}

func (p *parser) peek(tok string) bool {
	p.ws()
	return strings.HasPrefix(p.s[p.i:], tok)
}

func (p *parser) eat(tok string) bool {
	if p.peek(tok) {
		p.i += len(tok)
		return true
	}
	return false
}

func (p *parser) expect(tok string) {
	if !p.eat(tok) {
		panic(parseErr("expected " + strconv.Quote(tok)))
	}
}

func (p *parser) atat() *Expr {
	l := p.mapsto()
	for p.eat("@@") {
		r := p.mapsto()
		l = Op("atat", l, r)
	}
	return l
}

func (p *parser) mapsto() *Expr {
	l := p.unary()
	if p.eat(":>") {
		r := p.unary()
		return Op("mapsto", l, r)
	}
	return l
}

func (p *parser) unary() *Expr {
	p.ws()
	if p.peek("-") && !p.peek("->") {
		p.i++
		return Op("neg", p.unary())
	}
	return p.primary()
}

func (p *parser) list(close string) []*Expr {
	var out []*Expr
	if p.eat(close) {
		return out
	}
	for {
		out = append(out, p.atat())
		if p.eat(close) {
			return out
		}
		p.expect(",")
	}
}

func (p *parser) primary() *Expr {
	p.ws()
	if p.i >= len(p.s) {
		panic(parseErr("unexpected end"))
	}
	switch {
	case p.eat("<<"):
		return Op("tuple", p.list(">>")...)
	case p.eat("{"):
		return Op("set", p.list("}")...)
	case p.eat("("):
		e := p.atat()
		p.expect(")")
		return e
	case p.eat("["):
		// only the empty function: [x \in {} |-> x]
		name := p.ident()
		p.expect("\\in")
		p.expect("{")
		p.expect("}")
		p.expect("|->")
		if p.ident() != name {
			panic(parseErr("unsupported function constructor"))
		}
		p.expect("]")
		return Lit(Fn(nil, nil))
	case p.s[p.i] == '"':
		return Lit(Str(p.str()))
	case p.s[p.i] >= '0' && p.s[p.i] <= '9':
		j := p.i
		for j < len(p.s) && p.s[j] >= '0' && p.s[j] <= '9' {
			j++
		}
		n, err := strconv.ParseInt(p.s[p.i:j], 10, 64)
		if err != nil {
			panic(parseErr(err.Error()))
		}
		p.i = j
		// the literal itself may be 2147483648 (only meaningful under a unary minus);
		// evaluation range-checks the result of the negation
		return &Expr{Op: "lit", V: Int(n)}
	}
	id := p.ident()
	switch id {
	case "TRUE":
		return Lit(Bool(true))
	case "FALSE":
		return Lit(Bool(false))
	}
	panic(parseErr("unknown identifier " + strconv.Quote(id)))
}

func (p *parser) ident() string {
	p.ws()
	j := p.i
	for j < len(p.s) && (p.s[j] == '_' || p.s[j] >= 'a' && p.s[j] <= 'z' || p.s[j] >= 'A' && p.s[j] <= 'Z' || p.s[j] >= '0' && p.s[j] <= '9') {
		j++
	}
	if j == p.i {
		panic(parseErr("expected identifier"))
	}
	id := p.s[p.i:j]
	p.i = j
	return id
}

// str reads a TLA+ string literal: \" \\ \t \n \f \r are the escapes.
func (p *parser) str() string {
	p.i++ // opening quote
	var b strings.Builder
	for p.i < len(p.s) {
		c := p.s[p.i]
		switch {
		case c == '"':
			p.i++
			return b.String()
		case c == '\\':
			if p.i+1 >= len(p.s) {
				panic(parseErr("dangling backslash"))
			}
			switch p.s[p.i+1] {
			case '"':
				b.WriteByte('"')
			case '\\':
				b.WriteByte('\\')
			case 't':
				b.WriteByte('\t')
			case 'n':
				b.WriteByte('\n')
			case 'f':
				b.WriteByte('\f')
			case 'r':
				b.WriteByte('\r')
			default:
				panic(parseErr("escape \\" + string(p.s[p.i+1]) + " is not a TLA+ string escape"))
			}
			p.i += 2
		case c < 0x20 || c > 0x7e:
			panic(parseErr(fmt.Sprintf("byte %#x inside a string literal", c)))
		default:
			b.WriteByte(c)
			p.i++
		}
	}
	panic(parseErr("unterminated string"))
}
