package tlx

import (
	"fmt"
	"strings"
)

// Bound is one quantifier bound: `x \in S` or `<<a, b>> \in S`.
type Bound struct {
	Names []string
	Tuple bool
	Set   *Expr
}

// Expr is a TLA+ expression over the operators the PGo compiler can emit.
type Expr struct {
	Op    string
	A     []*Expr
	V     Val      // Op == "lit"
	Names []string // record fields ("record", "recordset", "dot"), variable name ("var")
	Bs    []Bound  // binder ops; body is A[0]
	NKeys int      // "except": A[0] base, A[1..NKeys] key path, A[NKeys+1] new value (may use @)
	Multi bool     // "except": the keys form one tuple index ![a, b]
}

func Lit(v Val) *Expr                { return &Expr{Op: "lit", V: v} }
func Var(n string) *Expr             { return &Expr{Op: "var", Names: []string{n}} }
func Op(op string, a ...*Expr) *Expr { return &Expr{Op: op, A: a} }
func (e *Expr) String() string       { return e.TLA() }
func paren(s string) string          { return "(" + s + ")" }
func (e *Expr) args() []string {
	out := make([]string, len(e.A))
	for i, a := range e.A {
		out[i] = a.TLA()
	}
	return out
}

func boundsTLA(bs []Bound) string {
	p := make([]string, len(bs))
	for i, b := range bs {
		if b.Tuple {
			p[i] = "<<" + strings.Join(b.Names, ", ") + ">> \\in " + b.Set.TLA()
		} else {
			p[i] = b.Names[0] + " \\in " + b.Set.TLA()
		}
	}
	return strings.Join(p, ", ")
}

var infix = map[string]string{
	"and": "/\\", "or": "\\/", "implies": "=>", "equiv": "<=>", "eq": "=", "neq": "#",
	"plus": "+", "minus": "-", "times": "*", "pow": "^", "div": "\\div", "mod": "%",
	"lt": "<", "le": "<=", "gt": ">", "ge": ">=", "dotdot": "..",
	"in": "\\in", "notin": "\\notin", "cap": "\\cap", "cup": "\\cup", "setminus": "\\", "subseteq": "\\subseteq",
	"concat": "\\o", "mapsto": ":>", "atat": "@@",
}

var prefixFn = map[string]string{
	"SUBSET": "SUBSET ", "UNION": "UNION ", "DOMAIN": "DOMAIN ", "not": "~", "neg": "-",
}

var callFn = map[string]bool{
	"Cardinality": true, "IsFiniteSet": true, "Len": true, "Head": true, "Tail": true, "ToString": true,
	"Append": true, "SubSeq": true, "Assert": true,
}

// TLA renders the expression, fully parenthesised.
func (e *Expr) TLA() string {
	a := e.args
	switch e.Op {
	case "lit":
		return e.V.TLA()
	case "var":
		return e.Names[0]
	case "set":
		return "{" + strings.Join(a(), ", ") + "}"
	case "tuple":
		return "<<" + strings.Join(a(), ", ") + ">>"
	case "record":
		p := make([]string, len(e.A))
		for i, x := range e.A {
			p[i] = e.Names[i] + " |-> " + x.TLA()
		}
		return "[" + strings.Join(p, ", ") + "]"
	case "recordset":
		p := make([]string, len(e.A))
		for i, x := range e.A {
			p[i] = e.Names[i] + " : " + x.TLA()
		}
		return "[" + strings.Join(p, ", ") + "]"
	case "funcset":
		return "[" + e.A[0].TLA() + " -> " + e.A[1].TLA() + "]"
	case "cross":
		return paren(strings.Join(a(), " \\X "))
	case "apply":
		return paren(e.A[0].TLA()) + "[" + e.A[1].TLA() + "]"
	case "apply2":
		return paren(e.A[0].TLA()) + "[" + e.A[1].TLA() + ", " + e.A[2].TLA() + "]"
	case "dot":
		return paren(e.A[0].TLA()) + "." + e.Names[0]
	case "inseq":
		return paren(e.A[0].TLA() + " \\in Seq(" + e.A[1].TLA() + ")")
	case "except":
		var k strings.Builder
		if e.Multi {
			k.WriteString("[" + strings.Join(a()[1:1+e.NKeys], ", ") + "]")
		} else {
			for _, x := range e.A[1 : 1+e.NKeys] {
				k.WriteString("[" + x.TLA() + "]")
			}
		}
		return "[" + e.A[0].TLA() + " EXCEPT !" + k.String() + " = " + e.A[1+e.NKeys].TLA() + "]"
	case "forall":
		return paren("\\A " + boundsTLA(e.Bs) + " : " + e.A[0].TLA())
	case "exists":
		return paren("\\E " + boundsTLA(e.Bs) + " : " + e.A[0].TLA())
	case "choose":
		return paren("CHOOSE " + boundsTLA(e.Bs) + " : " + e.A[0].TLA())
	case "refine":
		return "{" + boundsTLA(e.Bs) + " : " + e.A[0].TLA() + "}"
	case "compr":
		return "{" + e.A[0].TLA() + " : " + boundsTLA(e.Bs) + "}"
	case "funcctor":
		return "[" + boundsTLA(e.Bs) + " |-> " + e.A[0].TLA() + "]"
	}
	if s, ok := infix[e.Op]; ok {
		return paren(e.A[0].TLA() + " " + s + " " + e.A[1].TLA())
	}
	if s, ok := prefixFn[e.Op]; ok {
		return paren(s + e.A[0].TLA())
	}
	if callFn[e.Op] {
		return e.Op + "(" + strings.Join(a(), ", ") + ")"
	}
	panic(fmt.Sprintf("render: unknown op %q", e.Op))
}

// Walk visits every node.
func (e *Expr) Walk(f func(*Expr)) {
	f(e)
	for _, b := range e.Bs {
		b.Set.Walk(f)
	}
	for _, a := range e.A {
		a.Walk(f)
	}
}

// Depth of the tree (literals are 0).
func (e *Expr) Depth() int {
	d := 0
	for _, b := range e.Bs {
		if c := b.Set.Depth() + 1; c > d {
			d = c
		}
	}
	for _, a := range e.A {
		if c := a.Depth() + 1; c > d {
			d = c
		}
	}
	return d
}
