package tlx

import (
	"fmt"
)

// Outcome classes of the reference evaluator.
type Class int

const (
	CValue  Class = iota // a definite value
	CError               // TLC reports an evaluation error here (type error, out of domain, /0, overflow, empty CHOOSE, ...)
	CAmbig               // TLA+ leaves it open / depends on evaluation order or laziness; not asserted
	CTooBig              // intermediate collection beyond the harness's size guard; case set aside
)

func (c Class) String() string { return [...]string{"value", "error", "ambiguous", "toobig"}[c] }

type Outcome struct {
	C   Class
	V   Val
	Msg string
}

func (o Outcome) String() string {
	if o.C == CValue {
		return "value " + o.V.TLA()
	}
	return o.C.String() + ": " + o.Msg
}

type evalStop struct {
	c   Class
	msg string
}

const MaxColl = 4096

// Evaluator: Strict = TLA+'s identification of functions over 1..n with tuples;
// otherwise the PGo fragment, where the two kinds are distinct.
type Evaluator struct {
	Strict  bool
	Why     map[string]int // reasons for CAmbig, for reporting
	MaxColl int            // largest collection met while evaluating
	work    int
}

func (ev *Evaluator) fail(format string, a ...any) {
	panic(evalStop{CError, fmt.Sprintf(format, a...)})
}
func (ev *Evaluator) ambig(reason string) {
	if ev.Why != nil {
		ev.Why[reason]++
	}
	panic(evalStop{CAmbig, reason})
}
func (ev *Evaluator) big(what string) { panic(evalStop{CTooBig, what}) }

// Eval evaluates e under env.
func (ev *Evaluator) Eval(e *Expr, env map[string]Val) (out Outcome) {
	defer func() {
		if r := recover(); r != nil {
			if s, ok := r.(evalStop); ok {
				out = Outcome{C: s.c, Msg: s.msg}
				return
			}
			panic(r)
		}
	}()
	return Outcome{C: CValue, V: ev.eval(e, env)}
}

func (ev *Evaluator) try(e *Expr, env map[string]Val) (v Val, stop *evalStop) {
	defer func() {
		if r := recover(); r != nil {
			if s, ok := r.(evalStop); ok {
				stop = &s
				return
			}
			panic(r)
		}
	}()
	return ev.eval(e, env), nil
}

func (ev *Evaluator) norm(v Val) Val {
	if ev.Strict {
		return Norm(v)
	}
	return v
}

func (ev *Evaluator) asBool(v Val, what string) bool {
	if v.K != KBool {
		ev.fail("%s: %s is not a boolean", what, v)
	}
	return v.B
}
func (ev *Evaluator) asInt(v Val, what string) int64 {
	if v.K != KInt {
		ev.fail("%s: %s is not a number", what, v)
	}
	return v.I
}
func (ev *Evaluator) asSet(v Val, what string) Val {
	if v.K != KSet {
		ev.fail("%s: %s is not a set", what, v)
	}
	return v
}
func (ev *Evaluator) asSeq(v Val, what string) []Val {
	if v.K == KStr {
		ev.ambig("string-as-sequence") // TLC treats strings as sequences for Len and \o; outside the fragment
	}
	if v.K == KTup {
		return v.E
	}
	if ev.Strict && v.K == KFn && v.isSeqDomain() {
		return v.Vs
	}
	ev.fail("%s: %s is not a sequence", what, v)
	return nil
}

// asFn returns keys/values; strict mode views a tuple as a function over 1..n.
func (ev *Evaluator) asFn(v Val, what string) (ks, vs []Val) {
	if v.K == KFn {
		return v.Ks, v.Vs
	}
	if ev.Strict && v.K == KTup {
		ks = make([]Val, len(v.E))
		for i := range ks {
			ks[i] = Int(int64(i + 1))
		}
		return ks, v.E
	}
	ev.fail("%s: %s is not a function", what, v)
	return
}

func i32(ev *Evaluator, x int64, what string) Val {
	if x > 2147483647 || x < -2147483648 {
		ev.fail("overflow when computing %s", what)
	}
	return Int(x)
}

func (ev *Evaluator) comparable(vs []Val, why string) {
	for i := 1; i < len(vs); i++ {
		if !SameShape(Norm(vs[0]), Norm(vs[i])) {
			ev.ambig("heterogeneous-" + why)
		}
	}
}

func (ev *Evaluator) mkSet(es []Val, why string) Val {
	ev.comparable(es, why)
	if len(es) > MaxColl {
		ev.big("set")
	}
	return Set(es...)
}

func (ev *Evaluator) mkFn(ks, vs []Val, why string) Val {
	ev.comparable(ks, why)
	return ev.norm(Fn(ks, vs))
}

type bindFn func(env map[string]Val)

// forEach enumerates the bound combinations; sets are evaluated eagerly, first.
func (ev *Evaluator) forEach(bs []Bound, env map[string]Val, f func(env map[string]Val, key Val)) {
	sets := make([]Val, len(bs))
	var firstStop *evalStop
	emptyBefore := false
	for i, b := range bs {
		v, stop := ev.try(b.Set, env)
		if stop == nil && v.K != KSet {
			stop = &evalStop{CError, fmt.Sprintf("bound set %s is not a set", v)}
		}
		if stop != nil {
			if stop.c == CTooBig {
				panic(*stop)
			}
			if emptyBefore && stop.c == CError {
				// Go evaluates every bound set before looking at any; a lazy evaluator stops at the empty one
				stop = &evalStop{CAmbig, "error-in-bound-after-empty-bound"}
			}
			if firstStop == nil {
				firstStop = stop
			}
			continue
		}
		sets[i] = v
		if len(v.E) == 0 {
			emptyBefore = true
		}
	}
	if firstStop != nil {
		if firstStop.c == CAmbig && ev.Why != nil {
			ev.Why[firstStop.msg]++
		}
		panic(*firstStop)
	}
	total := 1
	for _, s := range sets {
		total *= len(s.E)
		if total > MaxColl {
			ev.big("bound product")
		}
	}
	args := make([]Val, len(bs))
	var rec func(i int, env map[string]Val)
	rec = func(i int, env map[string]Val) {
		if i == len(bs) {
			key := args[0]
			if len(args) > 1 {
				key = Tup(args...)
			}
			f(env, key)
			return
		}
		for _, x := range sets[i].E {
			args[i] = x
			env2 := make(map[string]Val, len(env)+len(bs[i].Names))
			for k, v := range env {
				env2[k] = v
			}
			if bs[i].Tuple {
				var elems []Val
				if x.K == KTup {
					elems = x.E
				} else if ev.Strict && x.K == KFn && x.isSeqDomain() {
					elems = x.Vs
				} else {
					ev.ambig("tuple-pattern-over-non-tuple")
				}
				if len(elems) < len(bs[i].Names) {
					ev.ambig("tuple-pattern-arity")
				}
				for j, n := range bs[i].Names {
					env2[n] = elems[j]
				}
			} else {
				env2[bs[i].Names[0]] = x
			}
			rec(i+1, env2)
		}
	}
	rec(0, env)
}

func (ev *Evaluator) eval(e *Expr, env map[string]Val) Val {
	ev.work++
	if ev.work > 100000 {
		ev.big("evaluation steps")
	}
	v := ev.eval1(e, env)
	if n := len(v.E) + len(v.Ks); n > ev.MaxColl {
		ev.MaxColl = n
	}
	return v
}

// lazyFrom: index of the first operand that generated Go code evaluates lazily
// (short-circuit logic, the EXCEPT right-hand side, binder bodies).
func lazyFrom(e *Expr) int {
	switch e.Op {
	case "and", "or", "implies":
		return 1
	case "except":
		return 1 + e.NKeys
	case "forall", "exists", "choose", "refine", "compr", "funcctor":
		return 0
	}
	return len(e.A)
}

func (ev *Evaluator) eval1(e *Expr, env map[string]Val) Val {
	// Go evaluates every (eager) operand before the operator looks at any of them.
	// The first failure wins, but an operand beyond the size guard anywhere among
	// them sets the whole case aside: the runtime may build it before failing.
	n := lazyFrom(e)
	pre := make([]Val, n)
	var first *evalStop
	for i := 0; i < n; i++ {
		v, stop := ev.try(e.A[i], env)
		if stop != nil {
			if stop.c == CTooBig {
				panic(*stop)
			}
			if first == nil {
				first = stop
			}
			continue
		}
		pre[i] = v
	}
	if first != nil {
		panic(*first)
	}
	arg := func(i int) Val {
		if i < n {
			return pre[i]
		}
		return ev.eval(e.A[i], env)
	}
	switch e.Op {
	case "lit":
		return ev.norm(e.V)
	case "var":
		v, ok := env[e.Names[0]]
		if !ok {
			panic("unbound variable " + e.Names[0])
		}
		return v
	case "set":
		es := make([]Val, len(e.A))
		for i := range e.A {
			es[i] = arg(i)
		}
		return ev.mkSet(es, "set-literal")
	case "tuple":
		es := make([]Val, len(e.A))
		for i := range e.A {
			es[i] = arg(i)
		}
		return Tup(es...)
	case "record":
		ks := make([]Val, len(e.A))
		vs := make([]Val, len(e.A))
		for i := range e.A {
			ks[i] = Str(e.Names[i])
			vs[i] = arg(i)
		}
		return Fn(ks, vs)
	case "and":
		if !ev.asBool(arg(0), "/\\") {
			return Bool(false)
		}
		return Bool(ev.asBool(arg(1), "/\\"))
	case "or":
		if ev.asBool(arg(0), "\\/") {
			return Bool(true)
		}
		return Bool(ev.asBool(arg(1), "\\/"))
	case "implies":
		if !ev.asBool(arg(0), "=>") {
			return Bool(true)
		}
		return Bool(ev.asBool(arg(1), "=>"))
	case "not":
		return Bool(!ev.asBool(arg(0), "~"))
	case "equiv":
		a, b := arg(0), arg(1)
		return Bool(ev.asBool(a, "<=>") == ev.asBool(b, "<=>"))
	case "eq", "neq":
		a, b := arg(0), arg(1)
		if !SameShape(Norm(a), Norm(b)) {
			ev.ambig("heterogeneous-equality")
		}
		if !ev.Strict && !SameShape(a, b) {
			ev.ambig("heterogeneous-equality")
		}
		r := Equal(a, b)
		return Bool(r == (e.Op == "eq"))
	case "plus", "minus", "times", "div", "mod", "pow", "lt", "le", "gt", "ge", "dotdot":
		av, bv := arg(0), arg(1)
		a, b := ev.asInt(av, e.Op), ev.asInt(bv, e.Op)
		switch e.Op {
		case "plus":
			return i32(ev, a+b, "+")
		case "minus":
			return i32(ev, a-b, "-")
		case "times":
			return i32(ev, a*b, "*")
		case "div":
			if b == 0 {
				ev.fail("the second argument of \\div is 0")
			}
			q := a / b
			if (a%b != 0) && ((a < 0) != (b < 0)) {
				q--
			}
			return i32(ev, q, "\\div")
		case "mod":
			if b <= 0 {
				ev.fail("the second argument of %% should be positive")
			}
			return Int(((a % b) + b) % b)
		case "pow":
			if b < 0 {
				ev.fail("the second argument of ^ should be a natural number")
			}
			if a == 0 && b == 0 {
				ev.fail("0^0 is undefined")
			}
			r := int64(1)
			for i := int64(0); i < b; i++ {
				r *= a
				if r > 2147483647 || r < -2147483648 {
					ev.fail("overflow when computing ^")
				}
				if r == 0 || r == 1 && a == 1 {
					break
				}
				if a == -1 {
					if b%2 == 0 {
						r = 1
					} else {
						r = -1
					}
					break
				}
			}
			return Int(r)
		case "lt":
			return Bool(a < b)
		case "le":
			return Bool(a <= b)
		case "gt":
			return Bool(a > b)
		case "ge":
			return Bool(a >= b)
		default: // dotdot
			if a > b {
				return Set()
			}
			if b-a+1 > MaxColl {
				ev.big("range")
			}
			es := make([]Val, 0, b-a+1)
			for i := a; i <= b; i++ {
				es = append(es, Int(i))
			}
			return Set(es...)
		}
	case "neg":
		a := ev.asInt(arg(0), "-.")
		return i32(ev, -a, "-.")
	case "in", "notin":
		x, sv := arg(0), arg(1)
		s := ev.asSet(sv, "\\in")
		ev.comparable(append([]Val{x}, s.E...), "membership")
		return Bool(s.Has(x) == (e.Op == "in"))
	case "cap", "cup", "setminus", "subseteq":
		av, bv := arg(0), arg(1)
		if (av.K == KSet) != (bv.K == KSet) {
			// TLC keeps \cup, \cap, \ lazy and decides \subseteq by enumerating the left
			// side only, so a non-set operand is not always reported
			ev.ambig("set-operation-with-one-non-set-operand")
		}
		a, b := ev.asSet(av, e.Op), ev.asSet(bv, e.Op)
		ev.comparable(append(append([]Val{}, a.E...), b.E...), "set-operation")
		var out []Val
		switch e.Op {
		case "cup":
			return ev.mkSet(append(append([]Val{}, a.E...), b.E...), "set-operation")
		case "cap":
			for _, x := range a.E {
				if b.Has(x) {
					out = append(out, x)
				}
			}
			return Set(out...)
		case "setminus":
			for _, x := range a.E {
				if !b.Has(x) {
					out = append(out, x)
				}
			}
			return Set(out...)
		default:
			for _, x := range a.E {
				if !b.Has(x) {
					return Bool(false)
				}
			}
			return Bool(true)
		}
	case "SUBSET":
		s := ev.asSet(arg(0), "SUBSET")
		if len(s.E) > 10 {
			ev.big("SUBSET")
		}
		n := len(s.E)
		out := make([]Val, 0, 1<<n)
		for m := 0; m < 1<<n; m++ {
			var sub []Val
			for i := 0; i < n; i++ {
				if m&(1<<i) != 0 {
					sub = append(sub, s.E[i])
				}
			}
			out = append(out, Val{K: KSet, E: sub})
		}
		return Set(out...)
	case "UNION":
		s := ev.asSet(arg(0), "UNION")
		var out []Val
		for _, m := range s.E {
			out = append(out, ev.asSet(m, "UNION member").E...)
		}
		return ev.mkSet(out, "UNION")
	case "Cardinality":
		return Int(int64(len(ev.asSet(arg(0), "Cardinality").E)))
	case "IsFiniteSet":
		if arg(0).K != KSet {
			ev.ambig("IsFiniteSet-of-non-set") // TLC answers TRUE, the runtime refuses
		}
		return Bool(true)
	case "Len":
		return Int(int64(len(ev.asSeq(arg(0), "Len"))))
	case "Head":
		s := ev.asSeq(arg(0), "Head")
		if len(s) == 0 {
			ev.fail("Head of the empty sequence")
		}
		return s[0]
	case "Tail":
		s := ev.asSeq(arg(0), "Tail")
		if len(s) == 0 {
			ev.fail("Tail of the empty sequence")
		}
		return Tup(s[1:]...)
	case "Append":
		sv, x := arg(0), arg(1)
		s := ev.asSeq(sv, "Append")
		return Tup(append(append([]Val{}, s...), x)...)
	case "concat":
		av, bv := arg(0), arg(1)
		a := ev.asSeq(av, "\\o")
		b := ev.asSeq(bv, "\\o")
		return Tup(append(append([]Val{}, a...), b...)...)
	case "SubSeq":
		sv, mv, nv := arg(0), arg(1), arg(2)
		s := ev.asSeq(sv, "SubSeq")
		m, n := ev.asInt(mv, "SubSeq"), ev.asInt(nv, "SubSeq")
		if m > n {
			return Tup()
		}
		if m < 1 || m > int64(len(s)) || n < 1 || n > int64(len(s)) {
			ev.fail("SubSeq bounds outside the sequence")
		}
		return Tup(s[m-1 : n]...)
	case "inseq":
		tv, sv := arg(0), arg(1)
		s := ev.asSet(sv, "Seq")
		if !(tv.K == KTup || (ev.Strict && tv.K == KFn && tv.isSeqDomain())) {
			ev.ambig("non-sequence-in-Seq")
		}
		t := ev.asSeq(tv, "Seq")
		ev.comparable(append(append([]Val{}, t...), s.E...), "membership")
		for _, x := range t {
			if !s.Has(x) {
				return Bool(false)
			}
		}
		return Bool(true)
	case "DOMAIN":
		ks, _ := ev.asFn(arg(0), "DOMAIN")
		return Set(ks...)
	case "mapsto":
		k, v := arg(0), arg(1)
		return ev.mkFn([]Val{k}, []Val{v}, "function-keys")
	case "atat":
		fv, gv := arg(0), arg(1)
		fk, fvs := ev.asFn(fv, "@@")
		gk, gvs := ev.asFn(gv, "@@")
		// f wins: put g first so that later (f) pairs override
		ks := append(append([]Val{}, gk...), fk...)
		vs := append(append([]Val{}, gvs...), fvs...)
		return ev.mkFn(ks, vs, "function-keys")
	case "apply", "apply2", "dot":
		f := arg(0)
		var x Val
		switch e.Op {
		case "apply":
			x = arg(1)
		case "apply2":
			a, b := arg(1), arg(2)
			x = Tup(a, b)
		default:
			x = Str(e.Names[0])
		}
		return ev.apply(f, x)
	case "except":
		base := arg(0)
		keys := make([]Val, e.NKeys)
		for i := range keys {
			keys[i] = arg(1 + i)
		}
		if e.Multi {
			keys = []Val{Tup(keys...)}
		}
		return ev.norm(ev.except(base, keys, e.A[1+e.NKeys], env))
	case "ToString":
		v := arg(0)
		switch v.K {
		case KInt:
			return Str(fmt.Sprint(v.I))
		case KBool:
			return Str(v.TLA())
		case KStr:
			return Str(quoteTLA(v.S))
		}
		ev.ambig("ToString-of-composite")
	case "Assert":
		c, m := arg(0), arg(1)
		if m.K != KStr {
			ev.ambig("Assert-message-not-string")
		}
		if !ev.asBool(c, "Assert") {
			ev.fail("assertion failed")
		}
		return Bool(true)
	case "cross":
		sets := make([]Val, len(e.A))
		total := 1
		for i := range e.A {
			sets[i] = arg(i)
		}
		for i := range sets {
			ev.asSet(sets[i], "\\X")
			total *= len(sets[i].E)
			if total > MaxColl {
				ev.big("\\X")
			}
		}
		var out []Val
		cur := make([]Val, len(sets))
		var rec func(i int)
		rec = func(i int) {
			if i == len(sets) {
				out = append(out, Tup(cur...))
				return
			}
			for _, x := range sets[i].E {
				cur[i] = x
				rec(i + 1)
			}
		}
		rec(0)
		return Set(out...)
	case "recordset":
		sets := make([]Val, len(e.A))
		total := 1
		for i := range e.A {
			sets[i] = arg(i)
		}
		for i := range sets {
			ev.asSet(sets[i], "record set")
			total *= len(sets[i].E)
			if total > MaxColl {
				ev.big("record set")
			}
		}
		ks := make([]Val, len(e.A))
		for i := range ks {
			ks[i] = Str(e.Names[i])
		}
		var out []Val
		cur := make([]Val, len(sets))
		var rec func(i int)
		rec = func(i int) {
			if i == len(sets) {
				out = append(out, Fn(ks, append([]Val{}, cur...)))
				return
			}
			for _, x := range sets[i].E {
				cur[i] = x
				rec(i + 1)
			}
		}
		rec(0)
		return Set(out...)
	case "funcset":
		dv, rv := arg(0), arg(1)
		d, r := ev.asSet(dv, "function set"), ev.asSet(rv, "function set")
		total := 1
		for range d.E {
			total *= len(r.E)
			if total > MaxColl {
				ev.big("function set")
			}
		}
		var out []Val
		cur := make([]Val, len(d.E))
		var rec func(i int)
		rec = func(i int) {
			if i == len(d.E) {
				out = append(out, ev.norm(Fn(d.E, append([]Val{}, cur...))))
				return
			}
			for _, x := range r.E {
				cur[i] = x
				rec(i + 1)
			}
		}
		rec(0)
		return Set(out...)
	case "funcctor":
		var ks, vs []Val
		ev.forEach(e.Bs, env, func(env2 map[string]Val, key Val) {
			v, stop := ev.try(e.A[0], env2)
			if stop != nil {
				if stop.c == CError {
					ev.ambig("error-inside-function-constructor-body")
				}
				panic(*stop)
			}
			ks = append(ks, key)
			vs = append(vs, v)
		})
		return ev.norm(Fn(ks, vs))
	case "refine":
		var out []Val
		ev.forEach(e.Bs, env, func(env2 map[string]Val, key Val) {
			v, stop := ev.try(e.A[0], env2)
			if stop == nil && v.K != KBool {
				stop = &evalStop{CError, "refinement predicate is not boolean"}
			}
			if stop != nil {
				if stop.c == CError {
					ev.ambig("error-inside-set-refinement-body")
				}
				panic(*stop)
			}
			if v.B {
				out = append(out, key)
			}
		})
		return Set(out...)
	case "compr":
		var out []Val
		ev.forEach(e.Bs, env, func(env2 map[string]Val, key Val) {
			v, stop := ev.try(e.A[0], env2)
			if stop != nil {
				if stop.c == CError {
					ev.ambig("error-inside-set-comprehension-body")
				}
				panic(*stop)
			}
			out = append(out, v)
		})
		return ev.mkSet(out, "set-comprehension")
	case "forall", "exists":
		nTrue, nFalse := 0, 0
		var firstErr *evalStop
		ev.forEach(e.Bs, env, func(env2 map[string]Val, key Val) {
			v, stop := ev.try(e.A[0], env2)
			if stop == nil && v.K != KBool {
				stop = &evalStop{CError, "quantifier body is not boolean"}
			}
			if stop != nil {
				if stop.c != CError {
					panic(*stop)
				}
				if firstErr == nil {
					firstErr = stop
				}
				return
			}
			if v.B {
				nTrue++
			} else {
				nFalse++
			}
		})
		if firstErr != nil {
			// an evaluator that meets a deciding element first never sees the error
			if (e.Op == "forall" && nFalse > 0) || (e.Op == "exists" && nTrue > 0) {
				ev.ambig("error-behind-short-circuit-in-quantifier")
			}
			panic(*firstErr)
		}
		if e.Op == "forall" {
			return Bool(nFalse == 0)
		}
		return Bool(nTrue > 0)
	case "choose":
		var wit []Val
		var firstErr *evalStop
		ev.forEach(e.Bs, env, func(env2 map[string]Val, key Val) {
			v, stop := ev.try(e.A[0], env2)
			if stop == nil && v.K != KBool {
				stop = &evalStop{CError, "CHOOSE body is not boolean"}
			}
			if stop != nil {
				if stop.c != CError {
					panic(*stop)
				}
				if firstErr == nil {
					firstErr = stop
				}
				return
			}
			if v.B {
				wit = append(wit, key)
			}
		})
		if firstErr != nil {
			if len(wit) > 0 {
				ev.ambig("error-behind-witness-in-CHOOSE")
			}
			panic(*firstErr)
		}
		if len(wit) == 0 {
			ev.fail("CHOOSE over a set with no witness")
		}
		if len(wit) > 1 {
			ev.ambig("CHOOSE-with-several-witnesses")
		}
		return wit[0]
	}
	panic("refeval: unknown op " + e.Op)
}

func (ev *Evaluator) apply(f, x Val) Val {
	switch {
	case f.K == KTup:
		if x.K != KInt {
			ev.fail("tuple applied to non-number %s", x)
		}
		if x.I < 1 || x.I > int64(len(f.E)) {
			ev.fail("index %d out of bounds of %s", x.I, f)
		}
		return f.E[x.I-1]
	case f.K == KFn:
		ev.comparable(append([]Val{x}, f.Ks...), "function-application")
		v, ok := f.Get(x)
		if !ok {
			ev.fail("%s is not in the domain of %s", x, f)
		}
		return v
	}
	ev.fail("%s is not a function", f)
	return Val{}
}

func (ev *Evaluator) except(base Val, keys []Val, newVal *Expr, env map[string]Val) Val {
	if len(keys) == 0 {
		env2 := make(map[string]Val, len(env)+1)
		for k, v := range env {
			env2[k] = v
		}
		env2["@"] = base
		return ev.eval(newVal, env2)
	}
	k := keys[0]
	switch base.K {
	case KTup:
		if k.K != KInt {
			if ev.Strict {
				ev.ambig("EXCEPT-non-number-key-on-sequence")
			}
			ev.fail("EXCEPT key %s on a tuple", k)
		}
		if k.I < 1 || k.I > int64(len(base.E)) {
			if ev.Strict {
				return base // TLC: the function is unchanged
			}
			ev.fail("EXCEPT key %s outside the domain", k)
		}
		es := append([]Val{}, base.E...)
		es[k.I-1] = ev.except(base.E[k.I-1], keys[1:], newVal, env)
		return Tup(es...)
	case KFn:
		ev.comparable(append([]Val{k}, base.Ks...), "EXCEPT-key")
		old, ok := base.Get(k)
		if !ok {
			if ev.Strict {
				return base
			}
			ev.fail("EXCEPT key %s outside the domain", k)
		}
		nv := ev.except(old, keys[1:], newVal, env)
		ks := append([]Val{}, base.Ks...)
		vs := append([]Val{}, base.Vs...)
		for i := range ks {
			if Equal(ks[i], k) {
				vs[i] = nv
			}
		}
		return Fn(ks, vs)
	}
	ev.fail("EXCEPT applied to %s, which is not a function", base)
	return Val{}
}
