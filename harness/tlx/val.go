// Package tlx is the harness-side TLA+ universe: canonical values independent of
// distsys/tla, a typed expression language over every operator the compiler
// emits, a reference evaluator written from Specifying Systems / TLC's module
// semantics, an interpreter that drives the real Go runtime the way generated
// code does, and a renderer to TLA+ text (so TLC can be asked the same question).
package tlx

import (
	"fmt"
	"sort"
	"strings"
)

type Kind uint8

const (
	KBool Kind = iota
	KInt
	KStr
	KSet
	KTup
	KFn
)

func (k Kind) String() string {
	return [...]string{"bool", "int", "string", "set", "tuple", "function"}[k]
}

// Val is a canonical TLA+ value: sets are sorted and duplicate-free, functions
// are sorted by key.
type Val struct {
	K  Kind
	B  bool
	I  int64
	S  string
	E  []Val // set members (sorted) or tuple elements (in order)
	Ks []Val // function keys, sorted
	Vs []Val // function values, parallel to Ks
}

func Bool(b bool) Val  { return Val{K: KBool, B: b} }
func Int(i int64) Val  { return Val{K: KInt, I: i} }
func Str(s string) Val { return Val{K: KStr, S: s} }
func Tup(e ...Val) Val { return Val{K: KTup, E: append([]Val(nil), e...)} }

func Set(e ...Val) Val {
	s := append([]Val(nil), e...)
	sort.Slice(s, func(i, j int) bool { return Compare(s[i], s[j]) < 0 })
	out := s[:0]
	for i, x := range s {
		if i == 0 || Compare(x, s[i-1]) != 0 {
			out = append(out, x)
		}
	}
	return Val{K: KSet, E: out}
}

// Fn builds a function from pairs; a later pair with an equal key wins.
func Fn(keys, vals []Val) Val {
	type kv struct{ k, v Val }
	ps := make([]kv, len(keys))
	for i := range keys {
		ps[i] = kv{keys[i], vals[i]}
	}
	sort.SliceStable(ps, func(i, j int) bool { return Compare(ps[i].k, ps[j].k) < 0 })
	var ks, vs []Val
	for i, p := range ps {
		if i+1 < len(ps) && Compare(ps[i+1].k, p.k) == 0 {
			continue
		}
		ks = append(ks, p.k)
		vs = append(vs, p.v)
	}
	return Val{K: KFn, Ks: ks, Vs: vs}
}

func Rec(fields map[string]Val) Val {
	var ks, vs []Val
	for k, v := range fields {
		ks = append(ks, Str(k))
		vs = append(vs, v)
	}
	return Fn(ks, vs)
}

func cmpInt(a, b int64) int {
	switch {
	case a < b:
		return -1
	case a > b:
		return 1
	}
	return 0
}

// Compare is a total order on canonical values (kind first, then content).
func Compare(a, b Val) int {
	if a.K != b.K {
		return cmpInt(int64(a.K), int64(b.K))
	}
	switch a.K {
	case KBool:
		x, y := 0, 0
		if a.B {
			x = 1
		}
		if b.B {
			y = 1
		}
		return x - y
	case KInt:
		return cmpInt(a.I, b.I)
	case KStr:
		return strings.Compare(a.S, b.S)
	case KSet, KTup:
		if len(a.E) != len(b.E) {
			return cmpInt(int64(len(a.E)), int64(len(b.E)))
		}
		for i := range a.E {
			if c := Compare(a.E[i], b.E[i]); c != 0 {
				return c
			}
		}
		return 0
	default:
		if len(a.Ks) != len(b.Ks) {
			return cmpInt(int64(len(a.Ks)), int64(len(b.Ks)))
		}
		for i := range a.Ks {
			if c := Compare(a.Ks[i], b.Ks[i]); c != 0 {
				return c
			}
		}
		for i := range a.Vs {
			if c := Compare(a.Vs[i], b.Vs[i]); c != 0 {
				return c
			}
		}
		return 0
	}
}

func Equal(a, b Val) bool { return Compare(a, b) == 0 }

// Has reports set membership.
func (v Val) Has(x Val) bool {
	i := sort.Search(len(v.E), func(i int) bool { return Compare(v.E[i], x) >= 0 })
	return i < len(v.E) && Compare(v.E[i], x) == 0
}

// Get is function lookup.
func (v Val) Get(k Val) (Val, bool) {
	i := sort.Search(len(v.Ks), func(i int) bool { return Compare(v.Ks[i], k) >= 0 })
	if i < len(v.Ks) && Compare(v.Ks[i], k) == 0 {
		return v.Vs[i], true
	}
	return Val{}, false
}

// isSeqDomain: the keys are exactly 1..n.
func (v Val) isSeqDomain() bool {
	for i, k := range v.Ks {
		if k.K != KInt || k.I != int64(i+1) {
			return false
		}
	}
	return true
}

// Norm applies TLA+'s identification of a function whose domain is 1..n with
// the n-tuple (n = 0 included), recursively.
func Norm(v Val) Val {
	switch v.K {
	case KSet:
		e := make([]Val, len(v.E))
		for i, x := range v.E {
			e[i] = Norm(x)
		}
		return Set(e...)
	case KTup:
		e := make([]Val, len(v.E))
		for i, x := range v.E {
			e[i] = Norm(x)
		}
		return Val{K: KTup, E: e}
	case KFn:
		ks := make([]Val, len(v.Ks))
		vs := make([]Val, len(v.Vs))
		for i := range v.Ks {
			ks[i] = Norm(v.Ks[i])
			vs[i] = Norm(v.Vs[i])
		}
		f := Fn(ks, vs)
		if f.isSeqDomain() {
			return Val{K: KTup, E: f.Vs}
		}
		return f
	}
	return v
}

func quoteTLA(s string) string {
	var b strings.Builder
	b.WriteByte('"')
	for _, r := range s {
		switch r {
		case '"':
			b.WriteString(`\"`)
		case '\\':
			b.WriteString(`\\`)
		case '\t':
			b.WriteString(`\t`)
		case '\n':
			b.WriteString(`\n`)
		case '\f':
			b.WriteString(`\f`)
		case '\r':
			b.WriteString(`\r`)
		default:
			b.WriteRune(r)
		}
	}
	b.WriteByte('"')
	return b.String()
}

// TLA renders the value as a plain TLA+ expression that TLC can evaluate.
func (v Val) TLA() string {
	switch v.K {
	case KBool:
		if v.B {
			return "TRUE"
		}
		return "FALSE"
	case KInt:
		if v.I == -2147483648 {
			return "(-2147483647 - 1)" // TLC cannot lex 2147483648
		}
		if v.I < 0 {
			return fmt.Sprintf("(%d)", v.I)
		}
		return fmt.Sprint(v.I)
	case KStr:
		return quoteTLA(v.S)
	case KSet:
		p := make([]string, len(v.E))
		for i, x := range v.E {
			p[i] = x.TLA()
		}
		return "{" + strings.Join(p, ", ") + "}"
	case KTup:
		p := make([]string, len(v.E))
		for i, x := range v.E {
			p[i] = x.TLA()
		}
		return "<<" + strings.Join(p, ", ") + ">>"
	default:
		if len(v.Ks) == 0 {
			return `[x \in {} |-> x]`
		}
		p := make([]string, len(v.Ks))
		for i := range v.Ks {
			p[i] = "(" + v.Ks[i].TLA() + ") :> (" + v.Vs[i].TLA() + ")"
		}
		return "(" + strings.Join(p, " @@ ") + ")"
	}
}

func (v Val) String() string { return v.TLA() }

// Size is the number of nodes in the value.
func (v Val) Size() int {
	n := 1
	for _, x := range v.E {
		n += x.Size()
	}
	for i := range v.Ks {
		n += v.Ks[i].Size() + v.Vs[i].Size()
	}
	return n
}

// Depth of nesting (atoms are 0).
func (v Val) Depth() int {
	d := 0
	for _, x := range v.E {
		if c := x.Depth() + 1; c > d {
			d = c
		}
	}
	for i := range v.Ks {
		if c := v.Ks[i].Depth() + 1; c > d {
			d = c
		}
		if c := v.Vs[i].Depth() + 1; c > d {
			d = c
		}
	}
	return d
}

// SameShape: the two values can be compared by TLC without a type complaint
// (same kind, and recursively so for everything they contain). Conservative:
// when false, the harness does not assert the outcome of comparing them.
func SameShape(a, b Val) bool {
	if a.K != b.K {
		// a tuple is a function over 1..n: TLC compares the two as functions
		if (a.K == KTup || a.K == KFn) && (b.K == KTup || b.K == KFn) {
			return SameShape(asFnView(a), asFnView(b))
		}
		return false
	}
	switch a.K {
	case KSet:
		all := append(append([]Val(nil), a.E...), b.E...)
		for i := 1; i < len(all); i++ {
			if !SameShape(all[0], all[i]) {
				return false
			}
		}
	case KTup:
		if len(a.E) != len(b.E) {
			return true // lengths are compared first
		}
		for i := range a.E {
			if !SameShape(a.E[i], b.E[i]) {
				return false
			}
		}
	case KFn:
		all := append(append([]Val(nil), a.Ks...), b.Ks...)
		for i := 1; i < len(all); i++ {
			if !SameShape(all[0], all[i]) {
				return false
			}
		}
		for i := range a.Ks {
			if w, ok := b.Get(a.Ks[i]); ok && !SameShape(a.Vs[i], w) {
				return false
			}
		}
	}
	return true
}

func asFnView(v Val) Val {
	if v.K != KTup {
		return v
	}
	ks := make([]Val, len(v.E))
	for i := range ks {
		ks[i] = Int(int64(i + 1))
	}
	return Val{K: KFn, Ks: ks, Vs: v.E}
}

// Homogeneous: every collection inside v holds mutually comparable members.
func Homogeneous(v Val) bool {
	switch v.K {
	case KSet:
		for i := range v.E {
			if !Homogeneous(v.E[i]) || (i > 0 && !SameShape(v.E[0], v.E[i])) {
				return false
			}
		}
	case KTup:
		for _, x := range v.E {
			if !Homogeneous(x) {
				return false
			}
		}
	case KFn:
		for i := range v.Ks {
			if !Homogeneous(v.Ks[i]) || !Homogeneous(v.Vs[i]) || (i > 0 && !SameShape(v.Ks[0], v.Ks[i])) {
				return false
			}
		}
	}
	return true
}
