package tlx

import (
	"fmt"
	"time"

	"github.com/DistCompiler/pgo/distsys/tla"
)

// Verdict of comparing the runtime with the two reference modes.
type Verdict struct {
	Class   string // asserted-value, asserted-error, restricted, ambiguous, toobig
	Failure string // non-empty = the property is violated on this expression
	Strict  Outcome
	Frag    Outcome
	Go      GoOutcome
	MaxColl int
}

// Judge evaluates e three ways and applies the rules of property C03 literally:
// where TLC yields a value and the fragment agrees, Go must yield it; where TLC
// errors, Go must fail loudly (ErrTLAType); where fragment and TLA+ differ
// (sequence vs function, EXCEPT outside the domain) Go may fail loudly or give
// either value; hangs and foreign panics are never acceptable.
func Judge(e *Expr, watchdog time.Duration) Verdict {
	se := &Evaluator{Strict: true}
	fe := &Evaluator{Strict: false}
	v := Verdict{Strict: se.Eval(e, map[string]Val{}), Frag: fe.Eval(e, map[string]Val{})}
	v.MaxColl = se.MaxColl
	if v.Strict.C == CTooBig || v.Frag.C == CTooBig {
		v.Class = "toobig"
		return v
	}
	if watchdog > 0 {
		v.Go = RunGo(func() tla.Value { return GoEval(e, map[string]tla.Value{}) }, watchdog)
	} else {
		v.Go = RunGoInline(func() tla.Value { return GoEval(e, map[string]tla.Value{}) })
	}
	g := v.Go
	if g.Kind == "guard" {
		v.Class = "toobig"
		return v
	}
	if g.Kind == "hang" {
		v.Failure = "the runtime did not return (hang)"
		return v
	}
	if g.Kind == "panic" {
		v.Failure = fmt.Sprintf("the runtime panicked with something that is not a TLA+ type error: %v\n%s", g.Panic, g.Stack)
		return v
	}
	var gv Val
	if g.Kind == "value" {
		x, err := FromTLA(g.V)
		if err != nil {
			v.Failure = "the runtime returned a malformed value: " + err.Error()
			return v
		}
		gv = Norm(x)
	}
	switch {
	case v.Strict.C == CAmbig || v.Frag.C == CAmbig:
		v.Class = "ambiguous"
	case v.Strict.C == CValue && v.Frag.C == CValue && Equal(Norm(v.Strict.V), Norm(v.Frag.V)):
		v.Class = "asserted-value"
		if g.Kind != "value" {
			v.Failure = fmt.Sprintf("TLA+ gives %s but the runtime failed: %v", v.Strict.V, g.Panic)
		} else if !Equal(gv, Norm(v.Strict.V)) {
			v.Failure = fmt.Sprintf("TLA+ gives %s but the runtime silently returned %s", Norm(v.Strict.V), gv)
		}
	case v.Strict.C == CError && v.Frag.C == CError:
		v.Class = "asserted-error"
		if g.Kind != "tla-error" {
			v.Failure = fmt.Sprintf("TLC reports an error (%s) but the runtime silently returned %s", v.Strict.Msg, gv)
		}
	default:
		v.Class = "restricted"
		if g.Kind == "value" {
			ok := (v.Strict.C == CValue && Equal(gv, Norm(v.Strict.V))) || (v.Frag.C == CValue && Equal(gv, Norm(v.Frag.V)))
			if !ok {
				v.Failure = fmt.Sprintf("TLA+ says %s, the fragment says %s, the runtime returned a third thing: %s", v.Strict, v.Frag, gv)
			}
		}
	}
	return v
}

// SubstituteClosed replaces every closed subterm with operator op by the literal
// value the strict reference gives it (when it has one); used to set a listed
// finding aside while still checking the rest of the expression.
func SubstituteClosed(e *Expr, op string) (*Expr, int) {
	n := 0
	var rec func(e *Expr) *Expr
	rec = func(e *Expr) *Expr {
		if e.Op == op {
			o := (&Evaluator{Strict: true}).Eval(e, map[string]Val{})
			if o.C == CValue {
				n++
				return Lit(o.V)
			}
		}
		c := *e
		c.A = make([]*Expr, len(e.A))
		for i, a := range e.A {
			c.A[i] = rec(a)
		}
		c.Bs = make([]Bound, len(e.Bs))
		for i, b := range e.Bs {
			c.Bs[i] = b
			c.Bs[i].Set = rec(b.Set)
		}
		return &c
	}
	return rec(e), n
}
