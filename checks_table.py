# Table read by ./check: one entry per property; each run entry is one rapid test
# (or native fuzz target) with its per-tier case count, shard count and watchdog.
PROPS = {}
HOOK_COMMITS = []
NOT_APPLICABLE = {}

PROPS["C10"] = dict(
    pkg="c10", level="exploration",
    technique="property-based testing (rapid): model-based history generation against a shape model of the oracle; bounded-retry oracle on the real Run loop",
    level_text="Generated search over oracle histories (labels, choice-point shapes, bound/id changes, retry counts) with an exact "
               "window oracle (every P consecutive same-shape attempts see P distinct in-range combinations) plus generated archetypes "
               "on the real Run loop whose enabled combination must be taken within the statement's bound. Sampling, not proof.",
    level_note="Trusts the harness's shape model (which digits the oracle holds, never their counts); exactly-once is asserted only "
               "where the statement's condition (same choice points on each attempt, no stale deeper digits) holds.",
    rule="rapid-generated histories of the shipped round-robin oracle: 1-5 phases, each a label, 1-5 choice points "
         "(ids following the code generator's <Arch>.<label>.<n> scheme, bounds 1-6; prefix-stable, bound-changing or "
         "fresh relative to the previous phase) and up to 2P+7 attempts, optionally consulting only a prefix; plus "
         "run-time-built archetypes with staged awaits executed by the real Run loop. Non-trivial = a window-checked "
         "run with depth>=2 and P>=4 that starts on a non-empty oracle stack (direct) / a program whose later label has "
         ">=2 points and P>=4 (run loop); distinct by rendered history/program.",
    assumptions=["global math/rand is seeded per case from a rapid draw so the oracle's random start digits are reproducible"],
    runs=[
        dict(test="TestC10Direct", quick=dict(checks=24000, shards=8, timeout=300), thorough=dict(checks=1600000, shards=16, timeout=2400)),
        dict(test="TestC10RunLoop", quick=dict(checks=8000, shards=8, timeout=300), thorough=dict(checks=400000, shards=16, timeout=2400)),
    ],
)
