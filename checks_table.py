# Table read by ./check: one entry per property; each run entry is one rapid test
# (or native fuzz target) with its per-tier case count, shard count and watchdog.
PROPS = {}
HOOK_COMMITS = ["f1402db2", "bf53f84e", "a3f07f89", "6120fb80"]
NOT_APPLICABLE = {}

PROPS["C10"] = dict(
    pkg="c10", level="exploration",
    technique="property-based testing (rapid): model-based history generation against a shape model of the oracle; bounded-retry oracle on the real Run loop",
    level_text="Generated search over oracle histories (labels, choice-point shapes, bound/id changes, retry counts) with an exact "
               "window oracle (every P consecutive same-shape attempts see P distinct in-range combinations) plus generated archetypes "
               "on the real Run loop whose enabled combination must be taken within the statement's bound. Sampling, not proof.",
    level_note="Trusts the harness's shape model (which digits the oracle holds, never their counts); exactly-once is asserted only "
               "where the statement's condition (same choice points on each attempt, no stale deeper digits) holds.",
    rule="rapid-generated histories of the shipped round-robin oracle: 1-5 phases, each a label, 1-5 choice points "
         "(ids following the code generator's <Arch>.<label>.<n> scheme, bounds 1-6; prefix-stable, bound-changing or "
         "fresh relative to the previous phase) and up to 2P+7 attempts, optionally consulting only a prefix; plus "
         "run-time-built archetypes with staged awaits executed by the real Run loop. Non-trivial = a window-checked "
         "run with depth>=2 and P>=4 that starts on a non-empty oracle stack (direct) / a program whose later label has "
         ">=2 points and P>=4 (run loop); distinct by rendered history/program.",
    assumptions=["global math/rand is seeded per case from a rapid draw so the oracle's random start digits are reproducible"],
    runs=[
        dict(test="TestC10Direct", quick=dict(checks=24000, shards=8, timeout=300), thorough=dict(checks=1600000, shards=16, timeout=2400)),
        dict(test="TestC10RunLoop", quick=dict(checks=8000, shards=8, timeout=300), thorough=dict(checks=400000, shards=16, timeout=2400)),
    ],
)

PROPS["C03"] = dict(
    pkg="c03", level="exploration",
    technique="property-based differential testing (rapid): typed expression-tree generator, three-way oracle runtime vs harness reference evaluator (TLA+ and fragment modes), reference cross-checked against TLC",
    level_text="Generated search over expression trees (depth<=4) on every exported operator/builtin, 30% with ill-typed subtrees, int32 boundary "
               "values; outcome classes value / loud TLA+ error / foreign panic / hang compared with an independent reference evaluator. "
               "Sampling of an infinite input space; no claim of exhaustiveness.",
    level_note="Trusts the harness reference evaluator (itself checked against TLC in the thorough tier); heterogeneous comparisons, lazily "
               "evaluated bodies that error, multi-witness CHOOSE, ToString of composites and strings-as-sequences are classed ambiguous and not asserted.",
    rule="typed expression trees of depth 1-4 over all operators (see classes op.*), leaves biased to int32 boundaries; non-trivial = depth>=2, some "
         "collection with >=2 members met during evaluation, TLC outcome not an error; distinct by rendered expression.",
    runs=[
        dict(test="TestC03Expr", quick=dict(checks=160000, shards=16, timeout=600), thorough=dict(checks=4000000, shards=16, timeout=3000)),
        dict(test="TestC03Containers", quick=dict(checks=24000, shards=8, timeout=300), thorough=dict(checks=1600000, shards=16, timeout=2400)),
        dict(test="TestC03TLC", late=True, quick=dict(checks=1500, shards=1, timeout=600), thorough=dict(checks=40000, shards=1, timeout=3000)),
        dict(test="FuzzC03", kind="fuzz", late=True, thorough=dict(checks=1, shards=1, fuzztime="420s", parallel=16, timeout=900)),
    ],
)

PROPS["C05"] = dict(
    pkg="c05", level="exploration",
    technique="property-based testing (rapid): algebraic laws and round-trips over generated values realised in several construction orders; model-based map histories; printed form re-parsed by an independent parser and by TLC",
    level_text="Generated values (depth<=3, printable-ASCII strings, int32 boundaries) each realised through constructors in permuted orders, "
               "through operators and through gob; laws checked: Equal equivalence vs structural equality, Equal=>Hash, membership/lookup/"
               "HashMap/immutable.Map agreement with a reference map, gob identity (bare, in structs/interfaces, streams, with causal clocks), "
               "VClock join laws, String() denotes the value. Sampling, not proof.",
    level_note="Trusts the harness's canonical value model and its small TLA+ parser (cross-checked by TLC on a batch); the causal-wrapper half "
               "runs in a second process started with PGO_TRACE_DIR, because wrapping is decided at package init.",
    rule="values drawn by type (depth 0-3) and realised in >=2 ways; non-trivial = nesting depth>=2 with some set/function of >=2 members; "
         "distinct by canonical text (per sub-property prefix).",
    runs=[
        dict(test="TestC05EqualHash", quick=dict(checks=40000, shards=8, timeout=300), thorough=dict(checks=1600000, shards=16, timeout=2400)),
        dict(test="TestC05Maps", quick=dict(checks=8000, shards=4, timeout=300), thorough=dict(checks=320000, shards=16, timeout=2400)),
        dict(test="TestC05Gob", quick=dict(checks=16000, shards=4, timeout=300), thorough=dict(checks=640000, shards=16, timeout=2400)),
        dict(test="TestC05VClock", quick=dict(checks=8000, shards=2, timeout=300), thorough=dict(checks=200000, shards=8, timeout=2400)),
        dict(test="TestC05String", quick=dict(checks=24000, shards=4, timeout=300), thorough=dict(checks=800000, shards=16, timeout=2400)),
        dict(test="TestC05ZeroValue", quick=dict(checks=200, shards=1, timeout=120), thorough=dict(checks=2000, shards=1, timeout=300)),
        dict(test="TestC05StringTLC", late=True, quick=dict(checks=600, shards=1, timeout=600), thorough=dict(checks=20000, shards=1, timeout=2400)),
        # the same laws with causal wrapping switched on (decided in package init from the environment)
        dict(test="TestC05EqualHash", env={"PGO_TRACE_DIR": "@TMP/trace"}, quick=dict(checks=16000, shards=4, timeout=300), thorough=dict(checks=400000, shards=8, timeout=2400)),
        dict(test="TestC05Gob", env={"PGO_TRACE_DIR": "@TMP/trace"}, quick=dict(checks=8000, shards=2, timeout=300), thorough=dict(checks=200000, shards=8, timeout=2400)),
        dict(test="TestC05Maps", env={"PGO_TRACE_DIR": "@TMP/trace"}, quick=dict(checks=3000, shards=1, timeout=300), thorough=dict(checks=100000, shards=4, timeout=2400)),
    ],
)

PROPS["C12"] = dict(
    pkg="c12", level="exploration",
    technique="stateful property-based testing (rapid state machine): generated update/merge/gob histories over 2-5 replicas against causal-history models; semilattice laws on reachable states",
    level_text="Generated histories of local updates, pairwise merges in any order with repeats, and gob round trips over 2-5 replicas with "
               "replica ids of every value kind; after every step the replica's read is compared with a model computed from the exact causal "
               "history of every operation (sum of known increments / add not observed by a known remove / latest op per element), and "
               "commutativity, associativity, idempotence and inflation are checked on internal state read from each type's own wire image.",
    level_note="Trusts the harness's causal-history model; LWW timestamps come from the wall clock, so writes are spaced until it advances (input precondition).",
    rule="rapid state-machine histories (write/merge/gob/laws); non-trivial = >=3 replicas, some replica merged from >=2 others, and (set types) "
         "an add and a remove of one element issued concurrently on two replicas; distinct by rendered history.",
    runs=[
        dict(test="TestC12GCounter", quick=dict(checks=6000, shards=4, timeout=300), thorough=dict(checks=600000, shards=16, timeout=2400)),
        dict(test="TestC12AWORSet", quick=dict(checks=12000, shards=8, timeout=300), thorough=dict(checks=1200000, shards=16, timeout=2400)),
        dict(test="TestC12LWWSet", quick=dict(checks=6000, shards=4, timeout=300), thorough=dict(checks=400000, shards=16, timeout=2400)),
    ],
)

PROPS["C01"] = dict(
    pkg="c01", level="fault_enumeration",
    technique="property-based testing with generated fault plans (rapid): run-time-built archetypes on the real Run loop, transparent fault-injecting resource wrappers, per-resource transaction models compared after every attempt",
    level_text="Generated programs (1-6 labels x 1-8 reads/writes/indexed accesses) over generated mixes of 2-6 real resources, executed by the real "
               "MPCalContext.Run; a generated fault plan makes each label fail up to 3 times at a drawn position (false await, resource refusing an "
               "operation, resource failing after performing it, pre-commit failing after the inner pre-commit succeeded); some operations are performed in the failing attempts only, "
               "so that the retry differs from the attempt that failed. After every attempt every "
               "observable (locals, GetState, badger, files, published outputs) must equal the model; every value read must be the model's; at the end "
               "all committed inputs are drained in order and one more read must find nothing. Nested-archetype resources (resources.NewNested) are driven "
               "directly: generated sections against a nested register archetype that answers drawn requests later than the resource's time-out or "
               "refuses a pre-commit, Abort issued at once or after the late answer; register-with-rollback model.",
    level_note="Faults are those expressible through the ArchetypeResource interface (refusals/time-outs), not process crashes. Resource kinds covered are "
               "listed in evidence classes kind.*; SingleOutputChan is excluded (documents that it cannot abort).",
    rule="program x resource mix x fault plan drawn by rapid; non-trivial = some attempt aborted after performing a write or consuming read on >=2 "
         "different resource kinds and the label later committed; distinct by rendered program+plan. "
         "Nested resource: non-trivial = a section whose request timed out and whose Abort was issued after the late answer existed.",
    runs=[
        dict(test="TestC01Memory", quick=dict(checks=4000, shards=8, timeout=300), thorough=dict(checks=400000, shards=16, timeout=3000)),
        dict(test="TestC01Sockets", quick=dict(checks=160, shards=8, timeout=300), thorough=dict(checks=16000, shards=16, timeout=3000)),
        dict(test="TestC01Nested", quick=dict(checks=240, shards=8, timeout=300), thorough=dict(checks=9600, shards=16, timeout=3000)),
    ],
)

PROPS["C04"] = dict(
    pkg="c04", level="exploration",
    technique="property-based testing (rapid): generated procedure programs laid out as the code generator lays them out, executed by the real Run loop and compared step by step with a reference PlusCal stack machine",
    level_text="Generated programs (1-4 procedures, value and ref parameters, locals with and without initialiser, self/mutual recursion bounded by a fuel "
               "counter, tail calls, calls in last position, attempts aborted after the body performed Call/Return/TailCall) are materialised as "
               "MPCalProc/MPCalArchetype tables and run by the real runtime; after every commit or abort pc, the whole stack value and every "
               "procedure variable and archetype variable are compared with the reference machine, and every value read is checked.",
    level_note="Trusts the harness's PlusCal stack machine (frame = saved parameters+locals+return label; ref = name of the target slot). A reference to a "
               "procedure's own slot is only passed when the callee cannot re-enter that procedure (PlusCal has one slot per procedure variable).",
    rule="rapid-generated procedure programs; non-trivial = maximum call depth >=2 with an executed recursive or tail call and a variable read after a "
         "return; distinct by rendered program.",
    runs=[
        dict(test="TestC04Procedures", quick=dict(checks=24000, shards=8, timeout=300), thorough=dict(checks=2000000, shards=16, timeout=3000)),
    ],
)

PROPS["C15"] = dict(
    pkg="c15", level="exploration",
    technique="property-based testing (rapid) over generated schedules: real generated archetypes under a deterministic step scheduler (gate through SetFairnessCounter), spec-faithful bag network, invariant oracles after every committed step",
    level_text="The shipped AServer/AClient archetypes (1-8 clients) run on the real Run loop, one attempt at a time under a harness scheduler; who steps "
               "and which message a bag read delivers are rapid draws, so interleavings and delivery orders are searched, shrunk and replayed. After every "
               "commit: at most one hasLock; grants only to clients with an outstanding unserved request; k-th grant goes to the k-th request the server received.",
    level_note="The network is the harness's implementation of the spec's ReliableLink bag macro; schedules are sampled, not enumerated.",
    rule="drawn schedules of up to 60n+40 attempts; non-trivial = >=3 clients and at some point the lock holder plus >=2 waiting requests at the server; distinct by rendered schedule.",
    runs=[
        dict(test="TestC15LockService", quick=dict(checks=16000, shards=8, timeout=300), thorough=dict(checks=1600000, shards=16, timeout=3000)),
    ],
)

PROPS["C08"] = dict(
    pkg="c08", level="exploration",
    technique="property-based testing (rapid) over generated schedules, delivery orders, timeouts and crash points: the real generated raftkvs archetypes under a deterministic step scheduler with real LocalShared state, invariant oracles after every committed step",
    level_text="1-5 servers x 5 real generated archetypes each (wired as bootstrap/server.go wires them: real LocalSharedManager state, optionally real "
               "Persistent/PersistentLog on in-memory badger) plus 1-3 real AClient archetypes run on the real Run loop, one attempt at a time. Who steps, "
               "which per-link-FIFO message is delivered, every either-branch, election/client time-outs, failure-detector answers and crash-stop of a "
               "minority at drawn steps are rapid draws (swarm-biased). After every commit the spec's invariants (ElectionSafety, LogMatching, "
               "LeaderCompleteness, StateMachineSafety, ApplyLogOK, LeaderAppendOnly) and their history forms are evaluated over the servers' variables.",
    level_note="Invariants are evaluated on a shadow of the variables maintained from committed write events and compared with the real shared variables "
               "(GetState) periodically and at the end of every run. Network, failure detector, timers and channels are harness resources following the "
               "deployment's wiring; schedules are sampled (depth <= 3000 attempts), so rare deep interleavings may be missed.",
    rule="drawn configuration + workload + crash plan + schedule of 200-3000 attempts; non-trivial = >=2 terms had a leader, >=1 entry committed, and a "
         "follower log truncation, a leader change after a commit, or a crash of a leader occurred; distinct by rendered schedule.",
    runs=[
        dict(test="TestC08RaftSafety", quick=dict(checks=1600, shards=16, timeout=600), thorough=dict(checks=160000, shards=16, timeout=3300)),
        dict(test="TestC08Deployed", quick=dict(checks=192, shards=16, timeout=600), thorough=dict(checks=9600, shards=16, timeout=3300)),
    ],
)

PROPS["C19"] = dict(
    pkg="c19", level="fault_enumeration",
    technique="property-based testing with generated event orders and injected network faults (rapid): real Monitor + real MPCalContext + real FailureDetector resources behind a harness-owned TCP fault proxy; model-based expectation after every event",
    level_text="Generated orders (3-10 events) of monitor start/close, archetype start/end (Done, Stop, error, panic), detector start (1-2 detector pairs, "
               "each with its own proxy), path sever (refuse or reset) / blackhole / heal and read bursts; pull interval 5-20 ms, time-out 10-40 ms, archetype id "
               "number/string/tuple. After every event each detector is sampled until it gives the answer the statement demands (bound 3 polling cycles + 1.5 s "
               "slack on a stall-compensated clock) and then watched for 2 more cycles; a detector must never read FALSE unless the monitor could have told it so "
               "since it started (timing-free); reads must return within interval+slack and abort only before the first answer; a continuously-read twin and a "
               "rarely-read twin must agree at settled points, and so must back-to-back reads.",
    level_note="Timing-based by nature: a miss is re-run alone; the kinds one stalled poll can produce (healthy archetype briefly reported failed, twin/burst mismatch, "
               "never-alive) must additionally reproduce twice with the time-out x25 while a canary goroutine sees no starvation, so accuracy defects that only exist "
               "at 10-40 ms time-outs are not claimed. 'Archetype registered nowhere yet, monitor reachable' is treated as unspecified (observed: always TRUE).",
    rule="rapid-drawn event orders over {monitor-start, monitor-close, archetype-start, archetype-end x4, detector-start(slot), path(slot)=sever/blackhole/heal, read(slot)xN}; "
         "non-trivial = some detector was started before the monitor was ever up and read TRUE, later read FALSE once monitor and archetype were up, and later "
         "read TRUE again after the archetype ended by panic or error; distinct by rendered scenario.",
    assumptions=["archetype ids carry a per-process unique component so that a port freed by a case and re-bound by another test process can never answer 'alive'"],
    runs=[
        dict(test="TestC19Detector", quick=dict(checks=400, shards=16, timeout=600), thorough=dict(checks=16000, shards=16, timeout=3600)),
        dict(test="TestC19ReadLatency", quick=dict(checks=32, shards=16, timeout=300), thorough=dict(checks=960, shards=16, timeout=1800)),
    ],
)

PROPS["C07"] = dict(
    pkg="c07", level="exploration",
    technique="stateful property-based testing (rapid state machine) of the shared-variable manager against a lock-table + value model, "
              "plus generated concurrent bank programs on real MPCalContexts judged by serial replay in the order of a lock-protected clock cell",
    level_text="(a) One goroutine drives 2-5 logical sharers over 1-4 LocalSharedManagers (scalar/record/tuple values, time-outs 1-3 ms, some under "
               "resources.MakePersistent) with read / write / index-read / index-write / commit / abort exactly as MPCalContext would; every access is judged "
               "against a two-phase-locking model (granted iff free or own, else ErrCriticalSectionAborted with no effect; own writes / last committed "
               "value read; commit publishes, abort restores; GetState between sections; no call beyond 50x time-out + 200 ms). (b) 2-6 real contexts "
               "run generated transfer / read-all / increment sections over 2-4 shared cells in drawn (also opposite) lock orders with drawn think times "
               "and time-outs 2-50 ms; the run must end, committed read-alls must see a conserved sum, and the committed sections replayed serially in "
               "clock-cell order must reproduce every recorded read and the final GetState of every cell. Sampling of interleavings, not proof.",
    level_note="Trusts the harness's 2PL model and the runtime's trace recorder (recorded accesses are checked against the program). A refusal of a lock "
               "that must be free is repeated up to 5 times before it counts (a scheduling stall longer than the 1-3 ms time-out lets Go's select pick the "
               "time-out branch; counted as model.spurious-timeout-on-free-lock). (b) explores the interleavings Go's scheduler plus drawn sleeps produce; "
               "PGO_DISRUPT_CONCURRENCY is not used (its sleeps are not rapid draws). No progress for 10 s without a leaked lock is set aside as inconclusive.",
    rule="(a) rapid state-machine histories; non-trivial = a conflict-induced abort of a sharer that holds >=1 other lock at that moment; distinct by rendered history. "
         "(b) generated programs; non-trivial = two archetypes take the locks of two cells in opposite orders and >=1 conflict (non-await) abort was observed; distinct by rendered programs.",
    runs=[
        dict(test="TestC07Model", quick=dict(checks=4000, shards=8, timeout=300), thorough=dict(checks=320000, shards=16, timeout=2400)),
        dict(test="TestC07Concurrent", race={"quick": True, "thorough": True}, quick=dict(checks=400, shards=8, timeout=400), thorough=dict(checks=48000, shards=16, timeout=3000)),
    ],
)

PROPS["C13"] = dict(
    pkg="c13", level="fault_enumeration",
    technique="stateful property-based testing (rapid state machine) with generated fault points: 2-4 real NewCRDT resources on loopback driven by one goroutine, "
              "broadcast rounds and incoming ReceiveValue calls placed by the generator (verif hooks), distinguishable updates, model of committed knowledge",
    level_text="Generated interleavings of writes, commits, aborts, reads, broadcast rounds (also between a write and its commit) and incoming "
               "ReceiveValue calls over 2-4 real CRDT resources (GCounter, AWORSet; peer lists with and without self; a third run adds rounds in "
               "which every connected peer answers with an RPC error). Every update is identifiable in what a node reads (increments 3^k; one "
               "designated writer per set element), so at every step every node's read, and every state a node hands to a peer, is checked: "
               "nothing of an open or aborted section shows (S1), what a node was seen to know never shrinks and its own committed updates are "
               "always there (S2), a section reads its own writes (S3); after updates stop and every node has ticked (<=10 rounds) every node "
               "reads exactly the join of all committed updates (C).",
    level_note="Delivery is asserted at the end of each case (the statement says 'eventually'), not after each round. Peers are reachable throughout; the only "
               "injected fault is a round whose calls all fail while the peers stay connected. Half of the cases exclude by construction the history "
               "shapes of listed findings so every oracle is live there; in the other half a violation is set aside only if the history has a listed shape.",
    rule="rapid state-machine histories (write/commit/abort/read/tick/recv over 2-4 nodes); non-trivial = a broadcast tick of a node between one of its "
         "writes and the end of that section, and a peer's state arriving at a node during an open section that is then aborted; distinct by rendered history.",
    runs=[
        dict(test="TestC13GCounter", quick=dict(checks=2400, shards=6, timeout=300, steps=40)),
        dict(test="TestC13AWORSet", quick=dict(checks=2400, shards=6, timeout=300, steps=40)),
        dict(test="TestC13Refusals", quick=dict(checks=1600, shards=4, timeout=300, steps=40)),
    ] + [dict(test=t, thorough=dict(checks=32000, shards=16, timeout=900, steps=40))
         for t in ["TestC13GCounter"] * 3 + ["TestC13AWORSet"] * 3 + ["TestC13Refusals"] * 2] + [
        dict(test="TestC13GCounter", thorough=dict(checks=8000, shards=16, timeout=1500, steps=40), race={"thorough": True}),
        dict(test="TestC13AWORSet", thorough=dict(checks=8000, shards=16, timeout=1500, steps=40), race={"thorough": True}),
        dict(test="TestC13Refusals", thorough=dict(checks=4800, shards=16, timeout=1500, steps=40), race={"thorough": True}),
    ],
)

PROPS["C06"] = dict(
    pkg="c06", level="fault_enumeration",
    technique="stateful property-based testing (rapid state machine), direct drive of the real mailbox/channel resources over loopback from one goroutine, against a per-link stream model",
    level_text="Generated histories over 1-3 senders x 1-2 receivers (each with its own Mailboxes object): send / sender pre-commit+commit / sender abort / "
               "recv / receiver commit / receiver abort / buffer-length reads in any interleaving, receive buffer 1-3 (Go channels 0-3), read time-out 20-50 ms, "
               "write/dial 300-400 ms, slow receivers, messages padded to 64 KiB / 2 MiB in 1/6 of the cases so socket buffers fill and writes time out. "
               "Every received message must be the next undelivered one of its sender's committed stream; rolled-back reads come back first and in order; "
               "TCP batches are contiguous; length <= pending; no call blocks 20 s; at the end everything is drained and committed-sent == committed-received per link.",
    level_note="Connections are never severed by the harness. A case whose captured log shows the sender retrying a commit ('network error during commit') is the "
               "code's own admission of a connection failure: counted under set-aside.commit-retry, not asserted. Loss is declared only after >=3 s AND >=100 fruitless "
               "read rounds (padded cases: >=12 s, >=3x the case's duration, >=300 rounds) so CPU starvation / TCP zero-window back-off cannot fake it. "
               "Kernel scheduling between the two socket ends is not owned; the oracle is insensitive to it.",
    rule="rapid state-machine histories (variant, topology, buffer size, time-outs, slow receivers, padding, then ~50 drawn actions); non-trivial = some mailbox "
         "received committed messages from >=2 senders AND >=1 receiver abort after a read AND (TCP, channels) >=1 sender abort after a send and >=1 multi-message "
         "batch; distinct by rendered history.",
    assumptions=["loopback TCP is healthy: 300 ms write/dial time-outs are two orders above jitter; cases where a commit retry happens anyway are set aside and counted"],
    runs=[
        dict(test="TestC06TCP", quick=dict(checks=448, shards=8, timeout=300, steps=50), thorough=dict(checks=22400, shards=16, timeout=3000, steps=50)),
        dict(test="TestC06Relaxed", quick=dict(checks=800, shards=4, timeout=300, steps=50), thorough=dict(checks=40000, shards=16, timeout=3000, steps=50)),
        dict(test="TestC06Channels", quick=dict(checks=420, shards=3, timeout=300, steps=50), thorough=dict(checks=21000, shards=16, timeout=3000, steps=50)),
        dict(test="TestC06RelaxedWriteTimeout", quick=dict(checks=1, shards=1, timeout=120), thorough=dict(checks=1, shards=1, timeout=120)),
    ],
)

PROPS["C11"] = dict(
    pkg="c11", level="fault_enumeration",
    technique="property-based testing (rapid): acceptor state machine driven through the public Receive against a reference model, with and without the gob round trip; real replicated resources with concurrent writers over a fault-injecting ReplicaHandle and both shipped transports, schedule-independent oracles over the full message log",
    level_text="Generated proposer/acceptor message sequences (2-4 senders, delay, loss, duplicate, stale, gob) against a model of the documented acceptor rules; "
               "generated clusters (2-5 nodes, thorough 2-7; 1-3 writers; <=6 sections) with per-message deliver/delay/duplicate/lose decisions, in-process and rpc-like delivery, "
               "LocalReplicaHandle and RPCReplicaHandle; safety oracles from the log of every message/reply/section; progress as a state check through Receive plus an end-to-end increment budget.",
    level_note="The resource's goroutines and back-off sleeps are not controlled: replicated cases are not replayable (the event log is the artefact) and all oracles are schedule-independent; "
               "wall clock only triggers the progress state check. The RPC transport is run without injected loss.",
    rule="Acceptor: an accepted pre-commit released by the proposer's Abort, then a competitor accepted for that version. Replicated: >=2 writers proposing the same version "
         "with overlapping pre-commit rounds and >=1 rejected proposal; distinct by rendered log.",
    runs=[
        dict(test="TestC11Acceptor", quick=dict(checks=32000, shards=8, timeout=300), thorough=dict(checks=1200000, shards=16, timeout=2400)),
        dict(test="TestC11Replicated", race={"thorough": True},
             quick=dict(checks=320, shards=16, timeout=300, shrink="2s"),
             thorough=dict(checks=12800, shards=16, timeout=3000, shrink="2s")),
    ],
)

PROPS["C09"] = dict(
    pkg="c09", level="exploration",
    technique="property-based testing (rapid) over generated schedules and workloads: real generated raftkvs servers and clients under the deterministic scheduler; acknowledged client histories judged by the porcupine linearizability checker against a per-key register model",
    level_text="Same scheduled runs as C08 with 2-3 concurrent real AClient archetypes, 1-3 keys, drawn Put/Get streams, drawn client time-outs (retries), "
               "failure-detector answers, leader changes and minority crashes. Invocation = the commit of the clientLoop attempt that took the request, "
               "return = the commit that published the response, logical time = global attempt index; returned values are read from the response records. "
               "Unacknowledged Puts are treated as possibly effective.",
    level_note="Trusts porcupine v1.3.0 and the register model; histories are sampled. The shape 'one Put appended twice to the log after a client retry' is "
               "a listed finding candidate: a non-linearizable history is set aside only if some server's log holds two Put entries with equal (client, idx).",
    rule="drawn configuration + workload + schedule (<=4000 attempts); non-trivial = two clients have overlapping operations on one key and a client retry or "
         "a leader change happened while some operation was open; distinct by rendered history.",
    runs=[
        dict(test="TestC09Linearizable", quick=dict(checks=1600, shards=16, timeout=600), thorough=dict(checks=160000, shards=16, timeout=3300)),
        dict(test="TestC09Deployed", quick=dict(checks=192, shards=16, timeout=600), thorough=dict(checks=4800, shards=16, timeout=3300)),
    ],
)

PROPS["C14"] = dict(
    pkg="c14", level="fault_enumeration",
    technique="property-based testing (rapid) over generated schedules, choices and crash points: real generated pbkvs archetypes under the deterministic scheduler on a spec-faithful environment; ConsistencyOK after every commit and porcupine on the client history",
    level_text="1-4 real AReplica and 1-3 real AClient archetypes run on the real Run loop one attempt at a time over harness implementations of the spec's mapping "
               "macros (FIFO link records, NetworkToggle, PerfectFD, LeaderElection, NetworkBufferLength, Channel, two-level fs). Who steps, every either branch and "
               "every crash (the mayFail choice, at every label boundary that has one, while another replica is alive) are rapid draws. After every commit the spec's "
               "ConsistencyOK is evaluated over fs and the program counters; no assertion may fail; the acknowledged client history must be linearizable.",
    level_note="Perfect failure detector as in the spec; crashes happen where the spec allows them (mayFail). The environment refuses writes and pre-commits with drawn probabilities (the section must abort and retry). Schedules are sampled (<=1200 attempts).",
    rule="drawn configuration, request stream, crash rate and schedule; non-trivial = the primary crashed between sending replication requests and answering "
         "(sndReplicaReqLoop / rcvReplicaRespLoop) and a backup later took over with shouldSync; distinct by rendered schedule.",
    runs=[
        dict(test="TestC14PrimaryBackup", quick=dict(checks=8000, shards=16, timeout=600), thorough=dict(checks=800000, shards=16, timeout=3300)),
    ],
)

PROPS["C16"] = dict(
    pkg="c16", level="exploration",
    technique="property-based testing (rapid) over generated schedules, choices, buffer bounds and crash sequences: the real generated archetypes of dqueue, loadbalancer, proxy, gcounter and nestedcrdtimpl under the deterministic scheduler on spec-faithful environments; shcounter on real 2PC resources in real time",
    level_text="dqueue (1-4 consumers, buffer 1-3): each produced item goes to exactly the consumer whose request is next in arrival order, in production order, consumed "
               "at most once, buffers within bound. loadbalancer (1-3 servers, 1-3 clients, buffer 1-3): BuffersOk, every request forwarded to one server and answered "
               "exactly once to the requesting client. proxy (1-3 servers, crash at every mayFail point, perfect FD): ProxyOK after every commit. gcounter (1-5 nodes, "
               "ANode and ANodeBench over real GCounter values, harness-scheduled merges): every read equals the increments the node has received, counters never "
               "decrease. nestedcrdtimpl (1-4 ACRDTResource instances, buffer 1-5, harness-played users issuing drawn sections of READ/WRITE/PRECOMMIT/COMMIT/ABORT): per-node "
               "counts never decrease, own count = own committed increments, no count exceeds what its node committed, READ_ACK = section-start state + own writes, and all "
               "instances hold all committed increments once nothing is in flight. shcounter (1-5 nodes, real 2PC resources, LocalReplicaHandle and RPCReplicaHandle): every node's run ends with cntr = NUM_NODES. No spec assertion fails anywhere.",
    level_note="Not covered here: shopcart and replicatedkv (the CRDT value types and the CRDT resource they bind are covered by C12/C13). shcounter is real-time "
               "(120 s watchdog); the others are deterministic functions of the drawn schedule.",
    rule="per system: dqueue >=2 consumers and a full buffer; loadbalancer >=2 clients and a full buffer; proxy a backend crash while the proxy is working on a "
         "request; gcounter a merge between two increments; nestedcrdtimpl a state merged while a section that later commits is open (>=2 instances); shcounter >=2 contending nodes; distinct by rendered schedule/configuration.",
    runs=[
        dict(test="TestC16DQueue", quick=dict(checks=6000, shards=4, timeout=300), thorough=dict(checks=600000, shards=16, timeout=3000)),
        dict(test="TestC16LoadBalancer", quick=dict(checks=6000, shards=4, timeout=300), thorough=dict(checks=600000, shards=16, timeout=3000)),
        dict(test="TestC16Proxy", quick=dict(checks=6000, shards=4, timeout=300), thorough=dict(checks=600000, shards=16, timeout=3000)),
        dict(test="TestC16GCounter", quick=dict(checks=6000, shards=2, timeout=300), thorough=dict(checks=400000, shards=16, timeout=3000)),
        dict(test="TestC16NestedCRDT", quick=dict(checks=6000, shards=4, timeout=300), thorough=dict(checks=600000, shards=16, timeout=3000)),
        dict(test="TestC16ShCounter", quick=dict(checks=96, shards=4, timeout=600), thorough=dict(checks=4000, shards=16, timeout=3300)),
    ],
)

PROPS["C02"] = dict(
    pkg="c02", level="translation_validation",
    technique="property-based testing (rapid) of spec/Go pairs with TLC as step oracle: generated schedules of the real generated archetypes on a spec-faithful environment; every committed step is judged by TLC against the label's action of the checked-in PlusCal translation",
    level_text="For the pairs locksvc, dqueue, pbkvs and raftkvs the real generated archetypes run under the deterministic scheduler on harness implementations of the spec's "
               "mapping macros; who steps, every either/with choice, every bag delivery and every crash (mayFail) are rapid draws. After every commit the complete spec "
               "state (globals, pc, every process-local variable read from the contexts) is recorded; the traces are emitted as a TLA+ module that EXTENDS the "
               "checked-in spec, and TLC checks Init on the first state and [][label(self)]_vars on every step (so enabling conditions, variable updates, next label, "
               "messages and assertions are all judged by the translation itself). Aborted attempts must leave the state unchanged.",
    level_note="Only checked-in pairs can be covered (the PGo compiler cannot run here). Covered: locksvc, dqueue, pbkvs, raftkvs (all 12 labels of its 19k-line translation; the five archetypes of every server "
               "share real LocalShared variables as bootstrap wires them; schedules from the C08 driver incl. partitions and crash-stops, which do not change the spec state). Not covered: "
               "proxy and loadbalancer (their checked-in translations are of an older shape), the CRDT/2PC-bound systems and the compiler test pairs. The mapping-macro "
               "views are the harness's transcription of the spec's macros: a transcription error shows up as a TLC rejection on the unchanged tree (harness bug).",
    rule="drawn schedules per pair; non-trivial = a committed step of a label that accesses a resource (more than the pc read/write), distinct by (pair, label, pre-state).",
    runs=[
        dict(test="TestC02LockSvc", late=False, quick=dict(checks=40, shards=1, timeout=600), thorough=dict(checks=1500, shards=4, timeout=3000)),
        dict(test="TestC02DQueue", quick=dict(checks=40, shards=1, timeout=600), thorough=dict(checks=1500, shards=4, timeout=3000)),
        dict(test="TestC02PBKVS", quick=dict(checks=40, shards=1, timeout=600), thorough=dict(checks=1500, shards=4, timeout=3000)),
        dict(test="TestC02RaftKVS", quick=dict(checks=72, shards=4, timeout=900), thorough=dict(checks=1600, shards=8, timeout=3300)),
    ],
)

PROPS["C17"] = dict(
    pkg="c17", level="fault_enumeration",
    technique="property-based testing with generated schedules (rapid): run-time-built archetypes on the real Run loop, instrumented gate-carrying resources "
              "(leaves, IncMap/HashMap of leaves, nested context), Stop calls pinned to phases by gates; Stop callers' blocking points observed from goroutine state",
    level_text="Generated scenarios: resource mix of 2-6 bindings, a 1-4 label looping program with one of 8 endings (Done, loop for ever, await for ever, failing "
               "assert, Error label, read / write / pre-commit resource error), 0-6 Stop calls each pinned to before Run / inside a body / during commit / during a "
               "blocked Close / after Run, Close errors, an optional second Run. Oracles: every Stop and Run return once all gates are open (wait-for-cycle detection + "
               "10 s watchdog, goroutine dump); no commit after a Stop returned; no attempt begins after a Stop request was in flight in an earlier attempt; every "
               "configured resource and every realised map element closed exactly once iff the run started; Run's result satisfies errors.Is for exactly the expected "
               "sentinels (primary error and every Close error, nothing else); a second Run runs nothing and closes nothing.",
    level_note="The point where a Stop call blocks inside Stop is read from runtime.Stack (no public seam exposes it). The order in which cleanupResources visits resources "
               "and the race inside NewNested (nested Run started on its own goroutine) belong to the code; the harness waits for the nested context to start before the outer Run.",
    rule="scenario drawn by rapid (mix x program x ending x stop phases x gate positions x Close errors x second Run); non-trivial = >=2 Stop calls of which >=1 was launched and "
         "observed blocked inside Stop while a resource's Close was held at its gate; distinct by rendered scenario.",
    runs=[
        dict(test="TestC17Lifecycle", race={"thorough": True}, quick=dict(checks=16000, shards=16, timeout=300), thorough=dict(checks=320000, shards=16, timeout=3000)),
        dict(test="TestC17NestedGroup", race=dict(quick=True, thorough=True), quick=dict(checks=3200, shards=8, timeout=300), thorough=dict(checks=160000, shards=16, timeout=3000)),
        dict(test="TestC17NestedEndsDuringCommit", quick=dict(checks=1, shards=1, timeout=120), thorough=dict(checks=1, shards=1, timeout=120)),
    ],
)

PROPS["C18"] = dict(
    pkg="c18", level="exploration",
    technique="property-based testing (rapid): generated programs and relays of 2-4 concurrently running archetypes (Go channels, TCP mailboxes, shared variables, fault plans) "
              "on the real Run loop with tracing on; the runtime's events (in-memory recorder or the JSON file of PGO_TRACE_DIR) are compared with the interpreter's own log and with two model vector clocks",
    level_text="One archetype over a generated resource mix, and chains A->B->C->D whose hops are Go channels / TCP mailboxes / shared variables plus extra shared variables in any direction, "
               "all run concurrently. Ground truth: every iface.Read/Write the interpreter issued per attempt and the attempt's outcome told by the control flow alone. Checked: one event per "
               "attempt in order with isAbort; elements = .pc read + performed ops + .pc write, names/indices/values (Equal and printed); old-value hints; replay of committed local writes "
               "reproduces logged local reads; own clock component = attempt ordinal; write-time stamp of the writer <= reader's clock <= causal upper bound; ~1/6 of cases through the real file recorder.",
    level_note="Every written value is a unique token, which identifies its writer. Whether a reader must also dominate what the writer learnt after its write in the same section is asserted for Go-channel hops "
               "(OutputChan stamps what it publishes at Commit with the committing attempt's clock; 0 shortfalls in 469 such reads on the unchanged tree) and only measured for shared variables "
               "and TCP mailboxes, which ship the clock as of the write (classes reads.writer-learnt-more-after-the-write.via.*, reads.restricted.via.*). Procedure calls (.stack) and Stop mid-section are not exercised. The process is started with "
               "PGO_TRACE_DIR because causal wrapping is decided at package init.",
    rule="Relay: >=3 archetypes, a middle one has an attempt that aborted after reading another archetype's value, and some writer read something after a write to a link in the same section; "
         "Single: an aborted attempt with >=1 write and a later chained write to the same local (or function key) in that attempt; distinct by rendered programs.",
    runs=[
        dict(test="TestC18Single", env={"PGO_TRACE_DIR": "@TMP/trace"}, quick=dict(checks=3600, shards=6, timeout=300), thorough=dict(checks=360000, shards=16, timeout=3000)),
        dict(test="TestC18Relay", env={"PGO_TRACE_DIR": "@TMP/trace"}, quick=dict(checks=3600, shards=6, timeout=300), thorough=dict(checks=360000, shards=16, timeout=3000)),
        dict(test="TestC18RelayTCP", env={"PGO_TRACE_DIR": "@TMP/trace"}, quick=dict(checks=128, shards=4, timeout=300), thorough=dict(checks=12800, shards=16, timeout=3000)),
        dict(test="TestC18Relay", env={"PGO_TRACE_DIR": "@TMP/trace"}, race={"thorough": True}, thorough=dict(checks=32000, shards=16, timeout=3000)),
    ],
)
