# Table read by ./check: one entry per property; each run entry is one rapid test
# (or native fuzz target) with its per-tier case count, shard count and watchdog.
PROPS = {}
HOOK_COMMITS = []
NOT_APPLICABLE = {}

PROPS["C10"] = dict(
    pkg="c10", level="exploration",
    technique="property-based testing (rapid): model-based history generation against a shape model of the oracle; bounded-retry oracle on the real Run loop",
    level_text="Generated search over oracle histories (labels, choice-point shapes, bound/id changes, retry counts) with an exact "
               "window oracle (every P consecutive same-shape attempts see P distinct in-range combinations) plus generated archetypes "
               "on the real Run loop whose enabled combination must be taken within the statement's bound. Sampling, not proof.",
    level_note="Trusts the harness's shape model (which digits the oracle holds, never their counts); exactly-once is asserted only "
               "where the statement's condition (same choice points on each attempt, no stale deeper digits) holds.",
    rule="rapid-generated histories of the shipped round-robin oracle: 1-5 phases, each a label, 1-5 choice points "
         "(ids following the code generator's <Arch>.<label>.<n> scheme, bounds 1-6; prefix-stable, bound-changing or "
         "fresh relative to the previous phase) and up to 2P+7 attempts, optionally consulting only a prefix; plus "
         "run-time-built archetypes with staged awaits executed by the real Run loop. Non-trivial = a window-checked "
         "run with depth>=2 and P>=4 that starts on a non-empty oracle stack (direct) / a program whose later label has "
         ">=2 points and P>=4 (run loop); distinct by rendered history/program.",
    assumptions=["global math/rand is seeded per case from a rapid draw so the oracle's random start digits are reproducible"],
    runs=[
        dict(test="TestC10Direct", quick=dict(checks=24000, shards=8, timeout=300), thorough=dict(checks=1600000, shards=16, timeout=2400)),
        dict(test="TestC10RunLoop", quick=dict(checks=8000, shards=8, timeout=300), thorough=dict(checks=400000, shards=16, timeout=2400)),
    ],
)

PROPS["C03"] = dict(
    pkg="c03", level="exploration",
    technique="property-based differential testing (rapid): typed expression-tree generator, three-way oracle runtime vs harness reference evaluator (TLA+ and fragment modes), reference cross-checked against TLC",
    level_text="Generated search over expression trees (depth<=4) on every exported operator/builtin, 30% with ill-typed subtrees, int32 boundary "
               "values; outcome classes value / loud TLA+ error / foreign panic / hang compared with an independent reference evaluator. "
               "Sampling of an infinite input space; no claim of exhaustiveness.",
    level_note="Trusts the harness reference evaluator (itself checked against TLC in the thorough tier); heterogeneous comparisons, lazily "
               "evaluated bodies that error, multi-witness CHOOSE, ToString of composites and strings-as-sequences are classed ambiguous and not asserted.",
    rule="typed expression trees of depth 1-4 over all operators (see classes op.*), leaves biased to int32 boundaries; non-trivial = depth>=2, some "
         "collection with >=2 members met during evaluation, TLC outcome not an error; distinct by rendered expression.",
    runs=[
        dict(test="TestC03Expr", quick=dict(checks=160000, shards=16, timeout=600), thorough=dict(checks=4000000, shards=16, timeout=3000)),
        dict(test="TestC03TLC", late=True, quick=dict(checks=1500, shards=1, timeout=600), thorough=dict(checks=40000, shards=1, timeout=3000)),
        dict(test="FuzzC03", kind="fuzz", late=True, thorough=dict(checks=1, shards=1, fuzztime="420s", parallel=16, timeout=900)),
    ],
)

PROPS["C05"] = dict(
    pkg="c05", level="exploration",
    technique="property-based testing (rapid): algebraic laws and round-trips over generated values realised in several construction orders; model-based map histories; printed form re-parsed by an independent parser and by TLC",
    level_text="Generated values (depth<=3, printable-ASCII strings, int32 boundaries) each realised through constructors in permuted orders, "
               "through operators and through gob; laws checked: Equal equivalence vs structural equality, Equal=>Hash, membership/lookup/"
               "HashMap/immutable.Map agreement with a reference map, gob identity (bare, in structs/interfaces, streams, with causal clocks), "
               "VClock join laws, String() denotes the value. Sampling, not proof.",
    level_note="Trusts the harness's canonical value model and its small TLA+ parser (cross-checked by TLC on a batch); the causal-wrapper half "
               "runs in a second process started with PGO_TRACE_DIR, because wrapping is decided at package init.",
    rule="values drawn by type (depth 0-3) and realised in >=2 ways; non-trivial = nesting depth>=2 with some set/function of >=2 members; "
         "distinct by canonical text (per sub-property prefix).",
    runs=[
        dict(test="TestC05EqualHash", quick=dict(checks=40000, shards=8, timeout=300), thorough=dict(checks=1600000, shards=16, timeout=2400)),
        dict(test="TestC05Maps", quick=dict(checks=8000, shards=4, timeout=300), thorough=dict(checks=320000, shards=16, timeout=2400)),
        dict(test="TestC05Gob", quick=dict(checks=16000, shards=4, timeout=300), thorough=dict(checks=640000, shards=16, timeout=2400)),
        dict(test="TestC05VClock", quick=dict(checks=8000, shards=2, timeout=300), thorough=dict(checks=200000, shards=8, timeout=2400)),
        dict(test="TestC05String", quick=dict(checks=24000, shards=4, timeout=300), thorough=dict(checks=800000, shards=16, timeout=2400)),
        dict(test="TestC05ZeroValue", quick=dict(checks=200, shards=1, timeout=120), thorough=dict(checks=2000, shards=1, timeout=300)),
        dict(test="TestC05StringTLC", late=True, quick=dict(checks=600, shards=1, timeout=600), thorough=dict(checks=20000, shards=1, timeout=2400)),
        # the same laws with causal wrapping switched on (decided in package init from the environment)
        dict(test="TestC05EqualHash", env={"PGO_TRACE_DIR": "@TMP/trace"}, quick=dict(checks=16000, shards=4, timeout=300), thorough=dict(checks=400000, shards=8, timeout=2400)),
        dict(test="TestC05Gob", env={"PGO_TRACE_DIR": "@TMP/trace"}, quick=dict(checks=8000, shards=2, timeout=300), thorough=dict(checks=200000, shards=8, timeout=2400)),
        dict(test="TestC05Maps", env={"PGO_TRACE_DIR": "@TMP/trace"}, quick=dict(checks=3000, shards=1, timeout=300), thorough=dict(checks=100000, shards=4, timeout=2400)),
    ],
)

PROPS["C12"] = dict(
    pkg="c12", level="exploration",
    technique="stateful property-based testing (rapid state machine): generated update/merge/gob histories over 2-5 replicas against causal-history models; semilattice laws on reachable states",
    level_text="Generated histories of local updates, pairwise merges in any order with repeats, and gob round trips over 2-5 replicas with "
               "replica ids of every value kind; after every step the replica's read is compared with a model computed from the exact causal "
               "history of every operation (sum of known increments / add not observed by a known remove / latest op per element), and "
               "commutativity, associativity, idempotence and inflation are checked on internal state read from each type's own wire image.",
    level_note="Trusts the harness's causal-history model; LWW timestamps come from the wall clock, so writes are spaced until it advances (input precondition).",
    rule="rapid state-machine histories (write/merge/gob/laws); non-trivial = >=3 replicas, some replica merged from >=2 others, and (set types) "
         "an add and a remove of one element issued concurrently on two replicas; distinct by rendered history.",
    runs=[
        dict(test="TestC12GCounter", quick=dict(checks=6000, shards=4, timeout=300), thorough=dict(checks=600000, shards=16, timeout=2400)),
        dict(test="TestC12AWORSet", quick=dict(checks=12000, shards=8, timeout=300), thorough=dict(checks=1200000, shards=16, timeout=2400)),
        dict(test="TestC12LWWSet", quick=dict(checks=6000, shards=4, timeout=300), thorough=dict(checks=400000, shards=16, timeout=2400)),
    ],
)

PROPS["C01"] = dict(
    pkg="c01", level="fault_enumeration",
    technique="property-based testing with generated fault plans (rapid): run-time-built archetypes on the real Run loop, transparent fault-injecting resource wrappers, per-resource transaction models compared after every attempt",
    level_text="Generated programs (1-6 labels x 1-8 reads/writes/indexed accesses) over generated mixes of 2-6 real resources, executed by the real "
               "MPCalContext.Run; a generated fault plan makes each label fail up to 3 times at a drawn position (false await, resource refusing an "
               "operation, resource failing after performing it, pre-commit failing after the inner pre-commit succeeded). After every attempt every "
               "observable (locals, GetState, badger, files, published outputs) must equal the model; every value read must be the model's; at the end "
               "all committed inputs are drained in order and one more read must find nothing.",
    level_note="Faults are those expressible through the ArchetypeResource interface (refusals/time-outs), not process crashes. Resource kinds covered are "
               "listed in evidence classes kind.*; SingleOutputChan is excluded (documents that it cannot abort).",
    rule="program x resource mix x fault plan drawn by rapid; non-trivial = some attempt aborted after performing a write or consuming read on >=2 "
         "different resource kinds and the label later committed; distinct by rendered program+plan.",
    runs=[
        dict(test="TestC01Memory", quick=dict(checks=4000, shards=8, timeout=300), thorough=dict(checks=400000, shards=16, timeout=3000)),
        dict(test="TestC01Sockets", quick=dict(checks=160, shards=8, timeout=300), thorough=dict(checks=16000, shards=16, timeout=3000)),
    ],
)

PROPS["C04"] = dict(
    pkg="c04", level="exploration",
    technique="property-based testing (rapid): generated procedure programs laid out as the code generator lays them out, executed by the real Run loop and compared step by step with a reference PlusCal stack machine",
    level_text="Generated programs (1-4 procedures, value and ref parameters, locals with and without initialiser, self/mutual recursion bounded by a fuel "
               "counter, tail calls, calls in last position, attempts aborted after the body performed Call/Return/TailCall) are materialised as "
               "MPCalProc/MPCalArchetype tables and run by the real runtime; after every commit or abort pc, the whole stack value and every "
               "procedure variable and archetype variable are compared with the reference machine, and every value read is checked.",
    level_note="Trusts the harness's PlusCal stack machine (frame = saved parameters+locals+return label; ref = name of the target slot). A reference to a "
               "procedure's own slot is only passed when the callee cannot re-enter that procedure (PlusCal has one slot per procedure variable).",
    rule="rapid-generated procedure programs; non-trivial = maximum call depth >=2 with an executed recursive or tail call and a variable read after a "
         "return; distinct by rendered program.",
    runs=[
        dict(test="TestC04Procedures", quick=dict(checks=24000, shards=8, timeout=300), thorough=dict(checks=2000000, shards=16, timeout=3000)),
    ],
)

PROPS["C15"] = dict(
    pkg="c15", level="exploration",
    technique="property-based testing (rapid) over generated schedules: real generated archetypes under a deterministic step scheduler (gate through SetFairnessCounter), spec-faithful bag network, invariant oracles after every committed step",
    level_text="The shipped AServer/AClient archetypes (1-8 clients) run on the real Run loop, one attempt at a time under a harness scheduler; who steps "
               "and which message a bag read delivers are rapid draws, so interleavings and delivery orders are searched, shrunk and replayed. After every "
               "commit: at most one hasLock; grants only to clients with an outstanding unserved request; k-th grant goes to the k-th request the server received.",
    level_note="The network is the harness's implementation of the spec's ReliableLink bag macro; schedules are sampled, not enumerated.",
    rule="drawn schedules of up to 60n+40 attempts; non-trivial = >=3 clients and at some point the lock holder plus >=2 waiting requests at the server; distinct by rendered schedule.",
    runs=[
        dict(test="TestC15LockService", quick=dict(checks=16000, shards=8, timeout=300), thorough=dict(checks=1600000, shards=16, timeout=3000)),
    ],
)
